#!/usr/bin/env python3
"""Regenerate the table of DESIGN.md §15 from evidence/*.json (quick tier) and the registry (tiers incl. deep)."""
import json, re, subprocess
from pathlib import Path
V = Path("/verif")
rows = []
for i in range(1, 21):
    pid = f"C{i:02d}"
    e = json.loads((V / "evidence" / f"{pid}.json").read_text())
    c = e["coverage"]
    slow = max((s.get("wall_s") or 0) for s in c["samples"])
    lst = subprocess.run([str(V / "check"), "--list", pid], capture_output=True, text=True).stdout.splitlines()
    tiers = [l.split()[1] for l in lst if l.startswith("c")]
    rows.append(f"| {pid} | {c['harnesses_run']} | {e['wall_s']:.0f} s | {c['solver_time_s']:.0f} s | {slow:.0f} s | {c['queries_discharged']} | {tiers.count('quick') + tiers.count('thorough')} | {tiers.count('deep')} |")
p = V / "DESIGN.md"
s = p.read_text()
a = s.index("| id | quick harnesses | wall |")
b = s.index("The dry-run harness stops a quick check after 900 s")
tab = ["| id | quick harnesses | wall | solver CPU (sum) | slowest harness | CBMC properties decided | harnesses in the thorough tier | registered but deep (§15.1) |", "|---|---|---|---|---|---|---|---|"] + rows
s = s[:a] + "\n".join(tab) + "\n\n" + s[b:]
p.write_text(s)
print("\n".join(rows))
