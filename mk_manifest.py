#!/usr/bin/env python3
"""Regenerate MANIFEST.json from props.py (claimed properties) and properties.jsonl (ids)."""
import json, subprocess
from pathlib import Path
from props import PROPS, NOT_APPLICABLE

V = Path(__file__).resolve().parent
ids = [json.loads(l)["id"] for l in (V / "properties.jsonl").read_text().splitlines() if l.strip()]
hook_commits = ["a23996a"]
checks = []
for pid in ids:
    if pid not in PROPS or not PROPS[pid].get("claimed", True):
        continue
    m = PROPS[pid]
    checks.append(dict(
        property_id=pid,
        quick_cmd=f"./check {pid} --tier quick",
        thorough_cmd=f"./check {pid} --tier thorough",
        evidence_file=f"/verif/evidence/{pid}.json",
        replay_cmd_template=f"./check {pid} --replay {{path}}",
        engine="kani-cbmc",
        level_claimed=dict(category="model_checking", text=m["level_text"], design_ref=m.get("design_ref", f"DESIGN.md §3 {pid}")),
        level_note=m.get("level_note", "Trusted: rustc->MIR->Kani GOTO translation, CBMC 6.11 + cadical, Kani's models of core/alloc/std, the harness-side oracle (canonical layout / spec functions), listed stubs and assumptions; little-endian 64-bit host."),
        technique=m.get("technique", "bounded symbolic execution of the real Rust code (Kani/CBMC, SAT) over kani::any() inputs with unwinding assertions; counterexamples replayed natively (dev+release) before reporting"),
    ))
na = [dict(property_id=pid, reason=NOT_APPLICABLE.get(pid, "check not built yet in this round (technique applies; see DESIGN.md)")) for pid in ids if pid not in {c["property_id"] for c in checks}]
man = dict(
    version=1,
    setup_cmd="cd /verif && ./check --list > /dev/null && cargo kani --version > /dev/null",
    hooks=dict(
        guard="cfg(any(kani, dsi_bitstream_verif))",
        enable="cargo kani sets cfg(kani) for every crate it compiles; native replays build with RUSTFLAGS='--cfg dsi_bitstream_verif'",
        baseline_off_cmd="cd /repo && cargo test --workspace --no-fail-fast --offline",
        source_commits=hook_commits,
        add_only=True,
    ),
    engines=[
        dict(name="kani-cbmc", path="/verif/check", serves_properties=[c["property_id"] for c in checks],
             kind_free_text="Kani 0.68.0 -> CBMC 6.11.0 (cadical): bounded model checking of the compiled Rust code of /repo, harness crate /verif/harness (path dependency on /repo, rebuilt from the working tree on every run)"),
    ],
    checks=checks,
    notes="Exit codes of ./check: 0 held / 1 VIOLATION (reproduced natively) / 2 inconclusive (timeout, OOM, vacuous harness, non-reproducing counterexample). Scratch build output lives in $VERIF_WORK (default /var/tmp/dsi-verif-work) and is removed at the end of each run. Tiers: quick (every change, <= ~10 min each on an idle 16-core machine), thorough (quick + every thorough-labelled harness that has been run to a PASS on the unchanged tree; up to hours), deep (--tier deep: additionally the registered harnesses listed in deep.txt, not yet run to a verdict; DESIGN.md 15.1). Run one check at a time: concurrent runs on this 62 GB machine without swap invite the kernel OOM killer (the driver then re-runs the aborted harness alone).",
    not_applicable=na,
)
(V / "MANIFEST.json").write_text(json.dumps(man, indent=1) + "\n")
print("claimed:", [c["property_id"] for c in checks], "not_applicable:", [n["property_id"] for n in na])
