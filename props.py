"""Per-property metadata used by ./check: harness-name prefixes, feature builds, assumptions, outside-claim.
Harness declarations themselves (instantiation, bounds, unwind, stubs) live in harness/src/c*.rs and are parsed from there."""

COMMON_OUTSIDE = ["big-endian hosts", "target_arch=arm default table choices", "no_std builds"]

PROPS = {
    "C01": dict(
        prefixes=["c01_"],
        assumptions=[
            "write_bits: n <= 64 (documented precondition); v arbitrary incl. dirty high bits",
            "write_unary: x bounded per harness (x <= 3W); same loop beyond, more iterations",
            "writer pre-state: 1 <= space_left <= W, buffer bits arbitrary (representation invariant)",
            "recording backend Rec<W,12> is infallible (fallible backends: C11/C13)",
        ],
        outside=COMMON_OUTSIDE + ["write_unary beyond the stated run bound", "backend errors mid-operation"],
    ),
    "C17": dict(
        prefixes=["c17_"],
        assumptions=["none beyond the type width: inputs range over the whole type"],
        outside=[],
    ),
}
