"""Per-property metadata used by ./check: harness-name prefixes, feature builds, assumptions, outside-claim.
Harness declarations themselves (instantiation, bounds, unwind, stubs) live in harness/src/c*.rs and are parsed from there."""

COMMON_OUTSIDE = ["big-endian hosts", "target_arch=arm default table choices", "no_std builds"]

PROPS = {
    "C01": dict(
        prefixes=["c01_"],
        level_text="Bounded model checking of the real BufBitWriter code: one inductive step (write_bits / write_unary / flush / drop / into_inner) from an arbitrary representation-valid writer state with symbolic arguments, per (endianness, word) instantiation, against the canonical bit layout; a pass covers operation histories of any length for the listed instantiations within the stated argument bounds.",
        assumptions=[
            "write_bits: n <= 64 (documented precondition); v arbitrary incl. dirty high bits",
            "write_unary: x bounded per harness (x <= 3W); same loop beyond, more iterations",
            "writer pre-state: 1 <= space_left <= W, buffer bits arbitrary (representation invariant)",
            "recording backend Rec<W,12> is infallible (fallible backends: C11/C13)",
        ],
        outside=COMMON_OUTSIDE + ["write_unary beyond the stated run bound", "backend errors mid-operation"],
    ),
    "C02": dict(
        prefixes=["c02_"],
        level_text="Bounded model checking of the real BufBitReader (u8..u64 words) and BitReader code: one inductive step (read_bits / peek_bits+skip_bits_after_peek / read_unary / skip_bits / clone) from an arbitrary representation-valid reader state (any buffer fill 0..2W-1, any cursor, symbolic data) against the canonical bit layout, asserting value, exact advance, bit_pos and re-establishment of the invariant; a pass covers histories of any length for the listed instantiations within the stated argument bounds.",
        assumptions=[
            "read_bits: n <= 64; peek_bits: 1 <= n <= W (buffered) / <= 32 (unbuffered); skip_bits_after_peek(s): s <= last peek",
            "reader pre-state Inv_r: bits_in_buffer <= 2W-1, buffer bits outside the valid window zero, cursor*W >= bits_in_buffer (exactly the states reachable via new/skip_bits/peek_bits)",
            "read_unary: the terminating one lies within the buffer plus the next 3 words (zero-extended backend loops forever on an all-zero tail, as documented)",
            "backend: zero-extended MemWordReader over a symbolic array of K words (K per harness), reads beyond K yield zero",
        ],
        outside=COMMON_OUTSIDE + ["peek_bits(n) with n > W on the buffered reader (see C05)", "unary runs longer than the stated window"],
    ),
    "C03": dict(
        prefixes=["c03_"],
        level_text="Bounded model checking of the real generic codec code (src/codes/*.rs, every write_*/read_* incl. table variants) executed on a model bit stream implementing the library's own BitRead/BitWrite traits: symbolic value over the full 64-bit domain, symbolic parameters, symbolic bit offset (0..=64) and arbitrary following bits; asserts value round trip, exact consumption and intact neighbours. Combination with every real writer/reader word size follows compositionally from C01/C02 (the real streams refine the same canonical model); end-to-end real-writer/real-reader runs are in the thorough tier.",
        assumptions=[
            "value domain: v <= 2^64-2 (documented maximum) for gamma/delta/omega/zeta/pi/exp-Golomb, any u64 for VByte/Rice; zeta k in 1..=63; pi/Rice/exp-Golomb k in 0..=63; minimal binary 1<=u<2^64, v<u",
            "codewords longer than 128 bits are outside (unary-prefixed codes: Rice/Golomb quotient bounded accordingly)",
            "Golomb modulus b in 1..=64 (quick) / 1..=4096 with v<2^20 (thorough): symbolic 64-bit division with larger moduli does not finish",
            "model stream MS<E> (256 bits) is the canonical model of C01/C02; its own correctness is checked by c03_ms_selfcheck_* and c03_ms_rebase_*",
            "quick tier reads on the stream re-based at the symbolic offset (position-independence lemma c03_ms_rebase_*); thorough tier reads in place",
        ],
        outside=COMMON_OUTSIDE + ["Golomb moduli above the stated bound", "codewords longer than 128 bits"],
    ),
    "C08": dict(
        prefixes=["c08_"],
        builds={"quick": [("default", [])], "thorough": [("default", []), ("no_copy_impls", ["no_copy_impls"])]},
        level_text="Bounded model checking of the real copy_to (BufBitReader u8..u64, BitReader) and copy_from (BufBitWriter u8..u128) code, optimised paths and (thorough tier, crate rebuilt with no_copy_impls) the generic chunked paths: one copy of symbolic length from an arbitrary reader/writer state to/from a model stream that asserts the bit-stream preconditions at every call; asserts the exact bits transferred, exact advance of both sides and re-establishment of the reader/writer invariants, from which all later operations behave as after a bit-by-bit transfer (C01/C02 hold from every invariant state).",
        assumptions=[
            "copy length n <= 2W+64 (<=200 for u128 words): covers n=0, n inside the buffer, n spanning several words",
            "reader/writer pre-states as in C01/C02; more than one word buffered (after a look-ahead refill) included",
            "the peer stream is the model stream MS<E> (canonical model of C01/C02), which asserts n<=64 on every primitive call",
        ],
        outside=COMMON_OUTSIDE + ["copies longer than the stated bound (same loops, more iterations)", "copy between streams of different endianness (not claimed by the property)"],
    ),
    "C11": dict(
        prefixes=["c11_"],
        level_text="Bounded model checking of the real WordAdapter code over nondeterministic std::io stubs: write_word (1-2 symbolic words) over a sink whose every call may accept any count 0..=len, return Interrupted (budget 2) or fail hard; read_word over a source with symbolic data/length/cursor and the same fault schedule; word_pos/set_word_pos over std::io::Cursor. Asserts: Ok implies every byte transferred exactly once and in order; errors are never swallowed; positions are exact.",
        assumptions=[
            "the wrapped object obeys the std::io::Read/Write contracts and nothing else (stub: FaultyW/FaultyR, symbolic schedule of <=12 calls, <=2 Interrupted results)",
            "stubs: alloc::fmt::format / ToString::to_string return an empty String (error text not part of the property); error values are forgotten, not dropped",
            "std::io::{Cursor, read_exact, write_all} as shipped (executed, not modelled)",
        ],
        outside=COMMON_OUTSIDE + ["real files/sockets, BufReader/BufWriter internals", "byte streams whose length is not a multiple of the word size (reported as error by the adapter)"],
    ),
    "C12": dict(
        prefixes=["c12_"],
        level_text="Bounded model checking of the real std::io::Write impl of BufBitWriter (all 10 endianness x word instantiations) and std::io::Read impl of BufBitReader/BitReader: one call with a symbolic byte slice of symbolic length from an arbitrary writer/reader state (any bit offset, any history), asserting byte-exact placement per bit, the reported count, exact advance and absence of panics.",
        assumptions=[
            "slice length bounded per harness (see bounds); bytes symbolic",
            "writer/reader pre-states as in C01/C02 (representation invariants)",
            "recording backend / zero-extended memory backend are infallible",
        ],
        outside=COMMON_OUTSIDE + ["slices longer than the stated bound (same loops, more iterations)"],
    ),
    "C13": dict(
        prefixes=["c13_"],
        level_text="Bounded model checking of MemWordReader (strict and zero-extended), MemWordWriterSlice and MemWordWriterVec against an array-plus-cursor model: symbolic backing array (<=4 words) of symbolic length, cursor reached through set_word_pos, one operation with symbolic selector/argument (read, write, seek to any u64, position), then a probe read; errors must leave cursor and storage unchanged.",
        assumptions=[
            "backing arrays of at most 4 words (slices of symbolic length 0..=4)",
            "MemWordWriterVec: vector length 0..=3 and cursor 0..=len are concrete per harness (symbolic Vec reallocation does not finish); contents and written words symbolic; growth is only reachable at cursor==len, so the zero fill of resize is never observable",
            "zero-extended reader: cursor < 2^64-3 (the increment at usize::MAX overflows; documented in the source as dirty but infallible)",
            "stubs: alloc::fmt::format and ToString::to_string return an empty String (error messages are not part of the property); error values are forgotten, not dropped",
        ],
        outside=COMMON_OUTSIDE + ["symbolic Vec lengths", "cursor within 2 of usize::MAX on the zero-extended reader"],
    ),
    "C17": dict(
        prefixes=["c17_"],
        level_text="Symbolic check over the whole input type of each width (8..128 bits, pointer size): to_nat/to_int are mutually inverse and follow the documented formula; loop-free, so the bound is the type width itself.",
        assumptions=["none beyond the type width: inputs range over the whole type"],
        outside=[],
    ),
}

# properties not claimed, with the reason (kept current)
NOT_APPLICABLE = {}
