"""Per-property metadata used by ./check: harness-name prefixes, feature builds, assumptions, outside-claim.
Harness declarations themselves (instantiation, bounds, unwind, stubs) live in harness/src/c*.rs and are parsed from there."""

COMMON_OUTSIDE = ["big-endian hosts", "target_arch=arm default table choices", "no_std builds"]

PROPS = {
    "C01": dict(
        prefixes=["c01_"],
        level_text="Bounded model checking of the real BufBitWriter code: one inductive step (write_bits / write_unary / flush / drop / into_inner) from an arbitrary representation-valid writer state with symbolic arguments, per (endianness, word) instantiation, against the canonical bit layout; a pass covers operation histories of any length for the listed instantiations within the stated argument bounds.",
        assumptions=[
            "write_bits: n <= 64 (documented precondition); v arbitrary incl. dirty high bits",
            "write_unary: x bounded per harness (x <= 3W); same loop beyond, more iterations",
            "writer pre-state: 1 <= space_left <= W, buffer bits arbitrary (representation invariant)",
            "recording backend Rec<W,12> is infallible (fallible backends: C11/C13)",
        ],
        outside=COMMON_OUTSIDE + ["write_unary beyond the stated run bound", "backend errors mid-operation"],
    ),
    "C02": dict(
        prefixes=["c02_"],
        heavy="c02_adapter|c02_history",
        level_text="Bounded model checking of the real BufBitReader (u8..u64 words) and BitReader code: one inductive step (read_bits / peek_bits+skip_bits_after_peek / read_unary / skip_bits / clone) from an arbitrary representation-valid reader state (any buffer fill 0..2W-1, any cursor, symbolic data) against the canonical bit layout, asserting value, exact advance, bit_pos and re-establishment of the invariant; a pass covers histories of any length for the listed instantiations within the stated argument bounds.",
        assumptions=[
            "read_bits: n <= 64; peek_bits: 1 <= n <= W (buffered) / <= 32 (unbuffered); skip_bits_after_peek(s): s <= last peek",
            "reader pre-state Inv_r: bits_in_buffer <= 2W-1, buffer bits outside the valid window zero, cursor*W >= bits_in_buffer (exactly the states reachable via new/skip_bits/peek_bits)",
            "read_unary: the terminating one lies within the buffer plus the next 3 words (zero-extended backend loops forever on an all-zero tail, as documented)",
            "backend: zero-extended MemWordReader over a symbolic array of K words (K per harness), reads beyond K yield zero",
        ],
        outside=COMMON_OUTSIDE + ["peek_bits(n) with n > W on the buffered reader (see C05)", "unary runs longer than the stated window"],
    ),
    "C03": dict(
        # quick: round trip at offset 0 (c03_r_*) + position independence of the model stream (c03_ms_*) + the real
        # writer/reader refinement steps; thorough adds the definition harnesses, in-place round trips and end-to-end runs
        prefixes=["c03_r_", "c03_ms_", "c03_rt_", "c03_e2e_", "c03_w64_", "c01_write_bits", "c01_write_unary", "c02_read_bits", "c02_read_unary", "c02_ub_read_bits", "c02_ub_read_unary"],
        level_text="Bounded model checking of the real generic codec code (src/codes/*.rs, every write_*/read_* incl. table variants) executed on a model bit stream implementing the library's own BitRead/BitWrite traits: symbolic value over the full 64-bit domain, symbolic parameters, symbolic bit offset (0..=64) and arbitrary following bits; asserts value round trip, exact consumption and intact neighbours. Combination with every real writer/reader word size follows compositionally from C01/C02 (the real streams refine the same canonical model); end-to-end real-writer/real-reader runs are in the thorough tier.",
        assumptions=[
            "value domain: v <= 2^64-2 (documented maximum) for gamma/delta/omega/zeta/pi/exp-Golomb, any u64 for VByte/Rice; zeta k in 1..=63; pi/Rice/exp-Golomb k in 0..=63; minimal binary 1<=u<2^64, v<u",
            "codewords longer than 128 bits are outside (unary-prefixed codes: Rice/Golomb quotient bounded accordingly)",
            "Golomb modulus b in 1..=16 with any quotient (quick), 1..=64 and 1..=4096 with v<2^20 (thorough), and ANY 64-bit modulus with v<b (quotient 0; quick): symbolic 64-bit division with larger moduli does not finish",
            "model stream MS<E> (256 bits) is the canonical model of C01/C02; its own correctness is checked by c03_ms_selfcheck_* and c03_ms_rebase_*",
            "quick tier reads on the stream re-based at the symbolic offset (position-independence lemma c03_ms_rebase_*); thorough tier reads in place",
        ],
        outside=COMMON_OUTSIDE + ["Golomb moduli above the stated bound", "codewords longer than 128 bits"],
    ),
    "C08": dict(
        prefixes=["c08_", "c09_copy"],
        builds={"quick": [("default", [])], "thorough": [("default", []), ("no_copy_impls", ["no_copy_impls"])]},
        level_text="Bounded model checking of the real copy_to (BufBitReader u8..u64, BitReader) and copy_from (BufBitWriter u8..u128) code, optimised paths and (thorough tier, crate rebuilt with no_copy_impls) the generic chunked paths: one copy of symbolic length from an arbitrary reader/writer state to/from a model stream that asserts the bit-stream preconditions at every call; asserts the exact bits transferred, exact advance of both sides and re-establishment of the reader/writer invariants, from which all later operations behave as after a bit-by-bit transfer (C01/C02 hold from every invariant state). c09_copy_*: copy_to from any reader state over a strict word source truncated after any number of words is Ok with exactly the stream's bits and an advance of n iff the n bits exist (no read-ahead beyond the last bit needed may surface as an error), an error otherwise.",
        assumptions=[
            "copy length n <= 2W+64 (<=200 for u128 words): covers n=0, n inside the buffer, n spanning several words",
            "reader/writer pre-states as in C01/C02; more than one word buffered (after a look-ahead refill) included",
            "the peer stream is the model stream MS<E> (canonical model of C01/C02), which asserts n<=64 on every primitive call",
        ],
        outside=COMMON_OUTSIDE + ["copies longer than the stated bound (same loops, more iterations)", "copy between streams of different endianness (not claimed by the property)"],
    ),
    "C11": dict(
        prefixes=["c11_"],
        level_text="Bounded model checking of the real WordAdapter code over nondeterministic std::io stubs: write_word (1-2 symbolic words) over a sink whose every call may accept any count 0..=len, return Interrupted (budget 2) or fail hard; read_word over a source with symbolic data/length/cursor and the same fault schedule; word_pos/set_word_pos over std::io::Cursor. Asserts: Ok implies every byte transferred exactly once and in order; errors are never swallowed; positions are exact.",
        assumptions=[
            "the wrapped object obeys the std::io::Read/Write contracts and nothing else (stub: FaultyW/FaultyR, symbolic schedule of <=12 calls, <=2 Interrupted results)",
            "stubs: alloc::fmt::format / ToString::to_string return an empty String (error text not part of the property); error values are forgotten, not dropped",
            "std::io::{Cursor, read_exact, write_all} as shipped (executed, not modelled)",
        ],
        outside=COMMON_OUTSIDE + ["real files/sockets, BufReader/BufWriter internals", "byte streams whose length is not a multiple of the word size (reported as error by the adapter)"],
    ),
    "C12": dict(
        prefixes=["c12_"],
        level_text="Bounded model checking of the real std::io::Write impl of BufBitWriter (all 10 endianness x word instantiations) and std::io::Read impl of BufBitReader/BitReader: one call with a symbolic byte slice of symbolic length from an arbitrary writer/reader state (any bit offset, any history), asserting byte-exact placement per bit, the reported count, exact advance and absence of panics.",
        assumptions=[
            "slice length bounded per harness (see bounds); bytes symbolic",
            "writer/reader pre-states as in C01/C02 (representation invariants)",
            "recording backend / zero-extended memory backend are infallible",
        ],
        outside=COMMON_OUTSIDE + ["slices longer than the stated bound (same loops, more iterations)"],
    ),
    "C13": dict(
        prefixes=["c13_"],
        level_text="Bounded model checking of MemWordReader (strict and zero-extended), MemWordWriterSlice and MemWordWriterVec against an array-plus-cursor model: symbolic backing array (<=4 words) of symbolic length, cursor reached through set_word_pos, one operation with symbolic selector/argument (read, write, seek to any u64, position), then a probe read; errors must leave cursor and storage unchanged.",
        assumptions=[
            "backing arrays of at most 4 words (slices of symbolic length 0..=4)",
            "MemWordWriterVec: vector length 0..=3 and cursor 0..=len are concrete per harness (symbolic Vec reallocation does not finish); contents and written words symbolic; growth is only reachable at cursor==len, so the zero fill of resize is never observable",
            "zero-extended reader: cursor < 2^64-3 (the increment at usize::MAX overflows; documented in the source as dirty but infallible)",
            "stubs: alloc::fmt::format and ToString::to_string return an empty String (error messages are not part of the property); error values are forgotten, not dropped",
        ],
        outside=COMMON_OUTSIDE + ["symbolic Vec lengths", "cursor within 2 of usize::MAX on the zero-extended reader"],
    ),
    "C14": dict(
        prefixes=["c14_"],
        level_text="Bounded model checking of the real CountBitWriter/CountBitReader/DbgBitWriter/DbgBitReader code: every operation reachable through the wrappers (fixed-width, unary, flush/skip, the wrappers' own gamma/delta/zeta methods, every blanket codec incl. omega and the table-parameterised variants that go through peek_bits/skip_bits_after_peek, default bulk copies) run with symbolic arguments through the wrapper and on a bare copy of the same model stream: identical results, bits and positions, and counters equal to the exact number of bits that reached/left the inner stream; flush over a real BufBitWriter with pending bits.",
        assumptions=[
            "inner stream: model stream MS<E> (canonical model, exact bit counters); real BufBitWriter<E,Rec<u32>> from an arbitrary state for flush",
            "one operation per harness from a stream with a symbolic prefix (<=16 bits); parameters of parameterised codes reduced (k mod 8, b<=16, u<=1000) and values bounded for unary-prefixed codes to keep codewords inside the 256-bit model stream",
            "eprintln! output of the tracing wrappers is not checked (Kani's print override makes it a no-op)",
        ],
        outside=COMMON_OUTSIDE + ["the text printed by the tracing wrappers"],
    ),
    "C04": dict(
        prefixes=["c03_w", "c03_ms_selfcheck", "c03_rt", "c18_io_write", "c18_generic_read"],
        pre=["oracle"],
        level_text="Bounded model checking of every real code writer (src/codes/*.rs, table and non-table variants) on a model bit stream against a specification of the codewords written from the module documentation only (harness/src/spec.rs: per-bit, loop-free): for symbolic value, parameters and bit offset, the number of bits appended equals the definition's length and every appended bit (nondeterministic index) equals the definition's bit, for both endiannesses with the documented little-endian conventions. Writer word sizes follow from C01 (every real writer refines the same canonical stream).",
        assumptions=[
            "the specification in spec.rs is the published definition (validated natively against the literal vectors of the repository's tests/docs and its Python reference generator by oracle/validate.py)",
            "value/parameter domains and the 128-bit codeword bound as in C03; zeta_k compared with the definition where 2^((h+1)k) fits (and in the (h+1)k = 64 wrap case)",
            "quick tier: bit offset 0..=7 (every alignment inside a byte); thorough: 0..=64",
        ],
        outside=COMMON_OUTSIDE + ["zeta_k values with (h+1)k > 64 (the property does not claim the published form there)", "Golomb moduli above the stated bound"],
    ),
    "C05": dict(
        pre=["scope"],
        prefixes=["c05_", "c03_w_gamma_tab", "c03_w_delta_tab", "c03_w_zeta3_tab", "c03_w_gamma_be", "c03_w_delta_be", "c03_w_zeta3_be", "c03_w_gamma_le", "c03_w_delta_le", "c03_w_zeta3_le", "c09_gamma_tab", "c09_delta_tab", "c09_zeta3_tab", "c09_ub_gamma_tab", "c09_ub_delta_tab", "c09_ub_zeta3_tab"],
        level_text="Bounded model checking of table-driven vs bit-by-bit coding. Decoding: from an arbitrary representation-valid state of the REAL readers (BufBitReader over u16/u32/u64 words, BitReader) over a symbolic stream - hence every look-ahead pattern of every table at every buffer fill - the table variant and the plain variant return the same value and leave the same position and a valid state (gamma; delta in all table combinations; zeta3). Encoding/length tables: both variants are compared with the same definition for every value (C03/C04 harnesses *_tab_*), and the parameterless defaults of the real readers/writers agree with the plain variants.",
        assumptions=[
            "the plain decoder's precondition: the stream holds a codeword (first one bit within 20 / 6 / 11 bits for gamma / delta / zeta3, so that every field read is <= 64 bits)",
            "readers whose construction emits the insufficient-look-ahead diagnostic are excluded by the property; whether BufBitReader<u8> emits it per table is determined natively on the tree under test (bin diag_dump captures the stderr of constructing one) and the u8 harnesses c05_dec_*_u8_* check the reader exactly for the tables for which it does not",
            "strict-tail behaviour (fewer bits than the index width before the end of a strict stream): the C09 harnesses c09_*_tab_* / c09_ub_*_tab_* are part of this check (table-driven read from any state on data truncated after any number of words: value and position of the definition, or an error with nothing consumed)",
        ],
        outside=COMMON_OUTSIDE + ["the text of the diagnostic (checked natively)"],
    ),
    "C06": dict(
        prefixes=["c03_w", "c03_r", "c06_"],
        level_text="Bounded model checking: in the C03/C04 codec harnesses every length function of the library for the code (with and without length tables) equals the value returned by the write, equals the growth of the stream, equals the length of the published definition (write harnesses, symbolic value/parameters) and equals the number of bits the read consumes (round-trip harnesses); the length-dispatch objects (ConstCode / Codes / FuncCodeLen) equal the code's own length function and the bits written (C10 harnesses, thorough tier).",
        assumptions=["domains and bounds as in C03/C04; len_rice/len_golomb for astronomically long codewords (usize overflow) are outside"],
        outside=COMMON_OUTSIDE + ["codewords longer than 128 bits"],
    ),
    "C09": dict(
        prefixes=["c09_", "c07_seek_strict"],
        level_text="Bounded model checking of the real BufBitReader over a strict MemWordReader whose data is truncated after a symbolic number of words, from an arbitrary reader state: each primitive (read_bits, read_unary, peek_bits, skip_bits) and code read (gamma/delta/zeta3 through their look-ahead tables, plain gamma, omega with its one-bit look-ahead, VByte) returns the right value whenever the bits it needs lie within the data - including when the codeword ends exactly at the end and the table peek runs past it - and an error whenever it needs a bit beyond the end. The zero-extending backend is infallible by typing and its reads past the end are covered by C02.",
        assumptions=[
            "oracle for code reads: a zero-extended twin reader over the same data (correct by C02/C05) gives the value and the number of bits needed",
            "data of at most K words (K per harness); codewords bounded as in C05 (omega: values < 16; VByte: <= 3 bytes)",
            "error values forgotten, message formatting stubbed",
        ],
        outside=COMMON_OUTSIDE + ["strict slice/vector writers read back and WordAdapter over a truncated Cursor (word level: C13/C11)"],
    ),
    "C07": dict(
        prefixes=["c07_", "c02_read_bits", "c02_peek_bits", "c02_skip_bits", "c02_read_unary", "c02_ub_", "c12_read"],
        level_text="Bounded model checking of bit_pos()/set_bit_pos() of the real BufBitReader (u8..u64) and BitReader: bit_pos() is asserted after every operation of the C02/C12 step harnesses (arbitrary reader state, so every history), and one set_bit_pos(p) with symbolic p from an arbitrary state is shown to land in the abstract state of a fresh reader that consumed p bits (invariant, position, every upcoming bit), on zero-extended and strict memory backends; word positions over seekable byte streams are C11.",
        assumptions=[
            "seek targets 0..=K*W over a symbolic array of K words (K per harness)",
            "reader pre-state Inv_r as in C02",
            "strict backend: data <= 4 words; error values forgotten, message formatting stubbed",
        ],
        outside=COMMON_OUTSIDE + ["std::io::BufReader / File internals (WordAdapter only calls read_exact, stream_position, seek)", "byte streams whose length is not a multiple of the word size"],
    ),
    "C10": dict(
        prefixes=["c10_"],
        level_text="Bounded model checking of the real dispatch code: for every compile-time constant 0..=50 (ConstCode<ID>: inherent methods, Static* trait impls, CodeLen), every enumeration variant with parameters 0..=11 plus symbolic parameters 11..=63 (Codes: write/read/len, Static* impls) and the function-pointer dispatchers (FuncCodeWriter/Reader/Len::new) and the reader-factory dispatcher (FactoryFuncCodeReader::new, through get() and inner(), over a harness-side reader factory), the dispatcher and the code's own method named by the identifier run on two copies of a model stream with the same symbolic value: same bits, same lengths, same values, same positions, and the dispatcher reads back what it wrote; unsupported parameters are rejected or perform exactly that code. Quick tier: the symbolic-value harnesses for a sample of identifiers per mechanism, plus sweeps (c10_sweep_*) that run EVERY identifier / variant of every mechanism at one concrete value (13) against the code it names, so that every table entry and match arm is exercised on every change; the remaining per-identifier symbolic-value harnesses are thorough / deep tier.",
        assumptions=[
            "oracle: (family, parameter) derived from the identifier's NAME, restated once in the harness (direct_write!/direct_read!/direct_len)",
            "value domain per code as in C03; unary-prefixed codes bounded so that the codeword fits the 256-bit model stream",
            "streams: model stream MS<E,true> (parameterless traits use the table variants, like the real readers/writers)",
            "anyhow error values are forgotten (and <anyhow::Error as Drop>::drop is a no-op: errors leak), message formatting stubbed",
            "c10_sweep_*: one concrete value per entry - decided by constant propagation during symbolic execution, no solver query in the value dimension (symbolic values in a sweep: 22 s per entry, out of budget for 236 entries)",
        ],
        outside=COMMON_OUTSIDE + ["the statistics-gathering wrapper's pass-through is checked in C15 (c15_wrapper_*)"],
    ),
    "C15": dict(
        prefixes=["c15_"],
        level_text="Bounded model checking of the real CodesStats / CodesStatsWrapper code: one update/update_many with symbolic value and multiplicity from an arbitrary statistics value (every field = old + len_code(n, parameter(index)) * count, index->parameter map restated in the harness), merge operations (add, +=, +, sum) equal the field-wise sum, best_code returns the minimum with the right parameter, the dispatch wrapper updates by the value written/read. Any multiset and any split follow by induction (updates and merges are additions). Concurrent use: Kani has no threads, so what other threads can do is modelled where they can do it - std::sync::Mutex::lock is stubbed by a function that, at every acquisition, may apply complete updates of other threads before handing over the guard; each of the wrapper's four operations must end with its own update plus every interfering one (an operation that releases the lock in the middle of its read-modify-write loses them and is refuted; counterexamples are replayed natively with real threads).",
        assumptions=[
            "totals fit in 64 bits: fields < 2^56 before the step, n < 2^12 (default instantiation <10,20,10,10,10>) or n < 2^40 (reduced instantiation <2,3,2,2,2>), count < 2^16 / 2^12",
            "std::sync::Mutex as modelled by Kani; c15_atomic_*: Mutex::lock stubbed (try_lock + up to 3 interfering updates of a symbolic value, each at any acquisition)",
        ],
        outside=COMMON_OUTSIDE + ["real thread schedules: interleavings are modelled only at lock acquisitions (sound for data reachable only through the Mutex, whose contract is trusted); data races on state outside the Mutex would not be seen", "full-width n with the default instantiation (20 constant dividers did not finish)"],
    ),
    "C16": dict(
        prefixes=["c16_"],
        pre=["display"],
        heavy=r"c16_parse\d*_(zeta|pi|golomb|exp_golomb|rice)$",
        level_text="Bounded model checking of Codes::{from_code_const,to_code_const,eq,from_str}: all identifiers 0..=50 and out-of-range ones; code->identifier->code gives identical codewords on a model stream with symbolic values; == holds exactly inside the classes of codes with identical codewords (symbolic variants and parameters over the full usize range) and the members of each class have identical codewords; FromStr parses the literal names, Name(k) for a grid of concrete k up to usize::MAX (quick) and for symbolic k of 1, 2, 3, 5 digits (every family) and 10 and 19 digits (Zeta) (thorough), and rejects malformed texts. Display is executed natively only (see outside_claim).",
        assumptions=[
            "Display is prefix + decimal(k) + suffix uniformly in k (core's integer formatting trusted); the printed templates are obtained by running the real Display natively on the current tree",
            "parameters 0..=12 concrete for identifier round trips; parse: concrete parameters 0, 7, 64, 255, 256, 300, 65536, 2^32, usize::MAX for every family (quick; text built from the Display template); symbolic decimal parameters of 1, 2, 3, 5 digits per family and of 10 and 19 digits for Zeta (thorough: 6..31 min and 7..10 GB per harness)",
            "core::slice::memchr::memchr (word-at-a-time search behind align_offset, which symbolic execution cannot resolve: a concrete 16-byte text ran > 600 s / 10 GB) is replaced by its definition, a linear search, in the FromStr harnesses; native replays run the real one",
            "anyhow / CodeError values are forgotten, message formatting stubbed",
        ],
        outside=COMMON_OUTSIDE + ["symbolic execution of core::fmt (Display)", "symbolic parameters with 4, 6..9, 11..18 or 20 digits on the parse side (the concrete grid and the neighbouring digit counts stand in for them); 20-digit texts that overflow usize"],
    ),
    "C19": dict(
        prefixes=["c19_", "c01_write_bits", "c01_write_unary", "c03_w_", "c08_copy", "c12_write"],
        builds={
            "quick": [("checks", ["checks"], None, r"^c19_|^c01_write_bits_(be_u8|le_u64|be_u128)|^c01_write_unary_le_u16|^c03_w_(gamma|gamma_tab|delta_tab|omega|pi|rice|expgolomb|minbin|vbytebe)_be|^c03_w_(zeta3_tab|omega|golomb)_le|^c08_copy_to_(be_u32|le_u64)|^c08_copy_from_(le_u16|be_u64)|^c12_write_(be_u16|le_u128)"),
                      ("no_copy_impls", ["no_copy_impls"], ["c08_"], r"^c08_copy_to_le_u16$|^c08_copy_from_le_u16$")],
            "thorough": [("checks", ["checks"]),
                         ("no_copy_impls", ["no_copy_impls"], ["c08_", "c01_write_bits"], r"^c08_|^c01_write_bits_(be_u64|le_u8)"),
                         ("checks+no_copy_impls", ["checks", "no_copy_impls"], ["c08_", "c19_"])],
        },
        level_text="Bounded model checking against the library BUILT WITH EACH FEATURE SET: the C01 write_bits, C03 code-writer (definition harnesses), C08 copy and C12 io::Write harness groups are re-run with features checks / no_copy_impls / both and compared to the same oracle as the default build (so every result is identical across builds, and every fixed-width write the library issues for in-domain code writes, bulk copies and byte writes passes the argument check: the model stream asserts cleanliness, the real writer asserts it itself); with checks, a write_bits whose argument has a bit set at or above the width always panics (should_panic harness whose reachability witness after the call must be unreachable). Debug assertions and overflow checks are on in every Kani run; the release profile differs only by removing them.",
        assumptions=[
            "dev profile with debug assertions and overflow checks (what Kani compiles); the optimised profile is covered by 'no check fires' + native replays in release",
            "clean arguments assumed for the re-run C01 harnesses under checks (dirty ones are the subject of c19_dirty_*)",
        ],
        outside=COMMON_OUTSIDE + ["rustc's optimiser (dev == release modulo removed checks is trusted)"],
    ),
    "C18": dict(
        prefixes=["c18_", "c03_w_vbyte", "c03_r_vbyte"],
        level_text="Bounded model checking of the byte-level VByte functions for every 64-bit value: vbyte_write_be/le produce exactly the bytes of the complete 7-bit-group definition, the same bytes as the bit-stream codes on a model stream of either endianness at byte-aligned positions, lengths equal byte_len_vbyte/bit_len_vbyte with steps at 2^7, 2^7+2^14, ...; the generic entry points select the named variant; vbyte_read_* inverts; completeness: every terminated byte string of 1..=10 bytes whose value fits in 64 bits decodes to that value and re-encodes to the same string.",
        assumptions=["array-backed std::io sink/source (infallible)"],
        outside=COMMON_OUTSIDE + ["byte strings longer than 10 bytes or overflowing 64 bits (behaviour unspecified by the property)"],
    ),
    "C20": dict(
        prefixes=["c20_"],
        level_text="Bounded model checking of the real length functions and of FindChangePoints::next: monotonicity len(n) <= len(n+1) for symbolic n and parameters; Kraft: 'length is constant on each piece' for symbolic n, then the exact Kraft sum over all pieces of the 64-bit domain with the library's own length at each piece start (2^-127 fixed point), periodic codes via the period lemma len(n+b)=len(n)+1 and the exact sum of the first period; change-point iterator: first item (0,f(0)), one next() from an arbitrary iterator state for a symbolic monotone step function returns exactly the next change point, and next() returns None without overflow when no further change point exists.",
        assumptions=[
            "Golomb: b <= 16 symbolic, n < 2^16 (quick) / b <= 64, n < 2^32 (thorough) for the monotone and period lemmas; Rice period lemma k <= 20, n < 2^40",
            "change-point exactness: quick: iterator right after its first item (current = 0), next change point < 2^8, second change point anywhere; states just above 2^62, around 2^63 and next to 2^64 with gaps < 64; thorough adds current < 2^16 (gap < 2^8), arbitrary 64-bit current (gap < 2^5) and current = 0 with gap < 2^12; larger gaps with a fully symbolic state did not finish in 90 min",
            "the geometric series over periods (Rice/Golomb/unary) is the textbook step, not discharged by the solver",
        ],
        outside=COMMON_OUTSIDE + ["get_implied_distribution / sampling (floating point)", "change points farther than the stated gap from the previous one"],
    ),
    "C17": dict(
        prefixes=["c17_"],
        level_text="Symbolic check over the whole input type of each width (8..128 bits, pointer size): to_nat/to_int are mutually inverse and follow the documented formula; loop-free, so the bound is the type width itself.",
        assumptions=["none beyond the type width: inputs range over the whole type"],
        outside=[],
    ),
}

# properties not claimed, with the reason (kept current)
NOT_APPLICABLE = {}
