"""Per-property metadata used by ./check: harness-name prefixes, feature builds, assumptions, outside-claim.
Harness declarations themselves (instantiation, bounds, unwind, stubs) live in harness/src/c*.rs and are parsed from there."""

COMMON_OUTSIDE = ["big-endian hosts", "target_arch=arm default table choices", "no_std builds"]

PROPS = {
    "C01": dict(
        prefixes=["c01_"],
        level_text="Bounded model checking of the real BufBitWriter code: one inductive step (write_bits / write_unary / flush / drop / into_inner) from an arbitrary representation-valid writer state with symbolic arguments, per (endianness, word) instantiation, against the canonical bit layout; a pass covers operation histories of any length for the listed instantiations within the stated argument bounds.",
        assumptions=[
            "write_bits: n <= 64 (documented precondition); v arbitrary incl. dirty high bits",
            "write_unary: x bounded per harness (x <= 3W); same loop beyond, more iterations",
            "writer pre-state: 1 <= space_left <= W, buffer bits arbitrary (representation invariant)",
            "recording backend Rec<W,12> is infallible (fallible backends: C11/C13)",
        ],
        outside=COMMON_OUTSIDE + ["write_unary beyond the stated run bound", "backend errors mid-operation"],
    ),
    "C17": dict(
        prefixes=["c17_"],
        level_text="Symbolic check over the whole input type of each width (8..128 bits, pointer size): to_nat/to_int are mutually inverse and follow the documented formula; loop-free, so the bound is the type width itself.",
        assumptions=["none beyond the type width: inputs range over the whole type"],
        outside=[],
    ),
}

# properties not claimed, with the reason (kept current)
NOT_APPLICABLE = {}
