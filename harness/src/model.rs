//! Shared modelling (DESIGN §2): canonical bit layout, word abstraction,
//! recording backend.

use crate::src::Src;
use core::convert::Infallible;
use dsi_bitstream::prelude::*;

/// Endianness as a value, so that the oracle is written once.
pub trait En: Endianness {
    const BE: bool;
}
impl En for BE {
    const BE: bool = true;
}
impl En for LE {
    const BE: bool = false;
}

/// A backend word type seen by the harnesses through `u128`.
pub trait VW: Word + Copy + PartialEq + core::fmt::Debug {
    const NBITS: usize;
    fn any<S: Src>(s: &mut S) -> Self;
    fn to_u128(self) -> u128;
    fn from_u128(v: u128) -> Self;
}

macro_rules! impl_vw {
    ($t:ty, $m:ident) => {
        impl VW for $t {
            const NBITS: usize = <$t>::BITS as usize;
            #[inline(always)]
            fn any<S: Src>(s: &mut S) -> Self {
                s.$m()
            }
            #[inline(always)]
            fn to_u128(self) -> u128 {
                self as u128
            }
            #[inline(always)]
            fn from_u128(v: u128) -> Self {
                v as $t
            }
        }
    };
}
impl_vw!(u8, u8);
impl_vw!(u16, u16);
impl_vw!(u32, u32);
impl_vw!(u64, u64);
impl_vw!(u128, u128);

/// THE canonical layout (src/traits/mod.rs, property C01): stream bit `j`
/// (0 <= j < W) of a word whose *memory image* is the native bytes of `w` on a
/// little-endian host lives in byte j/8, at bit 7-(j%8) (BE) or j%8 (LE).
/// Byte k of the memory image is `(w >> 8k) & 0xff`.
#[inline(always)]
pub fn img_bit_of_word<E: En>(w: u128, j: usize) -> bool {
    let byte = j / 8;
    let bit = if E::BE { 7 - (j % 8) } else { j % 8 };
    (w >> (8 * byte + bit)) & 1 == 1
}

/// Stream bit `i` of a sequence of words (memory image = concatenation).
#[inline(always)]
pub fn img_bit<E: En, W: VW>(words: &[W], i: usize) -> bool {
    img_bit_of_word::<E>(words[i / W::NBITS].to_u128(), i % W::NBITS)
}

/// Bit `j` (stream order) of an `n`-bit field holding the `n` low bits of `v`:
/// most significant first in BE, least significant first in LE.
#[inline(always)]
pub fn field_bit<E: En>(v: u64, n: usize, j: usize) -> bool {
    let pos = if E::BE { n - 1 - j } else { j };
    (v >> pos) & 1 == 1
}

/// Recording word backend: fixed array, count, flush counter. Infallible.
#[derive(Clone, Debug)]
pub struct Rec<W: VW, const N: usize> {
    pub words: [W; N],
    pub n: usize,
    pub flushes: usize,
}

impl<W: VW, const N: usize> Rec<W, N> {
    pub fn new() -> Self {
        Self {
            words: [W::ZERO; N],
            n: 0,
            flushes: 0,
        }
    }
}

impl<W: VW, const N: usize> WordWrite for Rec<W, N> {
    type Error = Infallible;
    type Word = W;
    #[inline(always)]
    fn write_word(&mut self, word: W) -> Result<(), Infallible> {
        assert!(self.n < N, "Rec backend capacity exceeded (harness bound too small)");
        self.words[self.n] = word;
        self.n += 1;
        Ok(())
    }
    #[inline(always)]
    fn flush(&mut self) -> Result<(), Infallible> {
        self.flushes += 1;
        Ok(())
    }
}

/// Abstract view of a writer state `(buffer, space_left)`: pending bit `j`
/// (0 <= j < f = W - space_left) in stream order.
#[inline(always)]
pub fn pending_bit<E: En, W: VW>(buffer: W, space_left: usize, j: usize) -> bool {
    let f = W::NBITS - space_left;
    let pos = if E::BE { f - 1 - j } else { W::NBITS - f + j };
    (buffer.to_u128() >> pos) & 1 == 1
}
