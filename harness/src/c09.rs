//! C09 — end of stream: data is never fabricated and the tail is never lost.
//! Strict backend `MemWordReader::new_strict(&data[..len])` with symbolic length (the stream
//! truncated after every backend word), arbitrary `Inv_r` reader state. `avail` = buffered
//! bits + bits left in the backend. For every operation: it needs `c` bits (computed on the
//! canonical model / by a zero-extended twin reader over the same data);
//!   c <= avail  =>  Ok with the model's value (tail never lost, including codes decoded
//!                   through look-ahead tables that peek past the end);
//!   c >  avail  =>  Err (nothing fabricated).

use crate::c02::*;
use crate::c13::*;
use crate::model::*;
use crate::ms::*;
use crate::src::Src;
use common_traits::DoubleType;
use core::convert::Infallible;
use dsi_bitstream::prelude::*;

pub type RdStrict<'a, E, W> = BufBitReader<E, MemWordReader<W, &'a [W], false>>;
pub type RdZext<'a, E, W> = BufBitReader<E, MemWordReader<W, &'a [W], true>>;

pub const OP_READ_BITS: u8 = 0;
pub const OP_READ_UNARY: u8 = 1;
pub const OP_PEEK: u8 = 2;
pub const OP_SKIP: u8 = 3;
pub const OP_GAMMA_T: u8 = 4;
pub const OP_DELTA_TT: u8 = 5;
pub const OP_ZETA3_T: u8 = 6;
pub const OP_OMEGA: u8 = 7;
pub const OP_GAMMA: u8 = 8;
pub const OP_VBYTE: u8 = 9;

#[inline(always)]
fn okv<T>(r: Result<T, std::io::Error>) -> Option<T> {
    match r {
        Ok(v) => Some(v),
        Err(e) => {
            core::mem::forget(e);
            None
        }
    }
}

macro_rules! c09_bodies {
    ($e:ty, $step:ident) => {
        pub fn $step<W: VW + DoubleType, S: Src, const K: usize, const OP: u8>(s: &mut S)
        where
            Bb<W>: VW,
            for<'a> RdStrict<'a, $e, W>: BitRead<$e, Error = std::io::Error, PeekWord = Bb<W>>,
            for<'a> RdZext<'a, $e, W>: BitRead<$e, Error = Infallible, PeekWord = Bb<W>> + BitSeek<Error = Infallible>,
        {
            // data, truncated after `len` words; reader state as in C02 but with pos <= len
            let data = any_array::<W, S, K>(s);
            let len = s.usize_in(0, K);
            let pos = s.usize_in(0, len);
            let n = s.usize_in(0, 2 * W::NBITS - 1);
            let buffer = <Bb<W> as VW>::any(s);
            s.assume(window_clean::<$e, W>(buffer, n));
            s.assume(pos * W::NBITS >= n);
            let avail = n + (len - pos) * W::NBITS;
            // the abstract stream: buffered bits, then data[pos..len], then nothing
            let stream_bit = |j: usize| -> bool {
                if j < n {
                    let p = if <$e as En>::BE { 2 * W::NBITS - 1 - j } else { j };
                    (buffer.to_u128() >> p) & 1 == 1
                } else {
                    let a = pos * W::NBITS + (j - n);
                    if a / W::NBITS < len {
                        img_bit::<$e, W>(&data, a)
                    } else {
                        false
                    }
                }
            };
            let m = s.usize_in(0, 64);
            let j = s.usize();
            let mut sb = MemWordReader::new_strict(&data[..len]);
            assert!(okv(sb.set_word_pos(pos as u64)).is_some());
            let mut r: RdStrict<'_, $e, W> = BufBitReader::<$e, _>::verif_from_parts(sb, buffer, n);
            // zero-extended twin (oracle for the code reads)
            let mut zb = MemWordReader::new(&data[..len]);
            zb.set_word_pos(pos as u64).unwrap();
            let mut z: RdZext<'_, $e, W> = BufBitReader::<$e, _>::verif_from_parts(zb, buffer, n);
            let p0 = z.bit_pos().unwrap();
            match OP {
                OP_READ_BITS => {
                    s.assume(m == 0 || j < m);
                    let got = okv(r.read_bits(m));
                    if m <= avail {
                        assert!(got.is_some(), "read of bits lying entirely within the data failed");
                        if m > 0 {
                            assert_eq!(field_bit::<$e>(got.unwrap(), m, j), stream_bit(j), "read_bits value differs from the stream");
                        }
                    } else {
                        assert!(got.is_none(), "read_bits returned a value needing bits beyond the end of a strict stream");
                    }
                    crate::cover!(s, m > 0 && m == avail, "read ending exactly at the end of data");
                    crate::cover!(s, m > avail, "read beyond the end");
                }
                OP_READ_UNARY => {
                    // first one (if any) inside the available bits
                    let zpos = s.usize_in(0, 3 * W::NBITS + 2 * W::NBITS);
                    let found = s.bool();
                    if found {
                        s.assume(zpos < avail && stream_bit(zpos));
                        // no earlier one: expressed through the twin, which reads the same bits
                        let zv = z.read_unary().unwrap();
                        s.assume(zv as usize == zpos);
                        let got = okv(r.read_unary());
                        assert!(got == Some(zpos as u64), "unary code lying entirely within the data not decoded");
                    } else {
                        // all available bits are zero: the twin would run into the zero extension
                        s.assume(n == 0 || buffer.to_u128() == 0);
                        s.assume(len - pos < 1 || data[pos] == W::ZERO);
                        s.assume(len - pos < 2 || data[pos + 1] == W::ZERO);
                        s.assume(len - pos <= 2);
                        let got = okv(r.read_unary());
                        assert!(got.is_none(), "read_unary fabricated a terminating one beyond the end of a strict stream");
                    }
                    crate::cover!(s, found && zpos + 1 == avail, "unary code ending exactly at the end of data");
                    crate::cover!(s, !found && avail > 0, "zeros up to the end");
                }
                OP_PEEK => {
                    let mm = 1 + m % W::NBITS;
                    s.assume(j < mm);
                    let got = okv(r.peek_bits(mm));
                    if mm <= avail {
                        assert!(got.is_some(), "peek of bits lying entirely within the data failed");
                        let v = got.unwrap().to_u128();
                        let fb = (v >> (if <$e as En>::BE { mm - 1 - j } else { j })) & 1 == 1;
                        assert_eq!(fb, stream_bit(j), "peek_bits value differs from the stream");
                    } else {
                        assert!(got.is_none(), "peek_bits returned a value needing bits beyond the end of a strict stream");
                    }
                    crate::cover!(s, mm == avail, "peek ending exactly at the end of data");
                    crate::cover!(s, mm > avail, "peek beyond the end");
                }
                OP_SKIP => {
                    let got = okv(r.skip_bits(m));
                    if m <= avail {
                        assert!(got.is_some(), "skip inside the data failed");
                    }
                    crate::cover!(s, m > 0 && m == avail, "skip to the end of data");
                }
                _ => {
                    // code reads: the zero-extended twin decodes (value v0, c0 bits consumed)
                    let zm = if OP == OP_DELTA_TT { 5 } else if OP == OP_ZETA3_T { 10 } else { 12 };
                    let zz = s.usize_in(0, zm);
                    if OP == OP_OMEGA {
                        // the stream holds the omega code of a value < 16 (at most two blocks):
                        // "0", or "1x 0", or "1x 1.. 0" with a second block of (2+x)+1 bits
                        let n1 = 2 + stream_bit(1) as usize;
                        s.assume(!stream_bit(0) || !stream_bit(2) || !stream_bit(3 + n1));
                    } else if OP == OP_VBYTE {
                        // one of the first three bytes is a final byte (continuation bit clear)
                        let bi = s.usize_in(0, 2);
                        s.assume(!stream_bit(8 * bi + if <$e as En>::BE { 0 } else { 7 }));
                    } else {
                        s.assume(stream_bit(zz));
                    }
                    let (v0, got) = match OP {
                        OP_GAMMA_T => (z.read_gamma_param::<false>().unwrap(), okv(r.read_gamma_param::<true>())),
                        OP_DELTA_TT => (z.read_delta_param::<false, false>().unwrap(), okv(r.read_delta_param::<true, true>())),
                        OP_ZETA3_T => (z.read_zeta_param(3).unwrap(), okv(r.read_zeta3_param::<true>())),
                        OP_GAMMA => (z.read_gamma_param::<false>().unwrap(), okv(r.read_gamma_param::<false>())),
                        OP_VBYTE => (z.read_vbyte_le().unwrap(), okv(r.read_vbyte_le())),
                        _ => (z.read_omega().unwrap(), okv(r.read_omega())),
                    };
                    let c0 = (z.bit_pos().unwrap() - p0) as usize;
                    if c0 <= avail {
                        assert!(got == Some(v0), "code lying entirely within the data not decoded (tail lost)");
                    } else {
                        assert!(got.is_none(), "code read returned a value needing bits beyond the end of a strict stream");
                    }
                    crate::cover!(s, c0 == avail && c0 > 0, "code ending exactly at the end of data");
                    crate::cover!(s, c0 > avail, "code running past the end");
                    crate::cover!(s, c0 + 3 < avail, "code well inside the data");
                }
            }
            core::mem::forget(r);
        }
    };
}
c09_bodies!(BE, strict_step_be);
c09_bodies!(LE, strict_step_le);

// ---------------------------------------------------------------- bulk copy near the end of a strict stream
// The real strict MemWordReader builds (and drops) an io::Error on every read_word, which makes copy_to over it
// intractable (no verdict in 600 s for 3 words); the end-of-stream behaviour of BufBitReader::copy_to does not
// depend on which backend reports the end, so this step uses a strict word source of the harness with a
// zero-sized error.

#[derive(Debug, Clone, Copy, PartialEq, Eq)]
pub struct Eos;
impl core::fmt::Display for Eos {
    fn fmt(&self, f: &mut core::fmt::Formatter<'_>) -> core::fmt::Result {
        f.write_str("end of stream")
    }
}
impl std::error::Error for Eos {}

/// the first `len` words of `data`, then end of stream
pub struct StrictArr<W: VW, const K: usize> {
    pub data: [W; K],
    pub len: usize,
    pub pos: usize,
}
impl<W: VW, const K: usize> WordRead for StrictArr<W, K> {
    type Error = Eos;
    type Word = W;
    #[inline(always)]
    fn read_word(&mut self) -> Result<W, Eos> {
        if self.pos < self.len {
            let w = self.data[self.pos];
            self.pos += 1;
            Ok(w)
        } else {
            Err(Eos)
        }
    }
}

macro_rules! c09_copy_bodies {
    ($e:ty, $step:ident) => {
        pub fn $step<W: VW + DoubleType, S: Src, const K: usize, const NMAX: usize>(s: &mut S)
        where
            Bb<W>: VW,
            BufBitReader<$e, StrictArr<W, K>>: BitRead<$e, Error = Eos, PeekWord = Bb<W>>,
        {
            let data = any_array::<W, S, K>(s);
            let len = s.usize_in(0, K);
            let pos = s.usize_in(0, len);
            let n = s.usize_in(0, 2 * W::NBITS - 1);
            let buffer = <Bb<W> as VW>::any(s);
            s.assume(window_clean::<$e, W>(buffer, n));
            s.assume(pos * W::NBITS >= n);
            let avail = n + (len - pos) * W::NBITS;
            let stream_bit = |j: usize| -> bool {
                if j < n {
                    let p = if <$e as En>::BE { 2 * W::NBITS - 1 - j } else { j };
                    (buffer.to_u128() >> p) & 1 == 1
                } else {
                    let a = pos * W::NBITS + (j - n);
                    if a / W::NBITS < len {
                        img_bit::<$e, W>(&data, a)
                    } else {
                        false
                    }
                }
            };
            let cn = s.usize_in(0, NMAX);
            let j = s.usize();
            s.assume(cn == 0 || j < cn);
            let mut r = BufBitReader::<$e, _>::verif_from_parts(StrictArr::<W, K> { data, len, pos }, buffer, n);
            let mut ms = MS::<$e, false>::new();
            let got = match r.copy_to(&mut ms, cn as u64) {
                Ok(()) => true,
                Err(e) => {
                    core::mem::forget(e);
                    false
                }
            };
            if cn <= avail {
                assert!(got, "copy_to of bits lying entirely within the data failed (end of stream reported early)");
                assert_eq!(ms.wlen, cn, "destination received exactly n bits");
                if cn > 0 {
                    assert_eq!(ms.bit(j), stream_bit(j), "copied bit differs from the source stream");
                }
                let (_b2, n2) = r.verif_parts();
                let pos2 = r.verif_backend().pos;
                assert_eq!(pos2 * W::NBITS - n2, pos * W::NBITS - n + cn, "source advanced by exactly n bits");
            } else {
                assert!(!got, "copy_to returned Ok although it needs bits beyond the end of a strict stream");
            }
            crate::cover!(s, cn > 0 && cn == avail, "copy ending exactly at the end of data");
            crate::cover!(s, cn > avail, "copy beyond the end");
            crate::cover!(s, cn > n + W::NBITS && cn <= avail, "copy crossing whole words");
            core::mem::forget(r);
        }
    };
}
c09_copy_bodies!(BE, strict_copy_be);
c09_copy_bodies!(LE, strict_copy_le);

// ---------------------------------------------------------------- unbuffered reader over a strict backend

pub type UbStrict<'a, E> = BitReader<E, MemWordReader<u64, &'a [u64], false>>;
pub type UbZext<'a, E> = BitReader<E, MemWordReader<u64, &'a [u64], true>>;

macro_rules! c09_ub_bodies {
    ($e:ty, $step:ident) => {
        pub fn $step<S: Src, const K: usize, const OP: u8>(s: &mut S)
        where
            for<'a> UbStrict<'a, $e>: BitRead<$e, Error = std::io::Error, PeekWord = u32>,
            for<'a> UbZext<'a, $e>: BitRead<$e, Error = Infallible, PeekWord = u32> + BitSeek<Error = Infallible>,
        {
            let data = any_array::<u64, S, K>(s);
            let len = s.usize_in(0, K);
            let p = s.usize_in(0, len * 64);
            let avail = len * 64 - p;
            let stream_bit = |j: usize| -> bool {
                let a = p + j;
                if a / 64 < len {
                    img_bit::<$e, u64>(&data, a)
                } else {
                    false
                }
            };
            let m = s.usize_in(0, 64);
            let j = s.usize();
            let mut r: UbStrict<'_, $e> = BitReader::<$e, _>::new(MemWordReader::new_strict(&data[..len]));
            r.set_bit_pos(p as u64).unwrap();
            let mut z: UbZext<'_, $e> = BitReader::<$e, _>::new(MemWordReader::new(&data[..len]));
            z.set_bit_pos(p as u64).unwrap();
            match OP {
                OP_READ_BITS => {
                    s.assume(m == 0 || j < m);
                    let got = okv(r.read_bits(m));
                    if m <= avail {
                        assert!(got.is_some(), "read of bits lying entirely within the data failed");
                        if m > 0 {
                            assert_eq!(field_bit::<$e>(got.unwrap(), m, j), stream_bit(j), "read_bits value differs from the stream");
                        }
                    } else {
                        assert!(got.is_none(), "read_bits returned a value needing bits beyond the end of a strict stream");
                    }
                    crate::cover!(s, m > 0 && m == avail, "read ending exactly at the end of data");
                    crate::cover!(s, m > avail, "read beyond the end");
                }
                OP_PEEK => {
                    let mm = 1 + m % 32;
                    s.assume(j < mm);
                    let got = okv(r.peek_bits(mm));
                    if mm <= avail {
                        assert!(got.is_some(), "peek of bits lying entirely within the data failed");
                        let v = got.unwrap() as u64;
                        assert_eq!(field_bit::<$e>(v, mm, j), stream_bit(j), "peek_bits value differs from the stream");
                    } else {
                        assert!(got.is_none(), "peek_bits returned a value needing bits beyond the end of a strict stream");
                    }
                    crate::cover!(s, mm == avail, "peek ending exactly at the end of data");
                    crate::cover!(s, mm > avail && avail > 0, "peek crossing the end");
                }
                OP_READ_UNARY => {
                    let found = s.bool();
                    if found {
                        let zpos = s.usize_in(0, 3 * 64);
                        s.assume(zpos < avail && stream_bit(zpos));
                        let zv = z.read_unary().unwrap();
                        s.assume(zv as usize == zpos);
                        let got = okv(r.read_unary());
                        assert!(got == Some(zpos as u64), "unary code lying entirely within the data not decoded");
                        crate::cover!(s, zpos + 1 == avail, "unary code ending exactly at the end of data");
                    } else {
                        // every available bit is zero
                        s.assume(avail <= 128);
                        let w0 = p / 64;
                        let o0 = p % 64;
                        let mask0 = if <$e as En>::BE { u64::MAX >> o0 } else { u64::MAX << o0 };
                        let sv = |w: u64| if <$e as En>::BE { w.swap_bytes() } else { w };
                        s.assume(w0 >= len || (sv(data[w0]) & mask0) == 0 || false);
                        s.assume(w0 + 1 >= len || data[w0 + 1] == 0);
                        s.assume(w0 + 2 >= len || data[w0 + 2] == 0);
                        let got = okv(r.read_unary());
                        assert!(got.is_none(), "read_unary fabricated a terminating one beyond the end of a strict stream");
                        crate::cover!(s, avail > 0, "zeros up to the end");
                    }
                }
                _ => {
                    let zm = if OP == OP_DELTA_TT { 5 } else if OP == OP_ZETA3_T { 10 } else { 12 };
                    let zz = s.usize_in(0, zm);
                    if OP == OP_OMEGA {
                        let n1 = 2 + stream_bit(1) as usize;
                        s.assume(!stream_bit(0) || !stream_bit(2) || !stream_bit(3 + n1));
                    } else {
                        s.assume(stream_bit(zz));
                    }
                    let (v0, got) = match OP {
                        OP_GAMMA_T => (z.read_gamma_param::<false>().unwrap(), okv(r.read_gamma_param::<true>())),
                        OP_DELTA_TT => (z.read_delta_param::<false, false>().unwrap(), okv(r.read_delta_param::<true, true>())),
                        OP_ZETA3_T => (z.read_zeta_param(3).unwrap(), okv(r.read_zeta3_param::<true>())),
                        OP_GAMMA => (z.read_gamma_param::<false>().unwrap(), okv(r.read_gamma_param::<false>())),
                        _ => (z.read_omega().unwrap(), okv(r.read_omega())),
                    };
                    let c0 = (z.bit_pos().unwrap() - p as u64) as usize;
                    if c0 <= avail {
                        assert!(got == Some(v0), "code lying entirely within the data not decoded (tail lost)");
                    } else {
                        assert!(got.is_none(), "code read returned a value needing bits beyond the end of a strict stream");
                    }
                    crate::cover!(s, c0 == avail && c0 > 0, "code ending exactly at the end of data");
                    crate::cover!(s, c0 > avail, "code running past the end");
                }
            }
            core::mem::forget(r);
        }
    };
}
c09_ub_bodies!(BE, ub_strict_step_be);
c09_ub_bodies!(LE, ub_strict_step_le);

crate::harnesses! {
    #[kani::unwind(14)]
    c09_copy_u8_be (thorough, "BufBitReader<BE, strict word source of the harness over u8>, K=12", "data truncated after any number of words 0..=K, any Inv_r state; copy_to(n <= 80) into a model stream: Ok with exactly the stream's bits and an advance of n iff n bits lie within the data, an error otherwise") => strict_copy_be::<u8, _, 12, 80>;
    #[kani::unwind(10)]
    c09_copy_u16_be (quick, "BufBitReader<BE, strict word source of the harness over u16>, K=8", "data truncated after any number of words 0..=K, any Inv_r state; copy_to(n <= 96) into a model stream: Ok with exactly the stream's bits and an advance of n iff n bits lie within the data, an error otherwise") => strict_copy_be::<u16, _, 8, 96>;
    #[kani::unwind(7)]
    c09_copy_u32_be (thorough, "BufBitReader<BE, strict word source of the harness over u32>, K=5", "data truncated after any number of words 0..=K, any Inv_r state; copy_to(n <= 128) into a model stream: Ok with exactly the stream's bits and an advance of n iff n bits lie within the data, an error otherwise") => strict_copy_be::<u32, _, 5, 128>;
    #[kani::unwind(6)]
    c09_copy_u64_be (thorough, "BufBitReader<BE, strict word source of the harness over u64>, K=4", "data truncated after any number of words 0..=K, any Inv_r state; copy_to(n <= 192) into a model stream: Ok with exactly the stream's bits and an advance of n iff n bits lie within the data, an error otherwise") => strict_copy_be::<u64, _, 4, 192>;
    #[kani::unwind(14)]
    c09_copy_u8_le (thorough, "BufBitReader<LE, strict word source of the harness over u8>, K=12", "data truncated after any number of words 0..=K, any Inv_r state; copy_to(n <= 80) into a model stream: Ok with exactly the stream's bits and an advance of n iff n bits lie within the data, an error otherwise") => strict_copy_le::<u8, _, 12, 80>;
    #[kani::unwind(10)]
    c09_copy_u16_le (thorough, "BufBitReader<LE, strict word source of the harness over u16>, K=8", "data truncated after any number of words 0..=K, any Inv_r state; copy_to(n <= 96) into a model stream: Ok with exactly the stream's bits and an advance of n iff n bits lie within the data, an error otherwise") => strict_copy_le::<u16, _, 8, 96>;
    #[kani::unwind(7)]
    c09_copy_u32_le (quick, "BufBitReader<LE, strict word source of the harness over u32>, K=5", "data truncated after any number of words 0..=K, any Inv_r state; copy_to(n <= 128) into a model stream: Ok with exactly the stream's bits and an advance of n iff n bits lie within the data, an error otherwise") => strict_copy_le::<u32, _, 5, 128>;
    #[kani::unwind(6)]
    c09_copy_u64_le (quick, "BufBitReader<LE, strict word source of the harness over u64>, K=4", "data truncated after any number of words 0..=K, any Inv_r state; copy_to(n <= 192) into a model stream: Ok with exactly the stream's bits and an advance of n iff n bits lie within the data, an error otherwise") => strict_copy_le::<u64, _, 4, 192>;
    #[kani::stub(alloc::fmt::format, stub_format)]
    #[kani::stub(std::string::ToString::to_string, stub_to_string)]
    #[kani::unwind(14)]
    c09_read_bits_u8_be (thorough, "BufBitReader<BE, strict MemWordReader<u8>>, K=10", "data truncated after any number of words 0..=K, any Inv_r state; op read_bits: Ok with the right value iff the bits it needs lie within the data") => strict_step_be::<u8, _, 10, {OP_READ_BITS}>;
    #[kani::stub(alloc::fmt::format, stub_format)]
    #[kani::stub(std::string::ToString::to_string, stub_to_string)]
    #[kani::unwind(14)]
    c09_read_bits_u8_le (thorough, "BufBitReader<LE, strict MemWordReader<u8>>, K=10", "data truncated after any number of words 0..=K, any Inv_r state; op read_bits: Ok with the right value iff the bits it needs lie within the data") => strict_step_le::<u8, _, 10, {OP_READ_BITS}>;
    #[kani::stub(alloc::fmt::format, stub_format)]
    #[kani::stub(std::string::ToString::to_string, stub_to_string)]
    #[kani::unwind(10)]
    c09_read_bits_u16_be (quick, "BufBitReader<BE, strict MemWordReader<u16>>, K=6", "data truncated after any number of words 0..=K, any Inv_r state; op read_bits: Ok with the right value iff the bits it needs lie within the data") => strict_step_be::<u16, _, 6, {OP_READ_BITS}>;
    #[kani::stub(alloc::fmt::format, stub_format)]
    #[kani::stub(std::string::ToString::to_string, stub_to_string)]
    #[kani::unwind(10)]
    c09_read_bits_u16_le (thorough, "BufBitReader<LE, strict MemWordReader<u16>>, K=6", "data truncated after any number of words 0..=K, any Inv_r state; op read_bits: Ok with the right value iff the bits it needs lie within the data") => strict_step_le::<u16, _, 6, {OP_READ_BITS}>;
    #[kani::stub(alloc::fmt::format, stub_format)]
    #[kani::stub(std::string::ToString::to_string, stub_to_string)]
    #[kani::unwind(8)]
    c09_read_bits_u32_be (thorough, "BufBitReader<BE, strict MemWordReader<u32>>, K=4", "data truncated after any number of words 0..=K, any Inv_r state; op read_bits: Ok with the right value iff the bits it needs lie within the data") => strict_step_be::<u32, _, 4, {OP_READ_BITS}>;
    #[kani::stub(alloc::fmt::format, stub_format)]
    #[kani::stub(std::string::ToString::to_string, stub_to_string)]
    #[kani::unwind(8)]
    c09_read_bits_u32_le (quick, "BufBitReader<LE, strict MemWordReader<u32>>, K=4", "data truncated after any number of words 0..=K, any Inv_r state; op read_bits: Ok with the right value iff the bits it needs lie within the data") => strict_step_le::<u32, _, 4, {OP_READ_BITS}>;
    #[kani::stub(alloc::fmt::format, stub_format)]
    #[kani::stub(std::string::ToString::to_string, stub_to_string)]
    #[kani::unwind(7)]
    c09_read_bits_u64_be (thorough, "BufBitReader<BE, strict MemWordReader<u64>>, K=3", "data truncated after any number of words 0..=K, any Inv_r state; op read_bits: Ok with the right value iff the bits it needs lie within the data") => strict_step_be::<u64, _, 3, {OP_READ_BITS}>;
    #[kani::stub(alloc::fmt::format, stub_format)]
    #[kani::stub(std::string::ToString::to_string, stub_to_string)]
    #[kani::unwind(7)]
    c09_read_bits_u64_le (thorough, "BufBitReader<LE, strict MemWordReader<u64>>, K=3", "data truncated after any number of words 0..=K, any Inv_r state; op read_bits: Ok with the right value iff the bits it needs lie within the data") => strict_step_le::<u64, _, 3, {OP_READ_BITS}>;
    #[kani::stub(alloc::fmt::format, stub_format)]
    #[kani::stub(std::string::ToString::to_string, stub_to_string)]
    #[kani::unwind(14)]
    c09_read_unary_u8_be (thorough, "BufBitReader<BE, strict MemWordReader<u8>>, K=10", "data truncated after any number of words 0..=K, any Inv_r state; op read_unary: Ok with the right value iff the bits it needs lie within the data") => strict_step_be::<u8, _, 10, {OP_READ_UNARY}>;
    #[kani::stub(alloc::fmt::format, stub_format)]
    #[kani::stub(std::string::ToString::to_string, stub_to_string)]
    #[kani::unwind(14)]
    c09_read_unary_u8_le (thorough, "BufBitReader<LE, strict MemWordReader<u8>>, K=10", "data truncated after any number of words 0..=K, any Inv_r state; op read_unary: Ok with the right value iff the bits it needs lie within the data") => strict_step_le::<u8, _, 10, {OP_READ_UNARY}>;
    #[kani::stub(alloc::fmt::format, stub_format)]
    #[kani::stub(std::string::ToString::to_string, stub_to_string)]
    #[kani::unwind(10)]
    c09_read_unary_u16_be (quick, "BufBitReader<BE, strict MemWordReader<u16>>, K=6", "data truncated after any number of words 0..=K, any Inv_r state; op read_unary: Ok with the right value iff the bits it needs lie within the data") => strict_step_be::<u16, _, 6, {OP_READ_UNARY}>;
    #[kani::stub(alloc::fmt::format, stub_format)]
    #[kani::stub(std::string::ToString::to_string, stub_to_string)]
    #[kani::unwind(10)]
    c09_read_unary_u16_le (thorough, "BufBitReader<LE, strict MemWordReader<u16>>, K=6", "data truncated after any number of words 0..=K, any Inv_r state; op read_unary: Ok with the right value iff the bits it needs lie within the data") => strict_step_le::<u16, _, 6, {OP_READ_UNARY}>;
    #[kani::stub(alloc::fmt::format, stub_format)]
    #[kani::stub(std::string::ToString::to_string, stub_to_string)]
    #[kani::unwind(8)]
    c09_read_unary_u32_be (thorough, "BufBitReader<BE, strict MemWordReader<u32>>, K=4", "data truncated after any number of words 0..=K, any Inv_r state; op read_unary: Ok with the right value iff the bits it needs lie within the data") => strict_step_be::<u32, _, 4, {OP_READ_UNARY}>;
    #[kani::stub(alloc::fmt::format, stub_format)]
    #[kani::stub(std::string::ToString::to_string, stub_to_string)]
    #[kani::unwind(8)]
    c09_read_unary_u32_le (quick, "BufBitReader<LE, strict MemWordReader<u32>>, K=4", "data truncated after any number of words 0..=K, any Inv_r state; op read_unary: Ok with the right value iff the bits it needs lie within the data") => strict_step_le::<u32, _, 4, {OP_READ_UNARY}>;
    #[kani::stub(alloc::fmt::format, stub_format)]
    #[kani::stub(std::string::ToString::to_string, stub_to_string)]
    #[kani::unwind(7)]
    c09_read_unary_u64_be (thorough, "BufBitReader<BE, strict MemWordReader<u64>>, K=3", "data truncated after any number of words 0..=K, any Inv_r state; op read_unary: Ok with the right value iff the bits it needs lie within the data") => strict_step_be::<u64, _, 3, {OP_READ_UNARY}>;
    #[kani::stub(alloc::fmt::format, stub_format)]
    #[kani::stub(std::string::ToString::to_string, stub_to_string)]
    #[kani::unwind(7)]
    c09_read_unary_u64_le (thorough, "BufBitReader<LE, strict MemWordReader<u64>>, K=3", "data truncated after any number of words 0..=K, any Inv_r state; op read_unary: Ok with the right value iff the bits it needs lie within the data") => strict_step_le::<u64, _, 3, {OP_READ_UNARY}>;
    #[kani::stub(alloc::fmt::format, stub_format)]
    #[kani::stub(std::string::ToString::to_string, stub_to_string)]
    #[kani::unwind(14)]
    c09_peek_u8_be (thorough, "BufBitReader<BE, strict MemWordReader<u8>>, K=10", "data truncated after any number of words 0..=K, any Inv_r state; op peek: Ok with the right value iff the bits it needs lie within the data") => strict_step_be::<u8, _, 10, {OP_PEEK}>;
    #[kani::stub(alloc::fmt::format, stub_format)]
    #[kani::stub(std::string::ToString::to_string, stub_to_string)]
    #[kani::unwind(14)]
    c09_peek_u8_le (thorough, "BufBitReader<LE, strict MemWordReader<u8>>, K=10", "data truncated after any number of words 0..=K, any Inv_r state; op peek: Ok with the right value iff the bits it needs lie within the data") => strict_step_le::<u8, _, 10, {OP_PEEK}>;
    #[kani::stub(alloc::fmt::format, stub_format)]
    #[kani::stub(std::string::ToString::to_string, stub_to_string)]
    #[kani::unwind(10)]
    c09_peek_u16_be (quick, "BufBitReader<BE, strict MemWordReader<u16>>, K=6", "data truncated after any number of words 0..=K, any Inv_r state; op peek: Ok with the right value iff the bits it needs lie within the data") => strict_step_be::<u16, _, 6, {OP_PEEK}>;
    #[kani::stub(alloc::fmt::format, stub_format)]
    #[kani::stub(std::string::ToString::to_string, stub_to_string)]
    #[kani::unwind(10)]
    c09_peek_u16_le (thorough, "BufBitReader<LE, strict MemWordReader<u16>>, K=6", "data truncated after any number of words 0..=K, any Inv_r state; op peek: Ok with the right value iff the bits it needs lie within the data") => strict_step_le::<u16, _, 6, {OP_PEEK}>;
    #[kani::stub(alloc::fmt::format, stub_format)]
    #[kani::stub(std::string::ToString::to_string, stub_to_string)]
    #[kani::unwind(8)]
    c09_peek_u32_be (thorough, "BufBitReader<BE, strict MemWordReader<u32>>, K=4", "data truncated after any number of words 0..=K, any Inv_r state; op peek: Ok with the right value iff the bits it needs lie within the data") => strict_step_be::<u32, _, 4, {OP_PEEK}>;
    #[kani::stub(alloc::fmt::format, stub_format)]
    #[kani::stub(std::string::ToString::to_string, stub_to_string)]
    #[kani::unwind(8)]
    c09_peek_u32_le (quick, "BufBitReader<LE, strict MemWordReader<u32>>, K=4", "data truncated after any number of words 0..=K, any Inv_r state; op peek: Ok with the right value iff the bits it needs lie within the data") => strict_step_le::<u32, _, 4, {OP_PEEK}>;
    #[kani::stub(alloc::fmt::format, stub_format)]
    #[kani::stub(std::string::ToString::to_string, stub_to_string)]
    #[kani::unwind(7)]
    c09_peek_u64_be (thorough, "BufBitReader<BE, strict MemWordReader<u64>>, K=3", "data truncated after any number of words 0..=K, any Inv_r state; op peek: Ok with the right value iff the bits it needs lie within the data") => strict_step_be::<u64, _, 3, {OP_PEEK}>;
    #[kani::stub(alloc::fmt::format, stub_format)]
    #[kani::stub(std::string::ToString::to_string, stub_to_string)]
    #[kani::unwind(7)]
    c09_peek_u64_le (thorough, "BufBitReader<LE, strict MemWordReader<u64>>, K=3", "data truncated after any number of words 0..=K, any Inv_r state; op peek: Ok with the right value iff the bits it needs lie within the data") => strict_step_le::<u64, _, 3, {OP_PEEK}>;
    #[kani::stub(alloc::fmt::format, stub_format)]
    #[kani::stub(std::string::ToString::to_string, stub_to_string)]
    #[kani::unwind(14)]
    c09_skip_u8_be (thorough, "BufBitReader<BE, strict MemWordReader<u8>>, K=10", "data truncated after any number of words 0..=K, any Inv_r state; op skip: Ok with the right value iff the bits it needs lie within the data") => strict_step_be::<u8, _, 10, {OP_SKIP}>;
    #[kani::stub(alloc::fmt::format, stub_format)]
    #[kani::stub(std::string::ToString::to_string, stub_to_string)]
    #[kani::unwind(14)]
    c09_skip_u8_le (thorough, "BufBitReader<LE, strict MemWordReader<u8>>, K=10", "data truncated after any number of words 0..=K, any Inv_r state; op skip: Ok with the right value iff the bits it needs lie within the data") => strict_step_le::<u8, _, 10, {OP_SKIP}>;
    #[kani::stub(alloc::fmt::format, stub_format)]
    #[kani::stub(std::string::ToString::to_string, stub_to_string)]
    #[kani::unwind(10)]
    c09_skip_u16_be (quick, "BufBitReader<BE, strict MemWordReader<u16>>, K=6", "data truncated after any number of words 0..=K, any Inv_r state; op skip: Ok with the right value iff the bits it needs lie within the data") => strict_step_be::<u16, _, 6, {OP_SKIP}>;
    #[kani::stub(alloc::fmt::format, stub_format)]
    #[kani::stub(std::string::ToString::to_string, stub_to_string)]
    #[kani::unwind(10)]
    c09_skip_u16_le (thorough, "BufBitReader<LE, strict MemWordReader<u16>>, K=6", "data truncated after any number of words 0..=K, any Inv_r state; op skip: Ok with the right value iff the bits it needs lie within the data") => strict_step_le::<u16, _, 6, {OP_SKIP}>;
    #[kani::stub(alloc::fmt::format, stub_format)]
    #[kani::stub(std::string::ToString::to_string, stub_to_string)]
    #[kani::unwind(8)]
    c09_skip_u32_be (thorough, "BufBitReader<BE, strict MemWordReader<u32>>, K=4", "data truncated after any number of words 0..=K, any Inv_r state; op skip: Ok with the right value iff the bits it needs lie within the data") => strict_step_be::<u32, _, 4, {OP_SKIP}>;
    #[kani::stub(alloc::fmt::format, stub_format)]
    #[kani::stub(std::string::ToString::to_string, stub_to_string)]
    #[kani::unwind(8)]
    c09_skip_u32_le (quick, "BufBitReader<LE, strict MemWordReader<u32>>, K=4", "data truncated after any number of words 0..=K, any Inv_r state; op skip: Ok with the right value iff the bits it needs lie within the data") => strict_step_le::<u32, _, 4, {OP_SKIP}>;
    #[kani::stub(alloc::fmt::format, stub_format)]
    #[kani::stub(std::string::ToString::to_string, stub_to_string)]
    #[kani::unwind(7)]
    c09_skip_u64_be (thorough, "BufBitReader<BE, strict MemWordReader<u64>>, K=3", "data truncated after any number of words 0..=K, any Inv_r state; op skip: Ok with the right value iff the bits it needs lie within the data") => strict_step_be::<u64, _, 3, {OP_SKIP}>;
    #[kani::stub(alloc::fmt::format, stub_format)]
    #[kani::stub(std::string::ToString::to_string, stub_to_string)]
    #[kani::unwind(7)]
    c09_skip_u64_le (thorough, "BufBitReader<LE, strict MemWordReader<u64>>, K=3", "data truncated after any number of words 0..=K, any Inv_r state; op skip: Ok with the right value iff the bits it needs lie within the data") => strict_step_le::<u64, _, 3, {OP_SKIP}>;
    #[kani::stub(alloc::fmt::format, stub_format)]
    #[kani::stub(std::string::ToString::to_string, stub_to_string)]
    #[kani::unwind(10)]
    c09_gamma_tab_u16_be (quick, "BufBitReader<BE, strict MemWordReader<u16>>, K=6", "data truncated after any number of words 0..=K, any Inv_r state; op gamma_tab: Ok with the right value iff the bits it needs lie within the data") => strict_step_be::<u16, _, 6, {OP_GAMMA_T}>;
    #[kani::stub(alloc::fmt::format, stub_format)]
    #[kani::stub(std::string::ToString::to_string, stub_to_string)]
    #[kani::unwind(10)]
    c09_gamma_tab_u16_le (thorough, "BufBitReader<LE, strict MemWordReader<u16>>, K=6", "data truncated after any number of words 0..=K, any Inv_r state; op gamma_tab: Ok with the right value iff the bits it needs lie within the data") => strict_step_le::<u16, _, 6, {OP_GAMMA_T}>;
    #[kani::stub(alloc::fmt::format, stub_format)]
    #[kani::stub(std::string::ToString::to_string, stub_to_string)]
    #[kani::unwind(8)]
    c09_gamma_tab_u32_be (thorough, "BufBitReader<BE, strict MemWordReader<u32>>, K=4", "data truncated after any number of words 0..=K, any Inv_r state; op gamma_tab: Ok with the right value iff the bits it needs lie within the data") => strict_step_be::<u32, _, 4, {OP_GAMMA_T}>;
    #[kani::stub(alloc::fmt::format, stub_format)]
    #[kani::stub(std::string::ToString::to_string, stub_to_string)]
    #[kani::unwind(8)]
    c09_gamma_tab_u32_le (quick, "BufBitReader<LE, strict MemWordReader<u32>>, K=4", "data truncated after any number of words 0..=K, any Inv_r state; op gamma_tab: Ok with the right value iff the bits it needs lie within the data") => strict_step_le::<u32, _, 4, {OP_GAMMA_T}>;
    #[kani::stub(alloc::fmt::format, stub_format)]
    #[kani::stub(std::string::ToString::to_string, stub_to_string)]
    #[kani::unwind(7)]
    c09_gamma_tab_u64_be (thorough, "BufBitReader<BE, strict MemWordReader<u64>>, K=3", "data truncated after any number of words 0..=K, any Inv_r state; op gamma_tab: Ok with the right value iff the bits it needs lie within the data") => strict_step_be::<u64, _, 3, {OP_GAMMA_T}>;
    #[kani::stub(alloc::fmt::format, stub_format)]
    #[kani::stub(std::string::ToString::to_string, stub_to_string)]
    #[kani::unwind(7)]
    c09_gamma_tab_u64_le (thorough, "BufBitReader<LE, strict MemWordReader<u64>>, K=3", "data truncated after any number of words 0..=K, any Inv_r state; op gamma_tab: Ok with the right value iff the bits it needs lie within the data") => strict_step_le::<u64, _, 3, {OP_GAMMA_T}>;
    #[kani::stub(alloc::fmt::format, stub_format)]
    #[kani::stub(std::string::ToString::to_string, stub_to_string)]
    #[kani::unwind(10)]
    c09_delta_tab_u16_be (thorough, "BufBitReader<BE, strict MemWordReader<u16>>, K=6", "data truncated after any number of words 0..=K, any Inv_r state; op delta_tab: Ok with the right value iff the bits it needs lie within the data") => strict_step_be::<u16, _, 6, {OP_DELTA_TT}>;
    #[kani::stub(alloc::fmt::format, stub_format)]
    #[kani::stub(std::string::ToString::to_string, stub_to_string)]
    #[kani::unwind(10)]
    c09_delta_tab_u16_le (thorough, "BufBitReader<LE, strict MemWordReader<u16>>, K=6", "data truncated after any number of words 0..=K, any Inv_r state; op delta_tab: Ok with the right value iff the bits it needs lie within the data") => strict_step_le::<u16, _, 6, {OP_DELTA_TT}>;
    #[kani::stub(alloc::fmt::format, stub_format)]
    #[kani::stub(std::string::ToString::to_string, stub_to_string)]
    #[kani::unwind(8)]
    c09_delta_tab_u32_be (thorough, "BufBitReader<BE, strict MemWordReader<u32>>, K=4", "data truncated after any number of words 0..=K, any Inv_r state; op delta_tab: Ok with the right value iff the bits it needs lie within the data") => strict_step_be::<u32, _, 4, {OP_DELTA_TT}>;
    #[kani::stub(alloc::fmt::format, stub_format)]
    #[kani::stub(std::string::ToString::to_string, stub_to_string)]
    #[kani::unwind(8)]
    c09_delta_tab_u32_le (thorough, "BufBitReader<LE, strict MemWordReader<u32>>, K=4", "data truncated after any number of words 0..=K, any Inv_r state; op delta_tab: Ok with the right value iff the bits it needs lie within the data") => strict_step_le::<u32, _, 4, {OP_DELTA_TT}>;
    #[kani::stub(alloc::fmt::format, stub_format)]
    #[kani::stub(std::string::ToString::to_string, stub_to_string)]
    #[kani::unwind(7)]
    c09_delta_tab_u64_be (thorough, "BufBitReader<BE, strict MemWordReader<u64>>, K=3", "data truncated after any number of words 0..=K, any Inv_r state; op delta_tab: Ok with the right value iff the bits it needs lie within the data") => strict_step_be::<u64, _, 3, {OP_DELTA_TT}>;
    #[kani::stub(alloc::fmt::format, stub_format)]
    #[kani::stub(std::string::ToString::to_string, stub_to_string)]
    #[kani::unwind(7)]
    c09_delta_tab_u64_le (thorough, "BufBitReader<LE, strict MemWordReader<u64>>, K=3", "data truncated after any number of words 0..=K, any Inv_r state; op delta_tab: Ok with the right value iff the bits it needs lie within the data") => strict_step_le::<u64, _, 3, {OP_DELTA_TT}>;
    #[kani::stub(alloc::fmt::format, stub_format)]
    #[kani::stub(std::string::ToString::to_string, stub_to_string)]
    #[kani::unwind(10)]
    c09_zeta3_tab_u16_be (thorough, "BufBitReader<BE, strict MemWordReader<u16>>, K=6", "data truncated after any number of words 0..=K, any Inv_r state; op zeta3_tab: Ok with the right value iff the bits it needs lie within the data") => strict_step_be::<u16, _, 6, {OP_ZETA3_T}>;
    #[kani::stub(alloc::fmt::format, stub_format)]
    #[kani::stub(std::string::ToString::to_string, stub_to_string)]
    #[kani::unwind(10)]
    c09_zeta3_tab_u16_le (thorough, "BufBitReader<LE, strict MemWordReader<u16>>, K=6", "data truncated after any number of words 0..=K, any Inv_r state; op zeta3_tab: Ok with the right value iff the bits it needs lie within the data") => strict_step_le::<u16, _, 6, {OP_ZETA3_T}>;
    #[kani::stub(alloc::fmt::format, stub_format)]
    #[kani::stub(std::string::ToString::to_string, stub_to_string)]
    #[kani::unwind(8)]
    c09_zeta3_tab_u32_be (thorough, "BufBitReader<BE, strict MemWordReader<u32>>, K=4", "data truncated after any number of words 0..=K, any Inv_r state; op zeta3_tab: Ok with the right value iff the bits it needs lie within the data") => strict_step_be::<u32, _, 4, {OP_ZETA3_T}>;
    #[kani::stub(alloc::fmt::format, stub_format)]
    #[kani::stub(std::string::ToString::to_string, stub_to_string)]
    #[kani::unwind(8)]
    c09_zeta3_tab_u32_le (thorough, "BufBitReader<LE, strict MemWordReader<u32>>, K=4", "data truncated after any number of words 0..=K, any Inv_r state; op zeta3_tab: Ok with the right value iff the bits it needs lie within the data") => strict_step_le::<u32, _, 4, {OP_ZETA3_T}>;
    #[kani::stub(alloc::fmt::format, stub_format)]
    #[kani::stub(std::string::ToString::to_string, stub_to_string)]
    #[kani::unwind(7)]
    c09_zeta3_tab_u64_be (thorough, "BufBitReader<BE, strict MemWordReader<u64>>, K=3", "data truncated after any number of words 0..=K, any Inv_r state; op zeta3_tab: Ok with the right value iff the bits it needs lie within the data") => strict_step_be::<u64, _, 3, {OP_ZETA3_T}>;
    #[kani::stub(alloc::fmt::format, stub_format)]
    #[kani::stub(std::string::ToString::to_string, stub_to_string)]
    #[kani::unwind(7)]
    c09_zeta3_tab_u64_le (thorough, "BufBitReader<LE, strict MemWordReader<u64>>, K=3", "data truncated after any number of words 0..=K, any Inv_r state; op zeta3_tab: Ok with the right value iff the bits it needs lie within the data") => strict_step_le::<u64, _, 3, {OP_ZETA3_T}>;
    #[kani::stub(alloc::fmt::format, stub_format)]
    #[kani::stub(std::string::ToString::to_string, stub_to_string)]
    #[kani::unwind(14)]
    c09_omega_u8_be (thorough, "BufBitReader<BE, strict MemWordReader<u8>>, K=10", "data truncated after any number of words 0..=K, any Inv_r state; op omega: Ok with the right value iff the bits it needs lie within the data") => strict_step_be::<u8, _, 10, {OP_OMEGA}>;
    #[kani::stub(alloc::fmt::format, stub_format)]
    #[kani::stub(std::string::ToString::to_string, stub_to_string)]
    #[kani::unwind(14)]
    c09_omega_u8_le (thorough, "BufBitReader<LE, strict MemWordReader<u8>>, K=10", "data truncated after any number of words 0..=K, any Inv_r state; op omega: Ok with the right value iff the bits it needs lie within the data") => strict_step_le::<u8, _, 10, {OP_OMEGA}>;
    #[kani::stub(alloc::fmt::format, stub_format)]
    #[kani::stub(std::string::ToString::to_string, stub_to_string)]
    #[kani::unwind(10)]
    c09_omega_u16_be (thorough, "BufBitReader<BE, strict MemWordReader<u16>>, K=6", "data truncated after any number of words 0..=K, any Inv_r state; op omega: Ok with the right value iff the bits it needs lie within the data") => strict_step_be::<u16, _, 6, {OP_OMEGA}>;
    #[kani::stub(alloc::fmt::format, stub_format)]
    #[kani::stub(std::string::ToString::to_string, stub_to_string)]
    #[kani::unwind(10)]
    c09_omega_u16_le (thorough, "BufBitReader<LE, strict MemWordReader<u16>>, K=6", "data truncated after any number of words 0..=K, any Inv_r state; op omega: Ok with the right value iff the bits it needs lie within the data") => strict_step_le::<u16, _, 6, {OP_OMEGA}>;
    #[kani::stub(alloc::fmt::format, stub_format)]
    #[kani::stub(std::string::ToString::to_string, stub_to_string)]
    #[kani::unwind(8)]
    c09_omega_u32_be (thorough, "BufBitReader<BE, strict MemWordReader<u32>>, K=4", "data truncated after any number of words 0..=K, any Inv_r state; op omega: Ok with the right value iff the bits it needs lie within the data") => strict_step_be::<u32, _, 4, {OP_OMEGA}>;
    #[kani::stub(alloc::fmt::format, stub_format)]
    #[kani::stub(std::string::ToString::to_string, stub_to_string)]
    #[kani::unwind(8)]
    c09_omega_u32_le (thorough, "BufBitReader<LE, strict MemWordReader<u32>>, K=4", "data truncated after any number of words 0..=K, any Inv_r state; op omega: Ok with the right value iff the bits it needs lie within the data") => strict_step_le::<u32, _, 4, {OP_OMEGA}>;
    #[kani::stub(alloc::fmt::format, stub_format)]
    #[kani::stub(std::string::ToString::to_string, stub_to_string)]
    #[kani::unwind(7)]
    c09_omega_u64_be (thorough, "BufBitReader<BE, strict MemWordReader<u64>>, K=3", "data truncated after any number of words 0..=K, any Inv_r state; op omega: Ok with the right value iff the bits it needs lie within the data") => strict_step_be::<u64, _, 3, {OP_OMEGA}>;
    #[kani::stub(alloc::fmt::format, stub_format)]
    #[kani::stub(std::string::ToString::to_string, stub_to_string)]
    #[kani::unwind(7)]
    c09_omega_u64_le (thorough, "BufBitReader<LE, strict MemWordReader<u64>>, K=3", "data truncated after any number of words 0..=K, any Inv_r state; op omega: Ok with the right value iff the bits it needs lie within the data") => strict_step_le::<u64, _, 3, {OP_OMEGA}>;
    #[kani::stub(alloc::fmt::format, stub_format)]
    #[kani::stub(std::string::ToString::to_string, stub_to_string)]
    #[kani::unwind(14)]
    c09_gamma_u8_be (thorough, "BufBitReader<BE, strict MemWordReader<u8>>, K=10", "data truncated after any number of words 0..=K, any Inv_r state; op gamma: Ok with the right value iff the bits it needs lie within the data") => strict_step_be::<u8, _, 10, {OP_GAMMA}>;
    #[kani::stub(alloc::fmt::format, stub_format)]
    #[kani::stub(std::string::ToString::to_string, stub_to_string)]
    #[kani::unwind(14)]
    c09_gamma_u8_le (thorough, "BufBitReader<LE, strict MemWordReader<u8>>, K=10", "data truncated after any number of words 0..=K, any Inv_r state; op gamma: Ok with the right value iff the bits it needs lie within the data") => strict_step_le::<u8, _, 10, {OP_GAMMA}>;
    #[kani::stub(alloc::fmt::format, stub_format)]
    #[kani::stub(std::string::ToString::to_string, stub_to_string)]
    #[kani::unwind(10)]
    c09_gamma_u16_be (thorough, "BufBitReader<BE, strict MemWordReader<u16>>, K=6", "data truncated after any number of words 0..=K, any Inv_r state; op gamma: Ok with the right value iff the bits it needs lie within the data") => strict_step_be::<u16, _, 6, {OP_GAMMA}>;
    #[kani::stub(alloc::fmt::format, stub_format)]
    #[kani::stub(std::string::ToString::to_string, stub_to_string)]
    #[kani::unwind(10)]
    c09_gamma_u16_le (thorough, "BufBitReader<LE, strict MemWordReader<u16>>, K=6", "data truncated after any number of words 0..=K, any Inv_r state; op gamma: Ok with the right value iff the bits it needs lie within the data") => strict_step_le::<u16, _, 6, {OP_GAMMA}>;
    #[kani::stub(alloc::fmt::format, stub_format)]
    #[kani::stub(std::string::ToString::to_string, stub_to_string)]
    #[kani::unwind(8)]
    c09_gamma_u32_be (thorough, "BufBitReader<BE, strict MemWordReader<u32>>, K=4", "data truncated after any number of words 0..=K, any Inv_r state; op gamma: Ok with the right value iff the bits it needs lie within the data") => strict_step_be::<u32, _, 4, {OP_GAMMA}>;
    #[kani::stub(alloc::fmt::format, stub_format)]
    #[kani::stub(std::string::ToString::to_string, stub_to_string)]
    #[kani::unwind(8)]
    c09_gamma_u32_le (thorough, "BufBitReader<LE, strict MemWordReader<u32>>, K=4", "data truncated after any number of words 0..=K, any Inv_r state; op gamma: Ok with the right value iff the bits it needs lie within the data") => strict_step_le::<u32, _, 4, {OP_GAMMA}>;
    #[kani::stub(alloc::fmt::format, stub_format)]
    #[kani::stub(std::string::ToString::to_string, stub_to_string)]
    #[kani::unwind(7)]
    c09_gamma_u64_be (thorough, "BufBitReader<BE, strict MemWordReader<u64>>, K=3", "data truncated after any number of words 0..=K, any Inv_r state; op gamma: Ok with the right value iff the bits it needs lie within the data") => strict_step_be::<u64, _, 3, {OP_GAMMA}>;
    #[kani::stub(alloc::fmt::format, stub_format)]
    #[kani::stub(std::string::ToString::to_string, stub_to_string)]
    #[kani::unwind(7)]
    c09_gamma_u64_le (thorough, "BufBitReader<LE, strict MemWordReader<u64>>, K=3", "data truncated after any number of words 0..=K, any Inv_r state; op gamma: Ok with the right value iff the bits it needs lie within the data") => strict_step_le::<u64, _, 3, {OP_GAMMA}>;
    #[kani::stub(alloc::fmt::format, stub_format)]
    #[kani::stub(std::string::ToString::to_string, stub_to_string)]
    #[kani::unwind(14)]
    c09_vbyte_u8_be (thorough, "BufBitReader<BE, strict MemWordReader<u8>>, K=10", "data truncated after any number of words 0..=K, any Inv_r state; op vbyte: Ok with the right value iff the bits it needs lie within the data") => strict_step_be::<u8, _, 10, {OP_VBYTE}>;
    #[kani::stub(alloc::fmt::format, stub_format)]
    #[kani::stub(std::string::ToString::to_string, stub_to_string)]
    #[kani::unwind(14)]
    c09_vbyte_u8_le (thorough, "BufBitReader<LE, strict MemWordReader<u8>>, K=10", "data truncated after any number of words 0..=K, any Inv_r state; op vbyte: Ok with the right value iff the bits it needs lie within the data") => strict_step_le::<u8, _, 10, {OP_VBYTE}>;
    #[kani::stub(alloc::fmt::format, stub_format)]
    #[kani::stub(std::string::ToString::to_string, stub_to_string)]
    #[kani::unwind(10)]
    c09_vbyte_u16_be (thorough, "BufBitReader<BE, strict MemWordReader<u16>>, K=6", "data truncated after any number of words 0..=K, any Inv_r state; op vbyte: Ok with the right value iff the bits it needs lie within the data") => strict_step_be::<u16, _, 6, {OP_VBYTE}>;
    #[kani::stub(alloc::fmt::format, stub_format)]
    #[kani::stub(std::string::ToString::to_string, stub_to_string)]
    #[kani::unwind(10)]
    c09_vbyte_u16_le (thorough, "BufBitReader<LE, strict MemWordReader<u16>>, K=6", "data truncated after any number of words 0..=K, any Inv_r state; op vbyte: Ok with the right value iff the bits it needs lie within the data") => strict_step_le::<u16, _, 6, {OP_VBYTE}>;
    #[kani::stub(alloc::fmt::format, stub_format)]
    #[kani::stub(std::string::ToString::to_string, stub_to_string)]
    #[kani::unwind(8)]
    c09_vbyte_u32_be (thorough, "BufBitReader<BE, strict MemWordReader<u32>>, K=4", "data truncated after any number of words 0..=K, any Inv_r state; op vbyte: Ok with the right value iff the bits it needs lie within the data") => strict_step_be::<u32, _, 4, {OP_VBYTE}>;
    #[kani::stub(alloc::fmt::format, stub_format)]
    #[kani::stub(std::string::ToString::to_string, stub_to_string)]
    #[kani::unwind(8)]
    c09_vbyte_u32_le (thorough, "BufBitReader<LE, strict MemWordReader<u32>>, K=4", "data truncated after any number of words 0..=K, any Inv_r state; op vbyte: Ok with the right value iff the bits it needs lie within the data") => strict_step_le::<u32, _, 4, {OP_VBYTE}>;
    #[kani::stub(alloc::fmt::format, stub_format)]
    #[kani::stub(std::string::ToString::to_string, stub_to_string)]
    #[kani::unwind(7)]
    c09_vbyte_u64_be (thorough, "BufBitReader<BE, strict MemWordReader<u64>>, K=3", "data truncated after any number of words 0..=K, any Inv_r state; op vbyte: Ok with the right value iff the bits it needs lie within the data") => strict_step_be::<u64, _, 3, {OP_VBYTE}>;
    #[kani::stub(alloc::fmt::format, stub_format)]
    #[kani::stub(std::string::ToString::to_string, stub_to_string)]
    #[kani::unwind(7)]
    c09_vbyte_u64_le (thorough, "BufBitReader<LE, strict MemWordReader<u64>>, K=3", "data truncated after any number of words 0..=K, any Inv_r state; op vbyte: Ok with the right value iff the bits it needs lie within the data") => strict_step_le::<u64, _, 3, {OP_VBYTE}>;
    #[kani::stub(alloc::fmt::format, stub_format)]
    #[kani::stub(std::string::ToString::to_string, stub_to_string)]
    #[kani::unwind(7)]
    c09_ub_read_bits_be (quick, "BitReader<BE> (unbuffered) over a strict MemWordReader<u64>, K=3", "data truncated after any number of words 0..=3, any bit position; op read_bits: Ok with the right value iff the bits it needs lie within the data") => ub_strict_step_be::<_, 3, {OP_READ_BITS}>;
    #[kani::stub(alloc::fmt::format, stub_format)]
    #[kani::stub(std::string::ToString::to_string, stub_to_string)]
    #[kani::unwind(7)]
    c09_ub_read_bits_le (quick, "BitReader<LE> (unbuffered) over a strict MemWordReader<u64>, K=3", "data truncated after any number of words 0..=3, any bit position; op read_bits: Ok with the right value iff the bits it needs lie within the data") => ub_strict_step_le::<_, 3, {OP_READ_BITS}>;
    #[kani::stub(alloc::fmt::format, stub_format)]
    #[kani::stub(std::string::ToString::to_string, stub_to_string)]
    #[kani::unwind(7)]
    c09_ub_read_unary_be (quick, "BitReader<BE> (unbuffered) over a strict MemWordReader<u64>, K=3", "data truncated after any number of words 0..=3, any bit position; op read_unary: Ok with the right value iff the bits it needs lie within the data") => ub_strict_step_be::<_, 3, {OP_READ_UNARY}>;
    #[kani::stub(alloc::fmt::format, stub_format)]
    #[kani::stub(std::string::ToString::to_string, stub_to_string)]
    #[kani::unwind(7)]
    c09_ub_read_unary_le (quick, "BitReader<LE> (unbuffered) over a strict MemWordReader<u64>, K=3", "data truncated after any number of words 0..=3, any bit position; op read_unary: Ok with the right value iff the bits it needs lie within the data") => ub_strict_step_le::<_, 3, {OP_READ_UNARY}>;
    #[kani::stub(alloc::fmt::format, stub_format)]
    #[kani::stub(std::string::ToString::to_string, stub_to_string)]
    #[kani::unwind(7)]
    c09_ub_peek_be (quick, "BitReader<BE> (unbuffered) over a strict MemWordReader<u64>, K=3", "data truncated after any number of words 0..=3, any bit position; op peek: Ok with the right value iff the bits it needs lie within the data") => ub_strict_step_be::<_, 3, {OP_PEEK}>;
    #[kani::stub(alloc::fmt::format, stub_format)]
    #[kani::stub(std::string::ToString::to_string, stub_to_string)]
    #[kani::unwind(7)]
    c09_ub_peek_le (quick, "BitReader<LE> (unbuffered) over a strict MemWordReader<u64>, K=3", "data truncated after any number of words 0..=3, any bit position; op peek: Ok with the right value iff the bits it needs lie within the data") => ub_strict_step_le::<_, 3, {OP_PEEK}>;
    #[kani::stub(alloc::fmt::format, stub_format)]
    #[kani::stub(std::string::ToString::to_string, stub_to_string)]
    #[kani::unwind(7)]
    c09_ub_gamma_tab_be (quick, "BitReader<BE> (unbuffered) over a strict MemWordReader<u64>, K=3", "data truncated after any number of words 0..=3, any bit position; op gamma_tab: Ok with the right value iff the bits it needs lie within the data") => ub_strict_step_be::<_, 3, {OP_GAMMA_T}>;
    #[kani::stub(alloc::fmt::format, stub_format)]
    #[kani::stub(std::string::ToString::to_string, stub_to_string)]
    #[kani::unwind(7)]
    c09_ub_gamma_tab_le (thorough, "BitReader<LE> (unbuffered) over a strict MemWordReader<u64>, K=3", "data truncated after any number of words 0..=3, any bit position; op gamma_tab: Ok with the right value iff the bits it needs lie within the data") => ub_strict_step_le::<_, 3, {OP_GAMMA_T}>;
    #[kani::stub(alloc::fmt::format, stub_format)]
    #[kani::stub(std::string::ToString::to_string, stub_to_string)]
    #[kani::unwind(7)]
    c09_ub_delta_tab_be (thorough, "BitReader<BE> (unbuffered) over a strict MemWordReader<u64>, K=3", "data truncated after any number of words 0..=3, any bit position; op delta_tab: Ok with the right value iff the bits it needs lie within the data") => ub_strict_step_be::<_, 3, {OP_DELTA_TT}>;
    #[kani::stub(alloc::fmt::format, stub_format)]
    #[kani::stub(std::string::ToString::to_string, stub_to_string)]
    #[kani::unwind(7)]
    c09_ub_delta_tab_le (thorough, "BitReader<LE> (unbuffered) over a strict MemWordReader<u64>, K=3", "data truncated after any number of words 0..=3, any bit position; op delta_tab: Ok with the right value iff the bits it needs lie within the data") => ub_strict_step_le::<_, 3, {OP_DELTA_TT}>;
    #[kani::stub(alloc::fmt::format, stub_format)]
    #[kani::stub(std::string::ToString::to_string, stub_to_string)]
    #[kani::unwind(7)]
    c09_ub_zeta3_tab_be (thorough, "BitReader<BE> (unbuffered) over a strict MemWordReader<u64>, K=3", "data truncated after any number of words 0..=3, any bit position; op zeta3_tab: Ok with the right value iff the bits it needs lie within the data") => ub_strict_step_be::<_, 3, {OP_ZETA3_T}>;
    #[kani::stub(alloc::fmt::format, stub_format)]
    #[kani::stub(std::string::ToString::to_string, stub_to_string)]
    #[kani::unwind(7)]
    c09_ub_zeta3_tab_le (thorough, "BitReader<LE> (unbuffered) over a strict MemWordReader<u64>, K=3", "data truncated after any number of words 0..=3, any bit position; op zeta3_tab: Ok with the right value iff the bits it needs lie within the data") => ub_strict_step_le::<_, 3, {OP_ZETA3_T}>;
    #[kani::stub(alloc::fmt::format, stub_format)]
    #[kani::stub(std::string::ToString::to_string, stub_to_string)]
    #[kani::unwind(7)]
    c09_ub_omega_be (thorough, "BitReader<BE> (unbuffered) over a strict MemWordReader<u64>, K=3", "data truncated after any number of words 0..=3, any bit position; op omega: Ok with the right value iff the bits it needs lie within the data") => ub_strict_step_be::<_, 3, {OP_OMEGA}>;
    #[kani::stub(alloc::fmt::format, stub_format)]
    #[kani::stub(std::string::ToString::to_string, stub_to_string)]
    #[kani::unwind(7)]
    c09_ub_omega_le (thorough, "BitReader<LE> (unbuffered) over a strict MemWordReader<u64>, K=3", "data truncated after any number of words 0..=3, any bit position; op omega: Ok with the right value iff the bits it needs lie within the data") => ub_strict_step_le::<_, 3, {OP_OMEGA}>;
    #[kani::stub(alloc::fmt::format, stub_format)]
    #[kani::stub(std::string::ToString::to_string, stub_to_string)]
    #[kani::unwind(7)]
    c09_ub_gamma_be (thorough, "BitReader<BE> (unbuffered) over a strict MemWordReader<u64>, K=3", "data truncated after any number of words 0..=3, any bit position; op gamma: Ok with the right value iff the bits it needs lie within the data") => ub_strict_step_be::<_, 3, {OP_GAMMA}>;
    #[kani::stub(alloc::fmt::format, stub_format)]
    #[kani::stub(std::string::ToString::to_string, stub_to_string)]
    #[kani::unwind(7)]
    c09_ub_gamma_le (thorough, "BitReader<LE> (unbuffered) over a strict MemWordReader<u64>, K=3", "data truncated after any number of words 0..=3, any bit position; op gamma: Ok with the right value iff the bits it needs lie within the data") => ub_strict_step_le::<_, 3, {OP_GAMMA}>;
}
