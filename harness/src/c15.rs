//! C15 — code statistics are exact and mergeable.
//! One `update_many(n, count)` from an arbitrary statistics value: every tracked total grows
//! by `len_code(n, parameter(index)) * count` with the index -> parameter map restated here
//! (zeta: i+1, Golomb: i+1, exp-Golomb: i, Rice: i, pi: i+2); merge = field-wise sum;
//! `best_code` returns a code whose total is the minimum and whose parameter matches the
//! index it came from; the dispatch wrapper updates by the value read / written.
//! Concurrent updates (threads) are outside the solver: see DESIGN.md §C15.

use crate::model::*;
use crate::ms::*;
use crate::src::Src;
use dsi_bitstream::prelude::*;
use dsi_bitstream::utils::*;

type St<const Z: usize, const G: usize, const EG: usize, const R: usize, const P: usize> = CodesStats<Z, G, EG, R, P>;

const FIELD_MAX: u64 = 1 << 56;

fn any_stats<S: Src, const Z: usize, const G: usize, const EG: usize, const R: usize, const P: usize>(s: &mut S) -> St<Z, G, EG, R, P> {
    let mut st = St::<Z, G, EG, R, P>::default();
    macro_rules! f {
        ($x:expr) => {
            $x = s.u64();
            s.assume($x < FIELD_MAX);
        };
    }
    f!(st.total);
    f!(st.unary);
    f!(st.gamma);
    f!(st.delta);
    f!(st.omega);
    f!(st.vbyte);
    let mut i = 0;
    while i < Z {
        f!(st.zeta[i]);
        i += 1;
    }
    i = 0;
    while i < G {
        f!(st.golomb[i]);
        i += 1;
    }
    i = 0;
    while i < EG {
        f!(st.exp_golomb[i]);
        i += 1;
    }
    i = 0;
    while i < R {
        f!(st.rice[i]);
        i += 1;
    }
    i = 0;
    while i < P {
        f!(st.pi[i]);
        i += 1;
    }
    st
}

/// update_many(n, count), n < 2^NBITS, count < 2^CBITS (totals fit in 64 bits)
pub fn update_step<S: Src, const Z: usize, const G: usize, const EG: usize, const R: usize, const P: usize, const NBITS: u32, const CBITS: u32, const MANY: bool>(s: &mut S) {
    let st0 = any_stats::<S, Z, G, EG, R, P>(s);
    let n = s.u64();
    let count = s.u64();
    let single = !MANY;
    s.assume(n < (1u64 << NBITS) && count < (1u64 << CBITS));
    let c = if single { 1 } else { count };
    let mut st = st0;
    let r = if single { st.update(n) } else { st.update_many(n, count) };
    assert_eq!(r, n, "update returns the value");
    assert_eq!(st.total, st0.total + c, "element count");
    assert_eq!(st.unary, st0.unary + (n + 1) * c, "unary total");
    assert_eq!(st.gamma, st0.gamma + len_gamma(n) as u64 * c, "gamma total");
    assert_eq!(st.delta, st0.delta + len_delta(n) as u64 * c, "delta total");
    assert_eq!(st.omega, st0.omega + len_omega(n) as u64 * c, "omega total");
    assert_eq!(st.vbyte, st0.vbyte + bit_len_vbyte(n) as u64 * c, "vbyte total");
    let mut i = 0;
    while i < Z {
        assert_eq!(st.zeta[i], st0.zeta[i] + len_zeta(n, i + 1) as u64 * c, "zeta[i] tracks zeta_(i+1)");
        i += 1;
    }
    i = 0;
    while i < G {
        assert_eq!(st.golomb[i], st0.golomb[i] + len_golomb(n, i as u64 + 1) as u64 * c, "golomb[i] tracks Golomb_(i+1)");
        i += 1;
    }
    i = 0;
    while i < EG {
        assert_eq!(st.exp_golomb[i], st0.exp_golomb[i] + len_exp_golomb(n, i) as u64 * c, "exp_golomb[i] tracks exp-Golomb_i");
        i += 1;
    }
    i = 0;
    while i < R {
        assert_eq!(st.rice[i], st0.rice[i] + len_rice(n, i) as u64 * c, "rice[i] tracks Rice_i");
        i += 1;
    }
    i = 0;
    while i < P {
        assert_eq!(st.pi[i], st0.pi[i] + len_pi(n, i + 2) as u64 * c, "pi[i] tracks pi_(i+2)");
        i += 1;
    }
    crate::cover!(s, single || count > 10, "multiplicity");
}

fn fields_sum<const Z: usize, const G: usize, const EG: usize, const R: usize, const P: usize>(
    r: &St<Z, G, EG, R, P>,
    a: &St<Z, G, EG, R, P>,
    b: &St<Z, G, EG, R, P>,
    extra: &St<Z, G, EG, R, P>,
) {
    assert_eq!(r.total, a.total + b.total + extra.total, "merged element count");
    assert_eq!(r.unary, a.unary + b.unary + extra.unary, "merged unary");
    assert_eq!(r.gamma, a.gamma + b.gamma + extra.gamma, "merged gamma");
    assert_eq!(r.delta, a.delta + b.delta + extra.delta, "merged delta");
    assert_eq!(r.omega, a.omega + b.omega + extra.omega, "merged omega");
    assert_eq!(r.vbyte, a.vbyte + b.vbyte + extra.vbyte, "merged vbyte");
    let mut i = 0;
    while i < Z {
        assert_eq!(r.zeta[i], a.zeta[i] + b.zeta[i] + extra.zeta[i], "merged zeta");
        i += 1;
    }
    i = 0;
    while i < G {
        assert_eq!(r.golomb[i], a.golomb[i] + b.golomb[i] + extra.golomb[i], "merged golomb");
        i += 1;
    }
    i = 0;
    while i < EG {
        assert_eq!(r.exp_golomb[i], a.exp_golomb[i] + b.exp_golomb[i] + extra.exp_golomb[i], "merged exp_golomb");
        i += 1;
    }
    i = 0;
    while i < R {
        assert_eq!(r.rice[i], a.rice[i] + b.rice[i] + extra.rice[i], "merged rice");
        i += 1;
    }
    i = 0;
    while i < P {
        assert_eq!(r.pi[i], a.pi[i] + b.pi[i] + extra.pi[i], "merged pi");
        i += 1;
    }
}

/// add, +=, +, sum == field-wise sum
pub fn merge_step<S: Src, const Z: usize, const G: usize, const EG: usize, const R: usize, const P: usize>(s: &mut S) {
    let a = any_stats::<S, Z, G, EG, R, P>(s);
    let b = any_stats::<S, Z, G, EG, R, P>(s);
    let c = any_stats::<S, Z, G, EG, R, P>(s);
    let zero = St::<Z, G, EG, R, P>::default();
    let mut r1 = a;
    r1.add(&b);
    fields_sum(&r1, &a, &b, &zero);
    let mut r2 = a;
    r2 += b;
    fields_sum(&r2, &a, &b, &zero);
    let r3 = a + b;
    fields_sum(&r3, &a, &b, &zero);
    let r4: St<Z, G, EG, R, P> = [a, b, c].into_iter().sum();
    fields_sum(&r4, &a, &b, &c);
    crate::cover!(s, a.total > 0 && b.total > 0, "non-empty partial statistics");
}

/// best_code: minimum total, that total as cost, parameter of the index it came from
pub fn best_code_step<S: Src, const Z: usize, const G: usize, const EG: usize, const R: usize, const P: usize>(s: &mut S) {
    let st = any_stats::<S, Z, G, EG, R, P>(s);
    let (code, cost) = st.best_code();
    // cost is a lower bound of every tracked total
    assert!(cost <= st.unary && cost <= st.gamma && cost <= st.delta && cost <= st.omega && cost <= st.vbyte, "cost above a tracked total");
    let mut i = 0;
    while i < Z {
        assert!(cost <= st.zeta[i], "cost above a tracked zeta total");
        i += 1;
    }
    i = 0;
    while i < G {
        assert!(cost <= st.golomb[i], "cost above a tracked golomb total");
        i += 1;
    }
    i = 0;
    while i < EG {
        assert!(cost <= st.exp_golomb[i], "cost above a tracked exp_golomb total");
        i += 1;
    }
    i = 0;
    while i < R {
        assert!(cost <= st.rice[i], "cost above a tracked rice total");
        i += 1;
    }
    i = 0;
    while i < P {
        assert!(cost <= st.pi[i], "cost above a tracked pi total");
        i += 1;
    }
    // and it is the total of the code returned, looked up through the index -> parameter map
    let total_of = match code {
        Codes::Unary => Some(st.unary),
        Codes::Gamma => Some(st.gamma),
        Codes::Delta => Some(st.delta),
        Codes::Omega => Some(st.omega),
        Codes::VByteBe | Codes::VByteLe => Some(st.vbyte),
        Codes::Zeta { k } => {
            if k >= 1 && k <= Z {
                Some(st.zeta[k - 1])
            } else {
                None
            }
        }
        Codes::Golomb { b } => {
            if b >= 1 && b <= G {
                Some(st.golomb[b - 1])
            } else {
                None
            }
        }
        Codes::ExpGolomb { k } => {
            if k < EG {
                Some(st.exp_golomb[k])
            } else {
                None
            }
        }
        Codes::Rice { log2_b } => {
            if log2_b < R {
                Some(st.rice[log2_b])
            } else {
                None
            }
        }
        Codes::Pi { k } => {
            if k >= 2 && k < P + 2 {
                Some(st.pi[k - 2])
            } else {
                None
            }
        }
        _ => None,
    };
    assert!(total_of == Some(cost), "the reported cost is not the total tracked for the reported code");
    crate::cover!(s, matches!(code, Codes::Pi { .. }), "a pi code wins");
    crate::cover!(s, matches!(code, Codes::Golomb { .. }), "a Golomb code wins");
}

/// statistics-gathering dispatch wrapper: pass-through and update by the value written / read
pub fn wrapper_step<E: En, S: Src>(s: &mut S)
where
    MS<E, true>: CodesWrite<E> + CodesRead<E> + BitWrite<E, Error = core::convert::Infallible> + BitRead<E, Error = core::convert::Infallible>,
{
    let v = s.u64();
    s.assume(v < (1 << 12));
    let w = CodesStatsWrapper::<Codes, 2, 3, 2, 2, 2>::new(Codes::Delta);
    let mut a = MS::<E, true>::new();
    let mut b = MS::<E, true>::new();
    let ra = DynamicCodeWrite::write(&w, &mut a, v).unwrap();
    let rb = Codes::Delta.write(&mut b, v).unwrap();
    assert!(ra == rb && a.bits == b.bits && a.wlen == b.wlen, "statistics wrapper changes what is written");
    a.write_unary(1).unwrap();
    let x = DynamicCodeRead::read(&w, &mut a).unwrap();
    assert_eq!(x, v, "statistics wrapper changes what is read");
    let (_inner, st) = w.into_inner();
    let mut exp = CodesStats::<2, 3, 2, 2, 2>::default();
    exp.update(v);
    exp.update(v);
    assert!(st.total == 2 && st.gamma == exp.gamma && st.delta == exp.delta && st.unary == exp.unary && st.zeta[1] == exp.zeta[1] && st.pi[0] == exp.pi[0] && st.golomb[2] == exp.golomb[2], "wrapper statistics differ from observing the value once per write and once per read");
    crate::cover!(s, v > 100, "large value");
}

// ---------------------------------------------------------------- concurrent updates through the shared wrapper
//
// Kani has no threads. What other threads can do to the statistics is modelled at the only points where
// they can touch them: lock acquisitions. `std::sync::Mutex::lock` is stubbed (Kani run only) by a function
// that takes the lock and then, nondeterministically, applies a complete `update(w)` of "another thread"
// before handing the guard over. If every wrapper operation performs its whole read-modify-write under ONE
// acquisition, the final statistics contain our update plus every interfering one; an implementation that
// releases the lock in the middle (copy out, update, store back) loses the interfering updates and is refuted.
// Native replay of a counterexample = a real multi-threaded stress run with the same values.

#[cfg(kani)]
static mut INTERFERE_VALUE: u64 = 0;
#[cfg(kani)]
static mut INTERFERE_COUNT: u64 = 0;

#[cfg(kani)]
pub fn stub_mutex_lock<T: ?Sized>(m: &std::sync::Mutex<T>) -> std::sync::LockResult<std::sync::MutexGuard<'_, T>> {
    let mut g = match m.try_lock() {
        Ok(g) => g,
        Err(_) => panic!("lock acquired while already held"),
    };
    unsafe {
        if kani::any::<bool>() && INTERFERE_COUNT < 3 {
            let p = &mut *g as *mut T as *mut CodesStats<2, 3, 2, 2, 2>;
            (*p).update(INTERFERE_VALUE);
            INTERFERE_COUNT += 1;
        }
    }
    Ok(g)
}

/// which: 0 DynamicCodeWrite, 1 DynamicCodeRead, 2 StaticCodeWrite, 3 StaticCodeRead
pub fn wrapper_atomic_step<S: Src, const WHICH: u8>(s: &mut S) {
    let v = s.u64();
    let w = s.u64();
    s.assume(v < (1 << 12) && w < (1 << 12));
    #[cfg(kani)]
    {
        unsafe {
            INTERFERE_VALUE = w;
            INTERFERE_COUNT = 0;
        }
        let wr = CodesStatsWrapper::<Codes, 2, 3, 2, 2, 2>::new(Codes::Gamma);
        let mut a = MS::<BE, true>::new();
        a.write_gamma(v).unwrap();
        a.write_unary(1).unwrap();
        match WHICH {
            0 => {
                let mut b = MS::<BE, true>::new();
                let _ = DynamicCodeWrite::write(&wr, &mut b, v).unwrap();
            }
            1 => {
                let x = DynamicCodeRead::read(&wr, &mut a).unwrap();
                assert_eq!(x, v);
            }
            2 => {
                let mut b = MS::<BE, true>::new();
                let _ = <CodesStatsWrapper<Codes, 2, 3, 2, 2, 2> as StaticCodeWrite<BE, MS<BE, true>>>::write(&wr, &mut b, v).unwrap();
            }
            _ => {
                let x = <CodesStatsWrapper<Codes, 2, 3, 2, 2, 2> as StaticCodeRead<BE, MS<BE, true>>>::read(&wr, &mut a).unwrap();
                assert_eq!(x, v);
            }
        }
        let k = unsafe { INTERFERE_COUNT };
        let (_inner, st) = wr.into_inner();
        let mut exp = CodesStats::<2, 3, 2, 2, 2>::default();
        exp.update(v);
        let mut i = 0;
        while i < 3 {
            if i < k {
                exp.update(w);
            }
            i += 1;
        }
        assert!(st.total == exp.total, "an update performed by another thread between two lock acquisitions of one wrapper operation was lost (element count)");
        assert!(st.gamma == exp.gamma && st.unary == exp.unary && st.delta == exp.delta && st.zeta[1] == exp.zeta[1] && st.golomb[2] == exp.golomb[2], "an update performed by another thread was lost (totals)");
        crate::cover!(s, k >= 1, "interference happened");
    }
    #[cfg(not(kani))]
    {
        // native replay: real threads hammering one shared wrapper
        use std::sync::Arc;
        let wr = Arc::new(CodesStatsWrapper::<Codes, 2, 3, 2, 2, 2>::new(Codes::Gamma));
        let threads = 8;
        let iters = 20_000;
        let mut hs = Vec::new();
        for t in 0..threads {
            let wr = wr.clone();
            let val = if t % 2 == 0 { v } else { w };
            hs.push(std::thread::spawn(move || {
                for _ in 0..iters {
                    let mut src = MS::<BE, true>::new();
                    src.write_gamma(val).unwrap();
                    src.write_unary(1).unwrap();
                    let mut b = MS::<BE, true>::new();
                    match WHICH {
                        0 => {
                            let _ = DynamicCodeWrite::write(&*wr, &mut b, val).unwrap();
                        }
                        1 => {
                            let _ = DynamicCodeRead::read(&*wr, &mut src).unwrap();
                        }
                        2 => {
                            let _ = <CodesStatsWrapper<Codes, 2, 3, 2, 2, 2> as StaticCodeWrite<BE, MS<BE, true>>>::write(&*wr, &mut b, val).unwrap();
                        }
                        _ => {
                            let _ = <CodesStatsWrapper<Codes, 2, 3, 2, 2, 2> as StaticCodeRead<BE, MS<BE, true>>>::read(&*wr, &mut src).unwrap();
                        }
                    }
                }
            }));
        }
        for h in hs {
            h.join().unwrap();
        }
        let total = wr.stats().lock().unwrap().total;
        assert_eq!(total, (threads * iters) as u64, "updates from concurrent threads were lost (element count)");
        let _ = s;
    }
}

crate::harnesses! {
    #[kani::unwind(22)]
    c15_update_default_n12 (quick, "CodesStats<10,20,10,10,10> (default)", "any stats value (fields<2^56), update(n), n<2^12") => update_step::<_, 10, 20, 10, 10, 10, 12, 1, false>;
    #[kani::unwind(22)]
    c15_update_default_n16 (thorough, "CodesStats<10,20,10,10,10> (default)", "any stats value (fields<2^56), update(n), n<2^16") => update_step::<_, 10, 20, 10, 10, 10, 16, 1, false>;
    #[kani::unwind(22)]
    c15_update_many_default (thorough, "CodesStats<10,20,10,10,10> (default)", "any stats value (fields<2^56), update_many(n, count), n<2^12, count<2^8") => update_step::<_, 10, 20, 10, 10, 10, 12, 8, true>;
    #[kani::unwind(22)]
    c15_update_reduced_n40 (quick, "CodesStats<2,3,2,2,2>", "any stats value (fields<2^56), update(n), n<2^40") => update_step::<_, 2, 3, 2, 2, 2, 40, 1, false>;
    #[kani::unwind(22)]
    c15_update_many_reduced (quick, "CodesStats<2,3,2,2,2>", "any stats value (fields<2^56), update_many(n, count), n<2^12, count<2^8") => update_step::<_, 2, 3, 2, 2, 2, 12, 8, true>;
    #[kani::unwind(22)]
    c15_merge_default (quick, "CodesStats<10,20,10,10,10> (default)", "add, +=, +, sum over symbolic statistics (fields<2^56)") => merge_step::<_, 10, 20, 10, 10, 10>;
    #[kani::unwind(22)]
    c15_best_code_default (thorough, "CodesStats<10,20,10,10,10> (default)", "any stats value") => best_code_step::<_, 10, 20, 10, 10, 10>;
    #[kani::unwind(22)]
    c15_best_code_reduced (quick, "CodesStats<2,3,2,2,2>", "any stats value") => best_code_step::<_, 2, 3, 2, 2, 2>;
    #[kani::unwind(12)]
    c15_wrapper_be (quick, "CodesStatsWrapper<Codes,2,3,2,2,2> over MS<BE>", "write then read of a symbolic value < 2^12 through the wrapper (Mutex path)") => wrapper_step::<BE, _>;
    #[kani::unwind(12)]
    c15_wrapper_le (thorough, "CodesStatsWrapper<Codes,2,3,2,2,2> over MS<LE>", "write then read of a symbolic value < 2^12 through the wrapper (Mutex path)") => wrapper_step::<LE, _>;
    #[kani::stub(std::sync::Mutex::lock, stub_mutex_lock)]
    #[kani::unwind(12)]
    c15_atomic_dynwrite (quick, "CodesStatsWrapper<Codes,2,3,2,2,2> dynwrite path under interference at lock acquisitions", "symbolic value and interfering value < 2^12; up to 3 interfering updates by other threads, each at any lock acquisition (Mutex::lock stubbed)") => wrapper_atomic_step::<_, 0>;
    #[kani::stub(std::sync::Mutex::lock, stub_mutex_lock)]
    #[kani::unwind(12)]
    c15_atomic_dynread (quick, "CodesStatsWrapper<Codes,2,3,2,2,2> dynread path under interference at lock acquisitions", "symbolic value and interfering value < 2^12; up to 3 interfering updates by other threads, each at any lock acquisition (Mutex::lock stubbed)") => wrapper_atomic_step::<_, 1>;
    #[kani::stub(std::sync::Mutex::lock, stub_mutex_lock)]
    #[kani::unwind(12)]
    c15_atomic_staticwrite (quick, "CodesStatsWrapper<Codes,2,3,2,2,2> staticwrite path under interference at lock acquisitions", "symbolic value and interfering value < 2^12; up to 3 interfering updates by other threads, each at any lock acquisition (Mutex::lock stubbed)") => wrapper_atomic_step::<_, 2>;
    #[kani::stub(std::sync::Mutex::lock, stub_mutex_lock)]
    #[kani::unwind(12)]
    c15_atomic_staticread (quick, "CodesStatsWrapper<Codes,2,3,2,2,2> staticread path under interference at lock acquisitions", "symbolic value and interfering value < 2^12; up to 3 interfering updates by other threads, each at any lock acquisition (Mutex::lock stubbed)") => wrapper_atomic_step::<_, 3>;
}
