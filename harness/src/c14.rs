//! C14 — counting and tracing wrappers are transparent and count exactly.
//! Inner stream: the model stream `MS<E,T>` (its write length / read cursor are
//! exact bit counters), or a real `BufBitWriter` for flush (the model stream
//! never has pending bits). Every operation reachable through the wrapper is
//! run with symbolic arguments, once through the wrapper and once on a bare
//! copy of the same stream: same result, same bits, same positions, and the
//! wrapper's counter equals the number of bits that reached / left the inner
//! stream.

use crate::c01::{any_writer_state, RN};
use crate::model::*;
use crate::ms::*;
use crate::src::Src;
use core::convert::Infallible;
use dsi_bitstream::prelude::*;

/// A stream that forwards to a model stream living elsewhere (the tracing
/// wrappers have no `into_inner`).
pub struct MsPtr<E: En, const T: bool>(pub *mut MS<E, T>);

impl<E: En, const T: bool> BitWrite<E> for MsPtr<E, T> {
    type Error = Infallible;
    fn write_bits(&mut self, v: u64, n: usize) -> Result<usize, Infallible> {
        unsafe { (*self.0).write_bits(v, n) }
    }
    fn write_unary(&mut self, v: u64) -> Result<usize, Infallible> {
        unsafe { (*self.0).write_unary(v) }
    }
    fn flush(&mut self) -> Result<usize, Infallible> {
        unsafe { (*self.0).flush() }
    }
}
impl<E: En, const T: bool> BitRead<E> for MsPtr<E, T> {
    type Error = Infallible;
    type PeekWord = u64;
    fn read_bits(&mut self, n: usize) -> Result<u64, Infallible> {
        unsafe { (*self.0).read_bits(n) }
    }
    fn peek_bits(&mut self, n: usize) -> Result<u64, Infallible> {
        unsafe { (*self.0).peek_bits(n) }
    }
    fn skip_bits(&mut self, n: usize) -> Result<(), Infallible> {
        unsafe { (*self.0).skip_bits(n) }
    }
    fn skip_bits_after_peek(&mut self, n: usize) {
        unsafe { (*self.0).skip_bits_after_peek(n) }
    }
    fn read_unary(&mut self) -> Result<u64, Infallible> {
        unsafe { (*self.0).read_unary() }
    }
}
macro_rules! impl_ptr_paramless {
    ($e:ty) => {
        impl<const T: bool> GammaRead<$e> for MsPtr<$e, T> {
            fn read_gamma(&mut self) -> Result<u64, Infallible> {
                unsafe { (*self.0).read_gamma() }
            }
        }
        impl<const T: bool> GammaWrite<$e> for MsPtr<$e, T> {
            fn write_gamma(&mut self, n: u64) -> Result<usize, Infallible> {
                unsafe { (*self.0).write_gamma(n) }
            }
        }
        impl<const T: bool> DeltaRead<$e> for MsPtr<$e, T> {
            fn read_delta(&mut self) -> Result<u64, Infallible> {
                unsafe { (*self.0).read_delta() }
            }
        }
        impl<const T: bool> DeltaWrite<$e> for MsPtr<$e, T> {
            fn write_delta(&mut self, n: u64) -> Result<usize, Infallible> {
                unsafe { (*self.0).write_delta(n) }
            }
        }
        impl<const T: bool> ZetaRead<$e> for MsPtr<$e, T> {
            fn read_zeta(&mut self, k: usize) -> Result<u64, Infallible> {
                unsafe { (*self.0).read_zeta(k) }
            }
            fn read_zeta3(&mut self) -> Result<u64, Infallible> {
                unsafe { (*self.0).read_zeta3() }
            }
        }
        impl<const T: bool> ZetaWrite<$e> for MsPtr<$e, T> {
            fn write_zeta(&mut self, n: u64, k: usize) -> Result<usize, Infallible> {
                unsafe { (*self.0).write_zeta(n, k) }
            }
            fn write_zeta3(&mut self, n: u64) -> Result<usize, Infallible> {
                unsafe { (*self.0).write_zeta3(n) }
            }
        }
    };
}
impl_ptr_paramless!(BE);
impl_ptr_paramless!(LE);

/// writer-side operations reachable through the wrappers; `sel` is a concrete const per harness
/// (one family per harness keeps each query small), arguments symbolic
macro_rules! wops {
    ($w:expr, $sel:expr, $v:expr, $k:expr, $n:expr) => {
        match $sel {
            0 => $w.write_bits($v, $n).unwrap(),
            1 => $w.write_unary($v & 63).unwrap(),
            2 => $w.flush().unwrap(),
            3 => $w.write_gamma($v).unwrap(),
            4 => $w.write_delta($v).unwrap(),
            5 => $w.write_zeta($v, 1 + ($k & 7)).unwrap(),
            6 => $w.write_zeta3($v).unwrap(),
            7 => $w.write_omega($v).unwrap(),
            8 => $w.write_pi($v, $k & 7).unwrap(),
            9 => $w.write_rice($v & 4095, 6 + ($k & 7)).unwrap(),
            10 => $w.write_golomb($v & 127, 1 + (($k as u64) & 15)).unwrap(),
            11 => $w.write_exp_golomb($v, $k & 7).unwrap(),
            12 => $w.write_minimal_binary(core::cmp::min($v & 1023, ($k as u64) & 1023), 1 + (($k as u64) & 1023)).unwrap(),
            13 => $w.write_vbyte_be($v).unwrap(),
            14 => $w.write_vbyte_le($v).unwrap(),
            15 => $w.write_gamma_param::<true>($v).unwrap(),
            16 => $w.write_delta_param::<true, false>($v).unwrap(),
            17 => $w.write_zeta3_param::<true>($v).unwrap(),
            _ => $w.write_gamma_param::<false>($v).unwrap(),
        }
    };
}

macro_rules! rops {
    ($r:expr, $sel:expr, $k:expr, $n:expr) => {
        match $sel {
            0 => $r.read_bits($n).unwrap(),
            1 => $r.read_unary().unwrap(),
            2 => {
                $r.skip_bits($n).unwrap();
                0
            }
            3 => $r.read_gamma().unwrap(),
            4 => $r.read_delta().unwrap(),
            5 => $r.read_zeta(1 + ($k & 7)).unwrap(),
            6 => $r.read_zeta3().unwrap(),
            7 => $r.read_omega().unwrap(),
            8 => $r.read_pi($k & 7).unwrap(),
            9 => $r.read_rice(6 + ($k & 7)).unwrap(),
            10 => $r.read_golomb(1 + (($k as u64) & 15)).unwrap(),
            11 => $r.read_exp_golomb($k & 7).unwrap(),
            12 => $r.read_minimal_binary(1 + (($k as u64) & 1023)).unwrap(),
            13 => $r.read_vbyte_be().unwrap(),
            14 => $r.read_vbyte_le().unwrap(),
            15 => $r.read_gamma_param::<true>().unwrap(),
            16 => $r.read_delta_param::<true, false>().unwrap(),
            17 => $r.read_zeta3_param::<true>().unwrap(),
            _ => $r.read_gamma_param::<false>().unwrap(),
        }
    };
}

macro_rules! c14_bodies {
    ($e:ty, $count_w:ident, $count_r:ident, $dbg_w:ident, $dbg_r:ident, $copy:ident) => {
        /// CountBitWriter over MS: op SEL with symbolic arguments
        pub fn $count_w<S: Src, const SEL: u8>(s: &mut S) {
            let off = s.usize_in(0, 16);
            let prefix = s.u64();
            let v = s.u64_in(0, u64::MAX - 1);
            let k = s.usize();
            let n = s.usize_in(0, 64);
            let mut bare = MS::<$e, true>::new();
            bare.write_bits(prefix, off).unwrap();
            let mut cw = CountBitWriter::<$e, _>::new(bare.clone());
            let rw = wops!(cw, SEL, v, k, n);
            let rb = wops!(bare, SEL, v, k, n);
            let cnt = cw.bits_written;
            let inner = cw.into_inner();
            assert_eq!(rw, rb, "wrapper changes the value returned");
            assert!(inner.bits == bare.bits && inner.wlen == bare.wlen, "wrapper changes the bits written");
            assert_eq!(cnt, inner.wlen - off, "bits_written differs from the bits that reached the underlying stream");
            crate::cover!(s, SEL == 2 || inner.wlen > off + 8, "more than a byte written");
        }
        /// CountBitReader over MS: a value is written with the bare stream, then read through the wrapper
        pub fn $count_r<S: Src, const SEL: u8>(s: &mut S) {
            let off = s.usize_in(0, 16);
            let prefix = s.u64();
            let v = s.u64_in(0, u64::MAX - 1);
            let k = s.usize();
            let n = s.usize_in(0, 64);
            let mut ms = MS::<$e, true>::new();
            ms.write_bits(prefix, off).unwrap();
            // for SEL 0..=2 the stream content is raw bits (plus a one so that unary terminates)
            let _ = wops!(ms, if SEL == 2 { 0 } else { SEL }, v, k, n);
            ms.write_unary(3).unwrap();
            ms.write_bits(s.u64(), 64).unwrap();
            ms.rpos = off;
            let mut bare = ms.clone();
            let mut cr = CountBitReader::<$e, _>::new(ms);
            let rw = rops!(cr, SEL, k, n);
            let rb = rops!(bare, SEL, k, n);
            let cnt = cr.bits_read;
            let inner = cr.into_inner();
            assert_eq!(rw, rb, "wrapper changes the value read");
            assert_eq!(inner.rpos, bare.rpos, "wrapper changes the stream position");
            assert_eq!(cnt, inner.rpos - off, "bits_read differs from the bits consumed from the underlying stream");
            crate::cover!(s, inner.rpos > off + 8, "more than a byte read");
        }
        /// DbgBitWriter over a forwarded MS: transparency
        pub fn $dbg_w<S: Src, const SEL: u8>(s: &mut S) {
            let off = s.usize_in(0, 16);
            let prefix = s.u64();
            let v = s.u64_in(0, u64::MAX - 1);
            let k = s.usize();
            let n = s.usize_in(0, 64);
            let mut bare = MS::<$e, true>::new();
            bare.write_bits(prefix, off).unwrap();
            let mut inner = bare.clone();
            let rw = {
                let mut dw = DbgBitWriter::<$e, _>::new(MsPtr::<$e, true>(&mut inner as *mut _));
                wops!(dw, SEL, v, k, n)
            };
            let rb = wops!(bare, SEL, v, k, n);
            assert_eq!(rw, rb, "tracing wrapper changes the value returned");
            assert!(inner.bits == bare.bits && inner.wlen == bare.wlen, "tracing wrapper changes the bits written");
            crate::cover!(s, SEL == 2 || inner.wlen > off + 8, "more than a byte written");
        }
        pub fn $dbg_r<S: Src, const SEL: u8>(s: &mut S) {
            let off = s.usize_in(0, 16);
            let prefix = s.u64();
            let v = s.u64_in(0, u64::MAX - 1);
            let k = s.usize();
            let n = s.usize_in(0, 64);
            let mut ms = MS::<$e, true>::new();
            ms.write_bits(prefix, off).unwrap();
            let _ = wops!(ms, if SEL == 2 { 0 } else { SEL }, v, k, n);
            ms.write_unary(3).unwrap();
            ms.write_bits(s.u64(), 64).unwrap();
            ms.rpos = off;
            let mut bare = ms.clone();
            let rw = {
                let mut dr = DbgBitReader::<$e, _>::new(MsPtr::<$e, true>(&mut ms as *mut _));
                rops!(dr, SEL, k, n)
            };
            let rb = rops!(bare, SEL, k, n);
            assert_eq!(rw, rb, "tracing wrapper changes the value read");
            assert_eq!(ms.rpos, bare.rpos, "tracing wrapper changes the stream position");
            crate::cover!(s, ms.rpos > off + 8, "more than a byte read");
        }
        /// bulk copies through the counting wrappers (default copy_to / copy_from)
        pub fn $copy<S: Src>(s: &mut S) {
            let n = s.usize_in(0, 150);
            let mut src = MS::<$e, true>::new();
            src.bits = U256 { hi: s.u128(), lo: s.u128() };
            src.wlen = CAP;
            src.rpos = s.usize_in(0, 30);
            let r0 = src.rpos;
            let off = s.usize_in(0, 16);
            let mut dst = MS::<$e, true>::new();
            dst.write_bits(s.u64(), off).unwrap();
            let which = s.bool();
            let mut cr = CountBitReader::<$e, _>::new(src);
            let mut cw = CountBitWriter::<$e, _>::new(dst);
            let ok = if which { cr.copy_to(&mut cw, n as u64).is_ok() } else { cw.copy_from(&mut cr, n as u64).is_ok() };
            assert!(ok);
            let (rc, wc) = (cr.bits_read, cw.bits_written);
            let (src, dst) = (cr.into_inner(), cw.into_inner());
            assert_eq!(src.rpos - r0, n, "copy consumed n bits");
            assert_eq!(dst.wlen - off, n, "copy appended n bits");
            assert_eq!(rc, n, "bits_read after a bulk copy");
            assert_eq!(wc, n, "bits_written after a bulk copy");
            crate::cover!(s, n > 128, "several chunks");
        }
    };
}
c14_bodies!(BE, count_w_be, count_r_be, dbg_w_be, dbg_r_be, copy_be);
c14_bodies!(LE, count_w_le, count_r_le, dbg_w_le, dbg_r_le, copy_le);

/// flush through CountBitWriter over a REAL BufBitWriter with pending bits: the counter counts
/// the bits written through the wrapper, flushing adds nothing to the bit stream
pub fn count_flush_real<E: En, S: Src>(s: &mut S)
where
    BufBitWriter<E, Rec<u32, RN>>: BitWrite<E, Error = Infallible>,
{
    let p = any_writer_state::<u32, S>(s);
    let v = s.u64();
    let n = s.usize_in(0, 64);
    if cfg!(feature = "checks") {
        s.assume(n == 64 || v >> n == 0);
    }
    let w = BufBitWriter::<E, Rec<u32, RN>>::verif_from_parts(p.rec, p.buffer, p.space);
    let mut cw = CountBitWriter::<E, _>::new(w);
    let a = cw.write_bits(v, n).unwrap();
    assert_eq!(cw.bits_written, a, "counter after write_bits");
    let _ = cw.flush().unwrap();
    assert_eq!(cw.bits_written, n, "flush must not change the number of bits written to the stream");
    let _ = cw.flush().unwrap();
    assert_eq!(cw.bits_written, n, "second flush must not change the counter");
    crate::cover!(s, (p.f + n) % 32 != 0, "bits pending at flush");
    core::mem::forget(cw);
}

crate::harnesses! {
    #[kani::unwind(6)]
    c14_count_flush_real_be (quick, "CountBitWriter<BE, BufBitWriter<BE,Rec<u32>>>", "any writer state, write_bits(v,n<=64), flush, flush") => count_flush_real::<BE, _>;
    #[kani::unwind(6)]
    c14_count_flush_real_le (quick, "CountBitWriter<LE, BufBitWriter<LE,Rec<u32>>>", "any writer state, write_bits(v,n<=64), flush, flush") => count_flush_real::<LE, _>;
    #[kani::unwind(6)]
    c14_count_copy_be (quick, "CountBitReader/Writer<BE, MS>", "copy_to / copy_from, n<=150") => copy_be;
    #[kani::unwind(6)]
    c14_count_copy_le (quick, "CountBitReader/Writer<LE, MS>", "copy_to / copy_from, n<=150") => copy_le;
    #[kani::unwind(12)]
    c14_count_w_bits_be (quick, "CountBitWriter<BE, MS>", "op write_bits/read_bits; symbolic value/parameter (parameters masked to small ranges), offset<=16") => count_w_be::<_, 0>;
    #[kani::unwind(12)]
    c14_count_w_unary_be (quick, "CountBitWriter<BE, MS>", "op unary; symbolic value/parameter (parameters masked to small ranges), offset<=16") => count_w_be::<_, 1>;
    #[kani::unwind(12)]
    c14_count_w_flushskip_be (quick, "CountBitWriter<BE, MS>", "op flush/skip_bits; symbolic value/parameter (parameters masked to small ranges), offset<=16") => count_w_be::<_, 2>;
    #[kani::unwind(12)]
    c14_count_w_gamma_be (quick, "CountBitWriter<BE, MS>", "op gamma; symbolic value/parameter (parameters masked to small ranges), offset<=16") => count_w_be::<_, 3>;
    #[kani::unwind(12)]
    c14_count_w_delta_be (quick, "CountBitWriter<BE, MS>", "op delta; symbolic value/parameter (parameters masked to small ranges), offset<=16") => count_w_be::<_, 4>;
    #[kani::unwind(12)]
    c14_count_w_zeta_be (quick, "CountBitWriter<BE, MS>", "op zeta_k; symbolic value/parameter (parameters masked to small ranges), offset<=16") => count_w_be::<_, 5>;
    #[kani::unwind(12)]
    c14_count_w_zeta3_be (quick, "CountBitWriter<BE, MS>", "op zeta3; symbolic value/parameter (parameters masked to small ranges), offset<=16") => count_w_be::<_, 6>;
    #[kani::unwind(12)]
    c14_count_w_omega_be (quick, "CountBitWriter<BE, MS>", "op omega; symbolic value/parameter (parameters masked to small ranges), offset<=16") => count_w_be::<_, 7>;
    #[kani::unwind(12)]
    c14_count_w_pi_be (quick, "CountBitWriter<BE, MS>", "op pi; symbolic value/parameter (parameters masked to small ranges), offset<=16") => count_w_be::<_, 8>;
    #[kani::unwind(12)]
    c14_count_w_rice_be (quick, "CountBitWriter<BE, MS>", "op rice; symbolic value/parameter (parameters masked to small ranges), offset<=16") => count_w_be::<_, 9>;
    #[kani::unwind(12)]
    c14_count_w_golomb_be (quick, "CountBitWriter<BE, MS>", "op golomb; symbolic value/parameter (parameters masked to small ranges), offset<=16") => count_w_be::<_, 10>;
    #[kani::unwind(12)]
    c14_count_w_expgolomb_be (quick, "CountBitWriter<BE, MS>", "op exp_golomb; symbolic value/parameter (parameters masked to small ranges), offset<=16") => count_w_be::<_, 11>;
    #[kani::unwind(12)]
    c14_count_w_minbin_be (quick, "CountBitWriter<BE, MS>", "op minimal_binary; symbolic value/parameter (parameters masked to small ranges), offset<=16") => count_w_be::<_, 12>;
    #[kani::unwind(12)]
    c14_count_w_vbytebe_be (quick, "CountBitWriter<BE, MS>", "op vbyte_be; symbolic value/parameter (parameters masked to small ranges), offset<=16") => count_w_be::<_, 13>;
    #[kani::unwind(12)]
    c14_count_w_vbytele_be (quick, "CountBitWriter<BE, MS>", "op vbyte_le; symbolic value/parameter (parameters masked to small ranges), offset<=16") => count_w_be::<_, 14>;
    #[kani::unwind(12)]
    c14_count_w_gammaptab_be (quick, "CountBitWriter<BE, MS>", "op gamma_param_tab; symbolic value/parameter (parameters masked to small ranges), offset<=16") => count_w_be::<_, 15>;
    #[kani::unwind(12)]
    c14_count_w_deltaptab_be (quick, "CountBitWriter<BE, MS>", "op delta_param_tab; symbolic value/parameter (parameters masked to small ranges), offset<=16") => count_w_be::<_, 16>;
    #[kani::unwind(12)]
    c14_count_w_zeta3ptab_be (quick, "CountBitWriter<BE, MS>", "op zeta3_param_tab; symbolic value/parameter (parameters masked to small ranges), offset<=16") => count_w_be::<_, 17>;
    #[kani::unwind(12)]
    c14_count_w_gammapnotab_be (quick, "CountBitWriter<BE, MS>", "op gamma_param_notab; symbolic value/parameter (parameters masked to small ranges), offset<=16") => count_w_be::<_, 18>;
    #[kani::unwind(12)]
    c14_count_w_bits_le (quick, "CountBitWriter<LE, MS>", "op write_bits/read_bits; symbolic value/parameter (parameters masked to small ranges), offset<=16") => count_w_le::<_, 0>;
    #[kani::unwind(12)]
    c14_count_w_unary_le (quick, "CountBitWriter<LE, MS>", "op unary; symbolic value/parameter (parameters masked to small ranges), offset<=16") => count_w_le::<_, 1>;
    #[kani::unwind(12)]
    c14_count_w_flushskip_le (thorough, "CountBitWriter<LE, MS>", "op flush/skip_bits; symbolic value/parameter (parameters masked to small ranges), offset<=16") => count_w_le::<_, 2>;
    #[kani::unwind(12)]
    c14_count_w_gamma_le (thorough, "CountBitWriter<LE, MS>", "op gamma; symbolic value/parameter (parameters masked to small ranges), offset<=16") => count_w_le::<_, 3>;
    #[kani::unwind(12)]
    c14_count_w_delta_le (thorough, "CountBitWriter<LE, MS>", "op delta; symbolic value/parameter (parameters masked to small ranges), offset<=16") => count_w_le::<_, 4>;
    #[kani::unwind(12)]
    c14_count_w_zeta_le (thorough, "CountBitWriter<LE, MS>", "op zeta_k; symbolic value/parameter (parameters masked to small ranges), offset<=16") => count_w_le::<_, 5>;
    #[kani::unwind(12)]
    c14_count_w_zeta3_le (thorough, "CountBitWriter<LE, MS>", "op zeta3; symbolic value/parameter (parameters masked to small ranges), offset<=16") => count_w_le::<_, 6>;
    #[kani::unwind(12)]
    c14_count_w_omega_le (quick, "CountBitWriter<LE, MS>", "op omega; symbolic value/parameter (parameters masked to small ranges), offset<=16") => count_w_le::<_, 7>;
    #[kani::unwind(12)]
    c14_count_w_pi_le (thorough, "CountBitWriter<LE, MS>", "op pi; symbolic value/parameter (parameters masked to small ranges), offset<=16") => count_w_le::<_, 8>;
    #[kani::unwind(12)]
    c14_count_w_rice_le (thorough, "CountBitWriter<LE, MS>", "op rice; symbolic value/parameter (parameters masked to small ranges), offset<=16") => count_w_le::<_, 9>;
    #[kani::unwind(12)]
    c14_count_w_golomb_le (thorough, "CountBitWriter<LE, MS>", "op golomb; symbolic value/parameter (parameters masked to small ranges), offset<=16") => count_w_le::<_, 10>;
    #[kani::unwind(12)]
    c14_count_w_expgolomb_le (thorough, "CountBitWriter<LE, MS>", "op exp_golomb; symbolic value/parameter (parameters masked to small ranges), offset<=16") => count_w_le::<_, 11>;
    #[kani::unwind(12)]
    c14_count_w_minbin_le (thorough, "CountBitWriter<LE, MS>", "op minimal_binary; symbolic value/parameter (parameters masked to small ranges), offset<=16") => count_w_le::<_, 12>;
    #[kani::unwind(12)]
    c14_count_w_vbytebe_le (thorough, "CountBitWriter<LE, MS>", "op vbyte_be; symbolic value/parameter (parameters masked to small ranges), offset<=16") => count_w_le::<_, 13>;
    #[kani::unwind(12)]
    c14_count_w_vbytele_le (thorough, "CountBitWriter<LE, MS>", "op vbyte_le; symbolic value/parameter (parameters masked to small ranges), offset<=16") => count_w_le::<_, 14>;
    #[kani::unwind(12)]
    c14_count_w_gammaptab_le (quick, "CountBitWriter<LE, MS>", "op gamma_param_tab; symbolic value/parameter (parameters masked to small ranges), offset<=16") => count_w_le::<_, 15>;
    #[kani::unwind(12)]
    c14_count_w_deltaptab_le (thorough, "CountBitWriter<LE, MS>", "op delta_param_tab; symbolic value/parameter (parameters masked to small ranges), offset<=16") => count_w_le::<_, 16>;
    #[kani::unwind(12)]
    c14_count_w_zeta3ptab_le (thorough, "CountBitWriter<LE, MS>", "op zeta3_param_tab; symbolic value/parameter (parameters masked to small ranges), offset<=16") => count_w_le::<_, 17>;
    #[kani::unwind(12)]
    c14_count_w_gammapnotab_le (thorough, "CountBitWriter<LE, MS>", "op gamma_param_notab; symbolic value/parameter (parameters masked to small ranges), offset<=16") => count_w_le::<_, 18>;
    #[kani::unwind(12)]
    c14_count_r_bits_be (quick, "CountBitReader<BE, MS>", "op write_bits/read_bits; symbolic value/parameter (parameters masked to small ranges), offset<=16") => count_r_be::<_, 0>;
    #[kani::unwind(12)]
    c14_count_r_unary_be (quick, "CountBitReader<BE, MS>", "op unary; symbolic value/parameter (parameters masked to small ranges), offset<=16") => count_r_be::<_, 1>;
    #[kani::unwind(12)]
    c14_count_r_flushskip_be (quick, "CountBitReader<BE, MS>", "op flush/skip_bits; symbolic value/parameter (parameters masked to small ranges), offset<=16") => count_r_be::<_, 2>;
    #[kani::unwind(12)]
    c14_count_r_gamma_be (quick, "CountBitReader<BE, MS>", "op gamma; symbolic value/parameter (parameters masked to small ranges), offset<=16") => count_r_be::<_, 3>;
    #[kani::unwind(12)]
    c14_count_r_delta_be (quick, "CountBitReader<BE, MS>", "op delta; symbolic value/parameter (parameters masked to small ranges), offset<=16") => count_r_be::<_, 4>;
    #[kani::unwind(12)]
    c14_count_r_zeta_be (quick, "CountBitReader<BE, MS>", "op zeta_k; symbolic value/parameter (parameters masked to small ranges), offset<=16") => count_r_be::<_, 5>;
    #[kani::unwind(12)]
    c14_count_r_zeta3_be (quick, "CountBitReader<BE, MS>", "op zeta3; symbolic value/parameter (parameters masked to small ranges), offset<=16") => count_r_be::<_, 6>;
    #[kani::unwind(12)]
    c14_count_r_omega_be (quick, "CountBitReader<BE, MS>", "op omega; symbolic value/parameter (parameters masked to small ranges), offset<=16") => count_r_be::<_, 7>;
    #[kani::unwind(12)]
    c14_count_r_pi_be (quick, "CountBitReader<BE, MS>", "op pi; symbolic value/parameter (parameters masked to small ranges), offset<=16") => count_r_be::<_, 8>;
    #[kani::unwind(12)]
    c14_count_r_rice_be (quick, "CountBitReader<BE, MS>", "op rice; symbolic value/parameter (parameters masked to small ranges), offset<=16") => count_r_be::<_, 9>;
    #[kani::unwind(12)]
    c14_count_r_golomb_be (quick, "CountBitReader<BE, MS>", "op golomb; symbolic value/parameter (parameters masked to small ranges), offset<=16") => count_r_be::<_, 10>;
    #[kani::unwind(12)]
    c14_count_r_expgolomb_be (quick, "CountBitReader<BE, MS>", "op exp_golomb; symbolic value/parameter (parameters masked to small ranges), offset<=16") => count_r_be::<_, 11>;
    #[kani::unwind(12)]
    c14_count_r_minbin_be (quick, "CountBitReader<BE, MS>", "op minimal_binary; symbolic value/parameter (parameters masked to small ranges), offset<=16") => count_r_be::<_, 12>;
    #[kani::unwind(12)]
    c14_count_r_vbytebe_be (quick, "CountBitReader<BE, MS>", "op vbyte_be; symbolic value/parameter (parameters masked to small ranges), offset<=16") => count_r_be::<_, 13>;
    #[kani::unwind(12)]
    c14_count_r_vbytele_be (quick, "CountBitReader<BE, MS>", "op vbyte_le; symbolic value/parameter (parameters masked to small ranges), offset<=16") => count_r_be::<_, 14>;
    #[kani::unwind(12)]
    c14_count_r_gammaptab_be (quick, "CountBitReader<BE, MS>", "op gamma_param_tab; symbolic value/parameter (parameters masked to small ranges), offset<=16") => count_r_be::<_, 15>;
    #[kani::unwind(12)]
    c14_count_r_deltaptab_be (quick, "CountBitReader<BE, MS>", "op delta_param_tab; symbolic value/parameter (parameters masked to small ranges), offset<=16") => count_r_be::<_, 16>;
    #[kani::unwind(12)]
    c14_count_r_zeta3ptab_be (quick, "CountBitReader<BE, MS>", "op zeta3_param_tab; symbolic value/parameter (parameters masked to small ranges), offset<=16") => count_r_be::<_, 17>;
    #[kani::unwind(12)]
    c14_count_r_gammapnotab_be (quick, "CountBitReader<BE, MS>", "op gamma_param_notab; symbolic value/parameter (parameters masked to small ranges), offset<=16") => count_r_be::<_, 18>;
    #[kani::unwind(12)]
    c14_count_r_bits_le (quick, "CountBitReader<LE, MS>", "op write_bits/read_bits; symbolic value/parameter (parameters masked to small ranges), offset<=16") => count_r_le::<_, 0>;
    #[kani::unwind(12)]
    c14_count_r_unary_le (quick, "CountBitReader<LE, MS>", "op unary; symbolic value/parameter (parameters masked to small ranges), offset<=16") => count_r_le::<_, 1>;
    #[kani::unwind(12)]
    c14_count_r_flushskip_le (thorough, "CountBitReader<LE, MS>", "op flush/skip_bits; symbolic value/parameter (parameters masked to small ranges), offset<=16") => count_r_le::<_, 2>;
    #[kani::unwind(12)]
    c14_count_r_gamma_le (thorough, "CountBitReader<LE, MS>", "op gamma; symbolic value/parameter (parameters masked to small ranges), offset<=16") => count_r_le::<_, 3>;
    #[kani::unwind(12)]
    c14_count_r_delta_le (thorough, "CountBitReader<LE, MS>", "op delta; symbolic value/parameter (parameters masked to small ranges), offset<=16") => count_r_le::<_, 4>;
    #[kani::unwind(12)]
    c14_count_r_zeta_le (thorough, "CountBitReader<LE, MS>", "op zeta_k; symbolic value/parameter (parameters masked to small ranges), offset<=16") => count_r_le::<_, 5>;
    #[kani::unwind(12)]
    c14_count_r_zeta3_le (thorough, "CountBitReader<LE, MS>", "op zeta3; symbolic value/parameter (parameters masked to small ranges), offset<=16") => count_r_le::<_, 6>;
    #[kani::unwind(12)]
    c14_count_r_omega_le (quick, "CountBitReader<LE, MS>", "op omega; symbolic value/parameter (parameters masked to small ranges), offset<=16") => count_r_le::<_, 7>;
    #[kani::unwind(12)]
    c14_count_r_pi_le (thorough, "CountBitReader<LE, MS>", "op pi; symbolic value/parameter (parameters masked to small ranges), offset<=16") => count_r_le::<_, 8>;
    #[kani::unwind(12)]
    c14_count_r_rice_le (thorough, "CountBitReader<LE, MS>", "op rice; symbolic value/parameter (parameters masked to small ranges), offset<=16") => count_r_le::<_, 9>;
    #[kani::unwind(12)]
    c14_count_r_golomb_le (thorough, "CountBitReader<LE, MS>", "op golomb; symbolic value/parameter (parameters masked to small ranges), offset<=16") => count_r_le::<_, 10>;
    #[kani::unwind(12)]
    c14_count_r_expgolomb_le (thorough, "CountBitReader<LE, MS>", "op exp_golomb; symbolic value/parameter (parameters masked to small ranges), offset<=16") => count_r_le::<_, 11>;
    #[kani::unwind(12)]
    c14_count_r_minbin_le (thorough, "CountBitReader<LE, MS>", "op minimal_binary; symbolic value/parameter (parameters masked to small ranges), offset<=16") => count_r_le::<_, 12>;
    #[kani::unwind(12)]
    c14_count_r_vbytebe_le (thorough, "CountBitReader<LE, MS>", "op vbyte_be; symbolic value/parameter (parameters masked to small ranges), offset<=16") => count_r_le::<_, 13>;
    #[kani::unwind(12)]
    c14_count_r_vbytele_le (thorough, "CountBitReader<LE, MS>", "op vbyte_le; symbolic value/parameter (parameters masked to small ranges), offset<=16") => count_r_le::<_, 14>;
    #[kani::unwind(12)]
    c14_count_r_gammaptab_le (quick, "CountBitReader<LE, MS>", "op gamma_param_tab; symbolic value/parameter (parameters masked to small ranges), offset<=16") => count_r_le::<_, 15>;
    #[kani::unwind(12)]
    c14_count_r_deltaptab_le (thorough, "CountBitReader<LE, MS>", "op delta_param_tab; symbolic value/parameter (parameters masked to small ranges), offset<=16") => count_r_le::<_, 16>;
    #[kani::unwind(12)]
    c14_count_r_zeta3ptab_le (thorough, "CountBitReader<LE, MS>", "op zeta3_param_tab; symbolic value/parameter (parameters masked to small ranges), offset<=16") => count_r_le::<_, 17>;
    #[kani::unwind(12)]
    c14_count_r_gammapnotab_le (thorough, "CountBitReader<LE, MS>", "op gamma_param_notab; symbolic value/parameter (parameters masked to small ranges), offset<=16") => count_r_le::<_, 18>;
    #[kani::unwind(12)]
    c14_dbg_w_bits_be (quick, "DbgBitWriter<BE, ->MS>", "op write_bits/read_bits; symbolic value/parameter (parameters masked to small ranges), offset<=16") => dbg_w_be::<_, 0>;
    #[kani::unwind(12)]
    c14_dbg_w_unary_be (thorough, "DbgBitWriter<BE, ->MS>", "op unary; symbolic value/parameter (parameters masked to small ranges), offset<=16") => dbg_w_be::<_, 1>;
    #[kani::unwind(12)]
    c14_dbg_w_flushskip_be (thorough, "DbgBitWriter<BE, ->MS>", "op flush/skip_bits; symbolic value/parameter (parameters masked to small ranges), offset<=16") => dbg_w_be::<_, 2>;
    #[kani::unwind(12)]
    c14_dbg_w_gamma_be (quick, "DbgBitWriter<BE, ->MS>", "op gamma; symbolic value/parameter (parameters masked to small ranges), offset<=16") => dbg_w_be::<_, 3>;
    #[kani::unwind(12)]
    c14_dbg_w_delta_be (thorough, "DbgBitWriter<BE, ->MS>", "op delta; symbolic value/parameter (parameters masked to small ranges), offset<=16") => dbg_w_be::<_, 4>;
    #[kani::unwind(12)]
    c14_dbg_w_zeta_be (thorough, "DbgBitWriter<BE, ->MS>", "op zeta_k; symbolic value/parameter (parameters masked to small ranges), offset<=16") => dbg_w_be::<_, 5>;
    #[kani::unwind(12)]
    c14_dbg_w_zeta3_be (thorough, "DbgBitWriter<BE, ->MS>", "op zeta3; symbolic value/parameter (parameters masked to small ranges), offset<=16") => dbg_w_be::<_, 6>;
    #[kani::unwind(12)]
    c14_dbg_w_omega_be (quick, "DbgBitWriter<BE, ->MS>", "op omega; symbolic value/parameter (parameters masked to small ranges), offset<=16") => dbg_w_be::<_, 7>;
    #[kani::unwind(12)]
    c14_dbg_w_pi_be (thorough, "DbgBitWriter<BE, ->MS>", "op pi; symbolic value/parameter (parameters masked to small ranges), offset<=16") => dbg_w_be::<_, 8>;
    #[kani::unwind(12)]
    c14_dbg_w_rice_be (thorough, "DbgBitWriter<BE, ->MS>", "op rice; symbolic value/parameter (parameters masked to small ranges), offset<=16") => dbg_w_be::<_, 9>;
    #[kani::unwind(12)]
    c14_dbg_w_golomb_be (thorough, "DbgBitWriter<BE, ->MS>", "op golomb; symbolic value/parameter (parameters masked to small ranges), offset<=16") => dbg_w_be::<_, 10>;
    #[kani::unwind(12)]
    c14_dbg_w_expgolomb_be (thorough, "DbgBitWriter<BE, ->MS>", "op exp_golomb; symbolic value/parameter (parameters masked to small ranges), offset<=16") => dbg_w_be::<_, 11>;
    #[kani::unwind(12)]
    c14_dbg_w_minbin_be (thorough, "DbgBitWriter<BE, ->MS>", "op minimal_binary; symbolic value/parameter (parameters masked to small ranges), offset<=16") => dbg_w_be::<_, 12>;
    #[kani::unwind(12)]
    c14_dbg_w_vbytebe_be (thorough, "DbgBitWriter<BE, ->MS>", "op vbyte_be; symbolic value/parameter (parameters masked to small ranges), offset<=16") => dbg_w_be::<_, 13>;
    #[kani::unwind(12)]
    c14_dbg_w_vbytele_be (thorough, "DbgBitWriter<BE, ->MS>", "op vbyte_le; symbolic value/parameter (parameters masked to small ranges), offset<=16") => dbg_w_be::<_, 14>;
    #[kani::unwind(12)]
    c14_dbg_w_gammaptab_be (quick, "DbgBitWriter<BE, ->MS>", "op gamma_param_tab; symbolic value/parameter (parameters masked to small ranges), offset<=16") => dbg_w_be::<_, 15>;
    #[kani::unwind(12)]
    c14_dbg_w_deltaptab_be (thorough, "DbgBitWriter<BE, ->MS>", "op delta_param_tab; symbolic value/parameter (parameters masked to small ranges), offset<=16") => dbg_w_be::<_, 16>;
    #[kani::unwind(12)]
    c14_dbg_w_zeta3ptab_be (thorough, "DbgBitWriter<BE, ->MS>", "op zeta3_param_tab; symbolic value/parameter (parameters masked to small ranges), offset<=16") => dbg_w_be::<_, 17>;
    #[kani::unwind(12)]
    c14_dbg_w_gammapnotab_be (thorough, "DbgBitWriter<BE, ->MS>", "op gamma_param_notab; symbolic value/parameter (parameters masked to small ranges), offset<=16") => dbg_w_be::<_, 18>;
    #[kani::unwind(12)]
    c14_dbg_w_bits_le (thorough, "DbgBitWriter<LE, ->MS>", "op write_bits/read_bits; symbolic value/parameter (parameters masked to small ranges), offset<=16") => dbg_w_le::<_, 0>;
    #[kani::unwind(12)]
    c14_dbg_w_unary_le (thorough, "DbgBitWriter<LE, ->MS>", "op unary; symbolic value/parameter (parameters masked to small ranges), offset<=16") => dbg_w_le::<_, 1>;
    #[kani::unwind(12)]
    c14_dbg_w_flushskip_le (thorough, "DbgBitWriter<LE, ->MS>", "op flush/skip_bits; symbolic value/parameter (parameters masked to small ranges), offset<=16") => dbg_w_le::<_, 2>;
    #[kani::unwind(12)]
    c14_dbg_w_gamma_le (thorough, "DbgBitWriter<LE, ->MS>", "op gamma; symbolic value/parameter (parameters masked to small ranges), offset<=16") => dbg_w_le::<_, 3>;
    #[kani::unwind(12)]
    c14_dbg_w_delta_le (thorough, "DbgBitWriter<LE, ->MS>", "op delta; symbolic value/parameter (parameters masked to small ranges), offset<=16") => dbg_w_le::<_, 4>;
    #[kani::unwind(12)]
    c14_dbg_w_zeta_le (thorough, "DbgBitWriter<LE, ->MS>", "op zeta_k; symbolic value/parameter (parameters masked to small ranges), offset<=16") => dbg_w_le::<_, 5>;
    #[kani::unwind(12)]
    c14_dbg_w_zeta3_le (thorough, "DbgBitWriter<LE, ->MS>", "op zeta3; symbolic value/parameter (parameters masked to small ranges), offset<=16") => dbg_w_le::<_, 6>;
    #[kani::unwind(12)]
    c14_dbg_w_omega_le (thorough, "DbgBitWriter<LE, ->MS>", "op omega; symbolic value/parameter (parameters masked to small ranges), offset<=16") => dbg_w_le::<_, 7>;
    #[kani::unwind(12)]
    c14_dbg_w_pi_le (thorough, "DbgBitWriter<LE, ->MS>", "op pi; symbolic value/parameter (parameters masked to small ranges), offset<=16") => dbg_w_le::<_, 8>;
    #[kani::unwind(12)]
    c14_dbg_w_rice_le (thorough, "DbgBitWriter<LE, ->MS>", "op rice; symbolic value/parameter (parameters masked to small ranges), offset<=16") => dbg_w_le::<_, 9>;
    #[kani::unwind(12)]
    c14_dbg_w_golomb_le (thorough, "DbgBitWriter<LE, ->MS>", "op golomb; symbolic value/parameter (parameters masked to small ranges), offset<=16") => dbg_w_le::<_, 10>;
    #[kani::unwind(12)]
    c14_dbg_w_expgolomb_le (thorough, "DbgBitWriter<LE, ->MS>", "op exp_golomb; symbolic value/parameter (parameters masked to small ranges), offset<=16") => dbg_w_le::<_, 11>;
    #[kani::unwind(12)]
    c14_dbg_w_minbin_le (thorough, "DbgBitWriter<LE, ->MS>", "op minimal_binary; symbolic value/parameter (parameters masked to small ranges), offset<=16") => dbg_w_le::<_, 12>;
    #[kani::unwind(12)]
    c14_dbg_w_vbytebe_le (thorough, "DbgBitWriter<LE, ->MS>", "op vbyte_be; symbolic value/parameter (parameters masked to small ranges), offset<=16") => dbg_w_le::<_, 13>;
    #[kani::unwind(12)]
    c14_dbg_w_vbytele_le (thorough, "DbgBitWriter<LE, ->MS>", "op vbyte_le; symbolic value/parameter (parameters masked to small ranges), offset<=16") => dbg_w_le::<_, 14>;
    #[kani::unwind(12)]
    c14_dbg_w_gammaptab_le (thorough, "DbgBitWriter<LE, ->MS>", "op gamma_param_tab; symbolic value/parameter (parameters masked to small ranges), offset<=16") => dbg_w_le::<_, 15>;
    #[kani::unwind(12)]
    c14_dbg_w_deltaptab_le (thorough, "DbgBitWriter<LE, ->MS>", "op delta_param_tab; symbolic value/parameter (parameters masked to small ranges), offset<=16") => dbg_w_le::<_, 16>;
    #[kani::unwind(12)]
    c14_dbg_w_zeta3ptab_le (thorough, "DbgBitWriter<LE, ->MS>", "op zeta3_param_tab; symbolic value/parameter (parameters masked to small ranges), offset<=16") => dbg_w_le::<_, 17>;
    #[kani::unwind(12)]
    c14_dbg_w_gammapnotab_le (thorough, "DbgBitWriter<LE, ->MS>", "op gamma_param_notab; symbolic value/parameter (parameters masked to small ranges), offset<=16") => dbg_w_le::<_, 18>;
    #[kani::unwind(12)]
    c14_dbg_r_bits_be (quick, "DbgBitReader<BE, ->MS>", "op write_bits/read_bits; symbolic value/parameter (parameters masked to small ranges), offset<=16") => dbg_r_be::<_, 0>;
    #[kani::unwind(12)]
    c14_dbg_r_unary_be (thorough, "DbgBitReader<BE, ->MS>", "op unary; symbolic value/parameter (parameters masked to small ranges), offset<=16") => dbg_r_be::<_, 1>;
    #[kani::unwind(12)]
    c14_dbg_r_flushskip_be (thorough, "DbgBitReader<BE, ->MS>", "op flush/skip_bits; symbolic value/parameter (parameters masked to small ranges), offset<=16") => dbg_r_be::<_, 2>;
    #[kani::unwind(12)]
    c14_dbg_r_gamma_be (quick, "DbgBitReader<BE, ->MS>", "op gamma; symbolic value/parameter (parameters masked to small ranges), offset<=16") => dbg_r_be::<_, 3>;
    #[kani::unwind(12)]
    c14_dbg_r_delta_be (thorough, "DbgBitReader<BE, ->MS>", "op delta; symbolic value/parameter (parameters masked to small ranges), offset<=16") => dbg_r_be::<_, 4>;
    #[kani::unwind(12)]
    c14_dbg_r_zeta_be (thorough, "DbgBitReader<BE, ->MS>", "op zeta_k; symbolic value/parameter (parameters masked to small ranges), offset<=16") => dbg_r_be::<_, 5>;
    #[kani::unwind(12)]
    c14_dbg_r_zeta3_be (thorough, "DbgBitReader<BE, ->MS>", "op zeta3; symbolic value/parameter (parameters masked to small ranges), offset<=16") => dbg_r_be::<_, 6>;
    #[kani::unwind(12)]
    c14_dbg_r_omega_be (quick, "DbgBitReader<BE, ->MS>", "op omega; symbolic value/parameter (parameters masked to small ranges), offset<=16") => dbg_r_be::<_, 7>;
    #[kani::unwind(12)]
    c14_dbg_r_pi_be (thorough, "DbgBitReader<BE, ->MS>", "op pi; symbolic value/parameter (parameters masked to small ranges), offset<=16") => dbg_r_be::<_, 8>;
    #[kani::unwind(12)]
    c14_dbg_r_rice_be (thorough, "DbgBitReader<BE, ->MS>", "op rice; symbolic value/parameter (parameters masked to small ranges), offset<=16") => dbg_r_be::<_, 9>;
    #[kani::unwind(12)]
    c14_dbg_r_golomb_be (thorough, "DbgBitReader<BE, ->MS>", "op golomb; symbolic value/parameter (parameters masked to small ranges), offset<=16") => dbg_r_be::<_, 10>;
    #[kani::unwind(12)]
    c14_dbg_r_expgolomb_be (thorough, "DbgBitReader<BE, ->MS>", "op exp_golomb; symbolic value/parameter (parameters masked to small ranges), offset<=16") => dbg_r_be::<_, 11>;
    #[kani::unwind(12)]
    c14_dbg_r_minbin_be (thorough, "DbgBitReader<BE, ->MS>", "op minimal_binary; symbolic value/parameter (parameters masked to small ranges), offset<=16") => dbg_r_be::<_, 12>;
    #[kani::unwind(12)]
    c14_dbg_r_vbytebe_be (thorough, "DbgBitReader<BE, ->MS>", "op vbyte_be; symbolic value/parameter (parameters masked to small ranges), offset<=16") => dbg_r_be::<_, 13>;
    #[kani::unwind(12)]
    c14_dbg_r_vbytele_be (thorough, "DbgBitReader<BE, ->MS>", "op vbyte_le; symbolic value/parameter (parameters masked to small ranges), offset<=16") => dbg_r_be::<_, 14>;
    #[kani::unwind(12)]
    c14_dbg_r_gammaptab_be (quick, "DbgBitReader<BE, ->MS>", "op gamma_param_tab; symbolic value/parameter (parameters masked to small ranges), offset<=16") => dbg_r_be::<_, 15>;
    #[kani::unwind(12)]
    c14_dbg_r_deltaptab_be (thorough, "DbgBitReader<BE, ->MS>", "op delta_param_tab; symbolic value/parameter (parameters masked to small ranges), offset<=16") => dbg_r_be::<_, 16>;
    #[kani::unwind(12)]
    c14_dbg_r_zeta3ptab_be (thorough, "DbgBitReader<BE, ->MS>", "op zeta3_param_tab; symbolic value/parameter (parameters masked to small ranges), offset<=16") => dbg_r_be::<_, 17>;
    #[kani::unwind(12)]
    c14_dbg_r_gammapnotab_be (thorough, "DbgBitReader<BE, ->MS>", "op gamma_param_notab; symbolic value/parameter (parameters masked to small ranges), offset<=16") => dbg_r_be::<_, 18>;
    #[kani::unwind(12)]
    c14_dbg_r_bits_le (thorough, "DbgBitReader<LE, ->MS>", "op write_bits/read_bits; symbolic value/parameter (parameters masked to small ranges), offset<=16") => dbg_r_le::<_, 0>;
    #[kani::unwind(12)]
    c14_dbg_r_unary_le (thorough, "DbgBitReader<LE, ->MS>", "op unary; symbolic value/parameter (parameters masked to small ranges), offset<=16") => dbg_r_le::<_, 1>;
    #[kani::unwind(12)]
    c14_dbg_r_flushskip_le (thorough, "DbgBitReader<LE, ->MS>", "op flush/skip_bits; symbolic value/parameter (parameters masked to small ranges), offset<=16") => dbg_r_le::<_, 2>;
    #[kani::unwind(12)]
    c14_dbg_r_gamma_le (thorough, "DbgBitReader<LE, ->MS>", "op gamma; symbolic value/parameter (parameters masked to small ranges), offset<=16") => dbg_r_le::<_, 3>;
    #[kani::unwind(12)]
    c14_dbg_r_delta_le (thorough, "DbgBitReader<LE, ->MS>", "op delta; symbolic value/parameter (parameters masked to small ranges), offset<=16") => dbg_r_le::<_, 4>;
    #[kani::unwind(12)]
    c14_dbg_r_zeta_le (thorough, "DbgBitReader<LE, ->MS>", "op zeta_k; symbolic value/parameter (parameters masked to small ranges), offset<=16") => dbg_r_le::<_, 5>;
    #[kani::unwind(12)]
    c14_dbg_r_zeta3_le (thorough, "DbgBitReader<LE, ->MS>", "op zeta3; symbolic value/parameter (parameters masked to small ranges), offset<=16") => dbg_r_le::<_, 6>;
    #[kani::unwind(12)]
    c14_dbg_r_omega_le (thorough, "DbgBitReader<LE, ->MS>", "op omega; symbolic value/parameter (parameters masked to small ranges), offset<=16") => dbg_r_le::<_, 7>;
    #[kani::unwind(12)]
    c14_dbg_r_pi_le (thorough, "DbgBitReader<LE, ->MS>", "op pi; symbolic value/parameter (parameters masked to small ranges), offset<=16") => dbg_r_le::<_, 8>;
    #[kani::unwind(12)]
    c14_dbg_r_rice_le (thorough, "DbgBitReader<LE, ->MS>", "op rice; symbolic value/parameter (parameters masked to small ranges), offset<=16") => dbg_r_le::<_, 9>;
    #[kani::unwind(12)]
    c14_dbg_r_golomb_le (thorough, "DbgBitReader<LE, ->MS>", "op golomb; symbolic value/parameter (parameters masked to small ranges), offset<=16") => dbg_r_le::<_, 10>;
    #[kani::unwind(12)]
    c14_dbg_r_expgolomb_le (thorough, "DbgBitReader<LE, ->MS>", "op exp_golomb; symbolic value/parameter (parameters masked to small ranges), offset<=16") => dbg_r_le::<_, 11>;
    #[kani::unwind(12)]
    c14_dbg_r_minbin_le (thorough, "DbgBitReader<LE, ->MS>", "op minimal_binary; symbolic value/parameter (parameters masked to small ranges), offset<=16") => dbg_r_le::<_, 12>;
    #[kani::unwind(12)]
    c14_dbg_r_vbytebe_le (thorough, "DbgBitReader<LE, ->MS>", "op vbyte_be; symbolic value/parameter (parameters masked to small ranges), offset<=16") => dbg_r_le::<_, 13>;
    #[kani::unwind(12)]
    c14_dbg_r_vbytele_le (thorough, "DbgBitReader<LE, ->MS>", "op vbyte_le; symbolic value/parameter (parameters masked to small ranges), offset<=16") => dbg_r_le::<_, 14>;
    #[kani::unwind(12)]
    c14_dbg_r_gammaptab_le (thorough, "DbgBitReader<LE, ->MS>", "op gamma_param_tab; symbolic value/parameter (parameters masked to small ranges), offset<=16") => dbg_r_le::<_, 15>;
    #[kani::unwind(12)]
    c14_dbg_r_deltaptab_le (thorough, "DbgBitReader<LE, ->MS>", "op delta_param_tab; symbolic value/parameter (parameters masked to small ranges), offset<=16") => dbg_r_le::<_, 16>;
    #[kani::unwind(12)]
    c14_dbg_r_zeta3ptab_le (thorough, "DbgBitReader<LE, ->MS>", "op zeta3_param_tab; symbolic value/parameter (parameters masked to small ranges), offset<=16") => dbg_r_le::<_, 17>;
    #[kani::unwind(12)]
    c14_dbg_r_gammapnotab_le (thorough, "DbgBitReader<LE, ->MS>", "op gamma_param_notab; symbolic value/parameter (parameters masked to small ranges), offset<=16") => dbg_r_le::<_, 18>;
}
