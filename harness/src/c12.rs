//! C12 — std::io::Read / std::io::Write views of a bit stream are byte-exact.
//! Inductive step from an arbitrary writer / reader state (so any starting
//! bit offset and any preceding bit operations), symbolic bytes and length.

use crate::c01::{any_writer_state, post_bit, RN};
use crate::c02::{any_array, Bb, RState, RdOk, Rd, UState, Ub, UbOk};
use crate::model::*;
use crate::src::Src;
use common_traits::DoubleType;
use core::convert::Infallible;
use dsi_bitstream::prelude::*;

type Wr<E, W> = BufBitWriter<E, Rec<W, RN>>;

/// up to 12 symbolic bytes (loop-free: no unwind bound involved)
pub fn any_bytes<S: Src, const L: usize>(s: &mut S) -> [u8; L] {
    any_array::<u8, S, L>(s)
}

#[inline(always)]
fn byte_bit<E: En>(b: u8, t: usize) -> bool {
    // stream order inside a byte: bit 7-t (BE) / t (LE)
    let p = if E::BE { 7 - t } else { t };
    (b >> p) & 1 == 1
}

pub fn io_write_step<E: En, W: VW, S: Src, const L: usize>(s: &mut S)
where
    Wr<E, W>: BitWrite<E, Error = Infallible> + std::io::Write,
{
    let p = any_writer_state::<W, S>(s);
    let (pre0, pre1) = (p.rec.words[0], p.rec.words[1]);
    let buf = any_bytes::<S, L>(s);
    let len = s.usize_in(0, L);
    let idx = s.usize();
    s.assume(idx < p.f + 8 * len);
    let mut w = Wr::<E, W>::verif_from_parts(p.rec, p.buffer, p.space);
    let r = std::io::Write::write(&mut w, &buf[..len]);
    let ok = match &r {
        Ok(n) => *n == len,
        Err(_) => false,
    };
    core::mem::forget(r);
    assert!(ok, "io::Write::write must report the whole slice as transferred");
    let (nb, ns) = w.verif_parts();
    let be = w.verif_backend();
    let k = (p.f + 8 * len) / W::NBITS;
    assert_eq!(be.n, p.n0 + k, "number of delivered words");
    assert!(ns >= 1 && ns <= W::NBITS, "representation invariant");
    assert_eq!(W::NBITS - ns, (p.f + 8 * len) % W::NBITS, "pending count");
    assert!(p.n0 < 1 || be.words[0] == pre0, "delivered word 0 altered");
    assert!(p.n0 < 2 || be.words[1] == pre1, "delivered word 1 altered");
    let expected = if idx < p.f {
        pending_bit::<E, W>(p.buffer, p.space, idx)
    } else {
        let j = (idx - p.f) / 8;
        byte_bit::<E>(buf[j], (idx - p.f) % 8)
    };
    assert_eq!(expected, post_bit::<E, W>(be, p.n0, k, nb, ns, idx), "byte written through io::Write differs from the stream");
    crate::cover!(s, len == L, "longest slice");
    crate::cover!(s, len > 0 && len % 8 != 0 && p.f % 8 != 0, "unaligned, non multiple of 8");
    core::mem::forget(w);
}

pub fn io_read_step<E: En, W: VW + DoubleType, S: Src, const K: usize, const L: usize>(s: &mut S)
where
    Bb<W>: VW,
    Rd<E, W, K>: RdOk<E, W, K> + std::io::Read,
{
    let st = RState::<W, K>::any::<E, S>(s, 2 * W::NBITS - 1);
    let len = s.usize_in(0, L);
    let idx = s.usize();
    let t = s.usize();
    s.assume(len == 0 || idx < 8 * len);
    let mut buf = [0u8; L];
    let mut r = st.reader::<E>();
    let res = std::io::Read::read(&mut r, &mut buf[..len]);
    let ok = match &res {
        Ok(n) => *n == len,
        Err(_) => false,
    };
    core::mem::forget(res);
    assert!(ok, "io::Read::read must fill the whole slice");
    if len > 0 {
        assert_eq!(byte_bit::<E>(buf[idx / 8], idx % 8), st.stream_bit::<E>(idx), "byte read through io::Read differs from the stream");
    }
    st.check_post::<E>(&mut r, 8 * len, t);
    crate::cover!(s, len == L, "longest slice");
    crate::cover!(s, len > 0 && len % 8 != 0 && st.n % 8 != 0, "unaligned, non multiple of 8");
}

pub fn ub_io_read_step<E: En, S: Src, const K: usize, const L: usize>(s: &mut S)
where
    Ub<E, K>: UbOk<E> + std::io::Read,
{
    let st = UState::<K>::any(s);
    let len = s.usize_in(0, L);
    let idx = s.usize();
    s.assume(len == 0 || idx < 8 * len);
    let mut buf = [0u8; L];
    let mut r = st.reader::<E>();
    let res = std::io::Read::read(&mut r, &mut buf[..len]);
    let ok = match &res {
        Ok(n) => *n == len,
        Err(_) => false,
    };
    core::mem::forget(res);
    assert!(ok, "io::Read::read must fill the whole slice");
    if len > 0 {
        assert_eq!(byte_bit::<E>(buf[idx / 8], idx % 8), st.stream_bit::<E>(idx), "byte read through io::Read differs from the stream");
    }
    assert_eq!(r.bit_pos().unwrap(), st.p + 8 * len as u64, "advanced by 8*len");
    crate::cover!(s, len == L, "longest slice");
    crate::cover!(s, len % 8 != 0 && st.p % 8 != 0, "unaligned, non multiple of 8");
}

crate::harnesses! {
    #[kani::unwind(12)]
    c12_write_be_u8 (quick, "BE,u8", "slice len<=5 (2*BYTES+3), any writer state") => io_write_step::<BE, u8, _, 5>;
    #[kani::unwind(12)]
    c12_write_be_u16 (quick, "BE,u16", "slice len<=7, any writer state") => io_write_step::<BE, u16, _, 7>;
    #[kani::unwind(12)]
    c12_write_be_u32 (quick, "BE,u32", "slice len<=11, any writer state") => io_write_step::<BE, u32, _, 11>;
    #[kani::unwind(12)]
    c12_write_be_u64 (quick, "BE,u64", "slice len<=12, any writer state") => io_write_step::<BE, u64, _, 12>;
    #[kani::unwind(12)]
    c12_write_be_u128 (quick, "BE,u128", "slice len<=12, any writer state") => io_write_step::<BE, u128, _, 12>;
    #[kani::unwind(12)]
    c12_write_le_u8 (quick, "LE,u8", "slice len<=5, any writer state") => io_write_step::<LE, u8, _, 5>;
    #[kani::unwind(12)]
    c12_write_le_u16 (quick, "LE,u16", "slice len<=7, any writer state") => io_write_step::<LE, u16, _, 7>;
    #[kani::unwind(12)]
    c12_write_le_u32 (quick, "LE,u32", "slice len<=11, any writer state") => io_write_step::<LE, u32, _, 11>;
    #[kani::unwind(12)]
    c12_write_le_u64 (quick, "LE,u64", "slice len<=12, any writer state") => io_write_step::<LE, u64, _, 12>;
    #[kani::unwind(12)]
    c12_write_le_u128 (quick, "LE,u128", "slice len<=12, any writer state") => io_write_step::<LE, u128, _, 12>;

    #[kani::unwind(12)]
    c12_read_be_u8 (quick, "BE,u8,K=12", "slice len<=10, any Inv_r state") => io_read_step::<BE, u8, _, 12, 10>;
    #[kani::unwind(12)]
    c12_read_be_u16 (quick, "BE,u16,K=8", "slice len<=10, any Inv_r state") => io_read_step::<BE, u16, _, 8, 10>;
    #[kani::unwind(12)]
    c12_read_be_u32 (quick, "BE,u32,K=5", "slice len<=10, any Inv_r state") => io_read_step::<BE, u32, _, 5, 10>;
    #[kani::unwind(12)]
    c12_read_be_u64 (quick, "BE,u64,K=4", "slice len<=10, any Inv_r state") => io_read_step::<BE, u64, _, 4, 10>;
    #[kani::unwind(12)]
    c12_read_le_u8 (quick, "LE,u8,K=12", "slice len<=10, any Inv_r state") => io_read_step::<LE, u8, _, 12, 10>;
    #[kani::unwind(12)]
    c12_read_le_u16 (quick, "LE,u16,K=8", "slice len<=10, any Inv_r state") => io_read_step::<LE, u16, _, 8, 10>;
    #[kani::unwind(12)]
    c12_read_le_u32 (quick, "LE,u32,K=5", "slice len<=10, any Inv_r state") => io_read_step::<LE, u32, _, 5, 10>;
    #[kani::unwind(12)]
    c12_read_le_u64 (quick, "LE,u64,K=4", "slice len<=10, any Inv_r state") => io_read_step::<LE, u64, _, 4, 10>;
    #[kani::unwind(12)]
    c12_read_ub_be (quick, "BE,unbuffered,K=4", "slice len<=10, any bit position") => ub_io_read_step::<BE, _, 4, 10>;
    #[kani::unwind(12)]
    c12_read_ub_le (quick, "LE,unbuffered,K=4", "slice len<=10, any bit position") => ub_io_read_step::<LE, _, 4, 10>;
}
