//! Smoke harness used by the driver to (re)build the dependency graph from
//! /repo's current sources in a fresh target directory.
use crate::src::Src;

pub fn smoke<S: Src>(s: &mut S) {
    let x = s.u8();
    assert!(x as u16 + 1 > 0);
}

crate::harnesses! {
    c00_smoke (quick, "-", "-") => smoke;
}
