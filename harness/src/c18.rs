//! C18 — byte-level VByte functions agree with the bit-stream codes and are complete.

use crate::c02::any_array;
use crate::model::*;
use crate::ms::*;
use crate::spec;
use crate::src::Src;
use dsi_bitstream::prelude::*;

/// array-backed std::io::Write that accepts everything
pub struct FixedSink {
    pub bytes: [u8; 12],
    pub n: usize,
}
impl std::io::Write for FixedSink {
    fn write(&mut self, buf: &[u8]) -> std::io::Result<usize> {
        let mut j = 0;
        while j < buf.len() {
            assert!(self.n < 12, "sink capacity: harness bound too small");
            self.bytes[self.n] = buf[j];
            self.n += 1;
            j += 1;
        }
        Ok(buf.len())
    }
    fn flush(&mut self) -> std::io::Result<()> {
        Ok(())
    }
}
/// array-backed std::io::Read
pub struct FixedSource {
    pub bytes: [u8; 12],
    pub len: usize,
    pub pos: usize,
}
impl std::io::Read for FixedSource {
    fn read(&mut self, buf: &mut [u8]) -> std::io::Result<usize> {
        let mut j = 0;
        while j < buf.len() && self.pos < self.len {
            buf[j] = self.bytes[self.pos];
            self.pos += 1;
            j += 1;
        }
        Ok(j)
    }
}

fn ok<T>(r: std::io::Result<T>) -> Option<T> {
    match r {
        Ok(v) => Some(v),
        Err(e) => {
            core::mem::forget(e);
            None
        }
    }
}

/// encoders: vbyte_write_* and the generic entry point emit exactly the bytes of the definition,
/// lengths step as byte_len_vbyte says (the bit-stream codes are compared with the same definition by
/// c03_w_vbyte*, so io bytes == bit-stream bytes at byte-aligned positions)
pub fn io_write_def<S: Src, const BIG: bool>(s: &mut S) {
    let v = s.u64();
    let j = s.usize();
    let mut sink = FixedSink { bytes: [0; 12], n: 0 };
    let n = if BIG { ok(vbyte_write_be(v, &mut sink)) } else { ok(vbyte_write_le(v, &mut sink)) };
    let l = spec::vbyte_bytes(v);
    assert!(n == Some(l), "vbyte_write_* returns the number of bytes of the definition");
    assert_eq!(sink.n, l, "bytes written");
    assert_eq!(byte_len_vbyte(v), l, "byte_len_vbyte steps at 2^7, 2^7+2^14, ...");
    assert_eq!(bit_len_vbyte(v), 8 * l, "bit_len_vbyte");
    s.assume(j < l);
    assert_eq!(sink.bytes[j], spec::vbyte_byte(v, BIG, j), "byte differs from the complete 7-bit-group code");
    let mut sink2 = FixedSink { bytes: [0; 12], n: 0 };
    let n2 = if BIG { ok(vbyte_write::<BE, _>(v, &mut sink2)) } else { ok(vbyte_write::<LE, _>(v, &mut sink2)) };
    assert!(n2 == Some(l) && sink2.bytes[j] == sink.bytes[j], "vbyte_write::<E> selects the wrong variant");
    crate::cover!(s, l == 10, "ten bytes");
    crate::cover!(s, l == 1, "one byte");
}

/// decoders: vbyte_read_* and the generic entry point invert the encoders (whose bytes are the definition's,
/// by c18_io_write_*) and consume exactly the codeword
pub fn io_read_def<S: Src, const BIG: bool>(s: &mut S) {
    let v = s.u64();
    let mut sink = FixedSink { bytes: [0; 12], n: 0 };
    let n = if BIG { ok(vbyte_write_be(v, &mut sink)) } else { ok(vbyte_write_le(v, &mut sink)) };
    assert!(n.is_some());
    let l = sink.n;
    let generic = s.bool();
    let mut src = FixedSource { bytes: sink.bytes, len: l, pos: 0 };
    let back = match (BIG, generic) {
        (true, false) => ok(vbyte_read_be(&mut src)),
        (false, false) => ok(vbyte_read_le(&mut src)),
        (true, true) => ok(vbyte_read::<BE, _>(&mut src)),
        (false, true) => ok(vbyte_read::<LE, _>(&mut src)),
    };
    assert!(back == Some(v), "vbyte_read does not invert the encoding");
    assert_eq!(src.pos, l, "decoder consumed exactly the codeword");
    crate::cover!(s, l == 10, "ten bytes");
    crate::cover!(s, generic && l == 2, "generic entry point");
}

/// completeness: every terminated byte string of L bytes whose value fits in 64 bits is the encoding
/// of exactly one value; decoding gives it and re-encoding reproduces the string
pub fn completeness<S: Src, const BIG: bool>(s: &mut S) {
    let mut b = any_array::<u8, S, 10>(s);
    let l = s.usize_in(1, 10);
    let j = s.usize();
    s.assume(j < l);
    // continuation bit on all but the last byte
    let mut i = 0;
    while i < 10 {
        if i < l - 1 {
            b[i] |= 0x80;
        } else {
            b[i] &= 0x7f;
        }
        i += 1;
    }
    // value by the definition, in u128
    let mut r: u128 = 0;
    i = 0;
    while i < 10 {
        if i < l {
            let g = (b[i] & 0x7f) as u128;
            let pos = if BIG { l - 1 - i } else { i };
            r |= g << (7 * pos);
        }
        i += 1;
    }
    let val = r + spec::VB_LOWER[l];
    s.assume(val <= u64::MAX as u128);
    let mut bytes = [0u8; 12];
    i = 0;
    while i < 10 {
        bytes[i] = b[i];
        i += 1;
    }
    let mut src = FixedSource { bytes, len: l, pos: 0 };
    let got = if BIG { ok(vbyte_read_be(&mut src)) } else { ok(vbyte_read_le(&mut src)) };
    assert!(got == Some(val as u64), "decoding a terminated byte string does not give its value");
    assert_eq!(src.pos, l, "decoder consumed exactly the string");
    let mut sink = FixedSink { bytes: [0; 12], n: 0 };
    let n = if BIG { ok(vbyte_write_be(val as u64, &mut sink)) } else { ok(vbyte_write_le(val as u64, &mut sink)) };
    assert!(n == Some(l), "re-encoding has a different length: the string is not the unique encoding");
    assert_eq!(sink.bytes[j], b[j], "re-encoding does not reproduce the string");
    crate::cover!(s, l == 10, "ten bytes");
    crate::cover!(s, l == 3, "three bytes");
}

crate::harnesses! {
    #[kani::unwind(12)]
    c18_io_write_be (quick, "vbyte_write_be / vbyte_write::<BE>", "any u64 value") => io_write_def::<_, true>;
    #[kani::unwind(12)]
    c18_io_write_le (quick, "vbyte_write_le / vbyte_write::<LE>", "any u64 value") => io_write_def::<_, false>;
    #[kani::unwind(12)]
    c18_io_read_be (quick, "vbyte_read_be / vbyte_read::<BE>", "any u64 value (bytes of the definition)") => io_read_def::<_, true>;
    #[kani::unwind(12)]
    c18_io_read_le (quick, "vbyte_read_le / vbyte_read::<LE>", "any u64 value (bytes of the definition)") => io_read_def::<_, false>;
    #[kani::unwind(12)]
    c18_complete_be (quick, "VByteBe completeness", "every terminated byte string of 1..=10 bytes with value <= 2^64-1") => completeness::<_, true>;
    #[kani::unwind(12)]
    c18_complete_le (quick, "VByteLe completeness", "every terminated byte string of 1..=10 bytes with value <= 2^64-1") => completeness::<_, false>;
}
