//! C18 — byte-level VByte functions agree with the bit-stream codes and are complete.

use crate::c02::any_array;
use crate::model::*;
use crate::ms::*;
use crate::spec;
use crate::src::Src;
use dsi_bitstream::prelude::*;

/// array-backed std::io::Write that accepts everything
pub struct FixedSink {
    pub bytes: [u8; 12],
    pub n: usize,
}
impl std::io::Write for FixedSink {
    fn write(&mut self, buf: &[u8]) -> std::io::Result<usize> {
        let mut j = 0;
        while j < buf.len() {
            assert!(self.n < 12, "sink capacity: harness bound too small");
            self.bytes[self.n] = buf[j];
            self.n += 1;
            j += 1;
        }
        Ok(buf.len())
    }
    fn flush(&mut self) -> std::io::Result<()> {
        Ok(())
    }
}
/// array-backed std::io::Read
pub struct FixedSource {
    pub bytes: [u8; 12],
    pub len: usize,
    pub pos: usize,
}
impl std::io::Read for FixedSource {
    fn read(&mut self, buf: &mut [u8]) -> std::io::Result<usize> {
        let mut j = 0;
        while j < buf.len() && self.pos < self.len {
            buf[j] = self.bytes[self.pos];
            self.pos += 1;
            j += 1;
        }
        Ok(j)
    }
}

fn ok<T>(r: std::io::Result<T>) -> Option<T> {
    match r {
        Ok(v) => Some(v),
        Err(e) => {
            core::mem::forget(e);
            None
        }
    }
}

/// encoders: vbyte_write_* and the generic entry point emit exactly the bytes of the definition,
/// lengths step as byte_len_vbyte says (the bit-stream codes are compared with the same definition by
/// c03_w_vbyte*, so io bytes == bit-stream bytes at byte-aligned positions)
pub fn io_write_def<S: Src, const BIG: bool>(s: &mut S) {
    let v = s.u64();
    let j = s.usize();
    let mut sink = FixedSink { bytes: [0; 12], n: 0 };
    let n = if BIG { ok(vbyte_write_be(v, &mut sink)) } else { ok(vbyte_write_le(v, &mut sink)) };
    let l = spec::vbyte_bytes(v);
    assert!(n == Some(l), "vbyte_write_* returns the number of bytes of the definition");
    assert_eq!(sink.n, l, "bytes written");
    assert_eq!(byte_len_vbyte(v), l, "byte_len_vbyte steps at 2^7, 2^7+2^14, ...");
    assert_eq!(bit_len_vbyte(v), 8 * l, "bit_len_vbyte");
    s.assume(j < l);
    assert_eq!(sink.bytes[j], spec::vbyte_byte(v, BIG, j), "byte differs from the complete 7-bit-group code");
    let mut sink2 = FixedSink { bytes: [0; 12], n: 0 };
    let n2 = if BIG { ok(vbyte_write::<BE, _>(v, &mut sink2)) } else { ok(vbyte_write::<LE, _>(v, &mut sink2)) };
    assert!(n2 == Some(l) && sink2.bytes[j] == sink.bytes[j], "vbyte_write::<E> selects the wrong variant");
    crate::cover!(s, l == 10, "ten bytes");
    crate::cover!(s, l == 1, "one byte");
}

/// generic decoder entry points select the variant named by their endianness parameter: on an arbitrary
/// terminated string of up to 3 bytes, vbyte_read::<E> equals vbyte_read_be / vbyte_read_le (decoding
/// itself is decided by the completeness harnesses below)
pub fn generic_read_select<S: Src>(s: &mut S) {
    let mut bytes = [0u8; 12];
    bytes[0] = s.u8();
    bytes[1] = s.u8();
    bytes[2] = s.u8() & 0x7f;
    let mut a = FixedSource { bytes, len: 3, pos: 0 };
    let mut b = FixedSource { bytes, len: 3, pos: 0 };
    let big = s.bool();
    let (x, y) = if big { (ok(vbyte_read::<BE, _>(&mut a)), ok(vbyte_read_be(&mut b))) } else { (ok(vbyte_read::<LE, _>(&mut a)), ok(vbyte_read_le(&mut b))) };
    assert!(x.is_some() && x == y && a.pos == b.pos, "vbyte_read::<E> selects the wrong variant");
    crate::cover!(s, a.pos == 3, "three bytes");
    crate::cover!(s, big && a.pos == 2, "two bytes, big-endian variant");
}

/// completeness: every terminated byte string of L bytes whose value fits in 64 bits is the encoding
/// of exactly one value; decoding gives it and re-encoding reproduces the string
pub fn completeness<S: Src, const BIG: bool, const L: usize>(s: &mut S) {
    let mut b = any_array::<u8, S, 10>(s);
    let l = L;
    let j = s.usize();
    s.assume(j < l);
    // continuation bit on all but the last byte
    let mut i = 0;
    while i < 10 {
        if i < l - 1 {
            b[i] |= 0x80;
        } else {
            b[i] &= 0x7f;
        }
        i += 1;
    }
    // value by the definition, in u128
    let mut r: u128 = 0;
    i = 0;
    while i < 10 {
        if i < l {
            let g = (b[i] & 0x7f) as u128;
            let pos = if BIG { l - 1 - i } else { i };
            r |= g << (7 * pos);
        }
        i += 1;
    }
    let val = r + spec::VB_LOWER[l];
    s.assume(val <= u64::MAX as u128);
    let mut bytes = [0u8; 12];
    i = 0;
    while i < 10 {
        bytes[i] = b[i];
        i += 1;
    }
    let mut src = FixedSource { bytes, len: l, pos: 0 };
    let got = if BIG { ok(vbyte_read_be(&mut src)) } else { ok(vbyte_read_le(&mut src)) };
    assert!(got == Some(val as u64), "decoding a terminated byte string does not give its value");
    assert_eq!(src.pos, l, "decoder consumed exactly the string");
    let mut sink = FixedSink { bytes: [0; 12], n: 0 };
    let n = if BIG { ok(vbyte_write_be(val as u64, &mut sink)) } else { ok(vbyte_write_le(val as u64, &mut sink)) };
    assert!(n == Some(l), "re-encoding has a different length: the string is not the unique encoding");
    assert_eq!(sink.bytes[j], b[j], "re-encoding does not reproduce the string");
    crate::cover!(s, val > 0, "non-zero value");
}

crate::harnesses! {
    #[kani::unwind(12)]
    c18_io_write_be (quick, "vbyte_write_be / vbyte_write::<BE>", "any u64 value") => io_write_def::<_, true>;
    #[kani::unwind(12)]
    c18_io_write_le (quick, "vbyte_write_le / vbyte_write::<LE>", "any u64 value") => io_write_def::<_, false>;
    #[kani::unwind(6)]
    c18_generic_read (quick, "vbyte_read::<BE> / vbyte_read::<LE> vs vbyte_read_be / vbyte_read_le", "any terminated byte string of <= 3 bytes") => generic_read_select;
    #[kani::unwind(12)]
    c18_complete_be_l1 (quick, "VByteBe completeness, strings of 1 byte(s)", "every terminated byte string of 1 byte(s) with value <= 2^64-1: decodes to its value, re-encodes to itself") => completeness::<_, true, 1>;
    #[kani::unwind(12)]
    c18_complete_be_l2 (quick, "VByteBe completeness, strings of 2 byte(s)", "every terminated byte string of 2 byte(s) with value <= 2^64-1: decodes to its value, re-encodes to itself") => completeness::<_, true, 2>;
    #[kani::unwind(12)]
    c18_complete_be_l3 (quick, "VByteBe completeness, strings of 3 byte(s)", "every terminated byte string of 3 byte(s) with value <= 2^64-1: decodes to its value, re-encodes to itself") => completeness::<_, true, 3>;
    #[kani::unwind(12)]
    c18_complete_be_l4 (quick, "VByteBe completeness, strings of 4 byte(s)", "every terminated byte string of 4 byte(s) with value <= 2^64-1: decodes to its value, re-encodes to itself") => completeness::<_, true, 4>;
    #[kani::unwind(12)]
    c18_complete_be_l5 (quick, "VByteBe completeness, strings of 5 byte(s)", "every terminated byte string of 5 byte(s) with value <= 2^64-1: decodes to its value, re-encodes to itself") => completeness::<_, true, 5>;
    #[kani::unwind(12)]
    c18_complete_be_l6 (quick, "VByteBe completeness, strings of 6 byte(s)", "every terminated byte string of 6 byte(s) with value <= 2^64-1: decodes to its value, re-encodes to itself") => completeness::<_, true, 6>;
    #[kani::unwind(12)]
    c18_complete_be_l7 (quick, "VByteBe completeness, strings of 7 byte(s)", "every terminated byte string of 7 byte(s) with value <= 2^64-1: decodes to its value, re-encodes to itself") => completeness::<_, true, 7>;
    #[kani::unwind(12)]
    c18_complete_be_l8 (quick, "VByteBe completeness, strings of 8 byte(s)", "every terminated byte string of 8 byte(s) with value <= 2^64-1: decodes to its value, re-encodes to itself") => completeness::<_, true, 8>;
    #[kani::unwind(12)]
    c18_complete_be_l9 (quick, "VByteBe completeness, strings of 9 byte(s)", "every terminated byte string of 9 byte(s) with value <= 2^64-1: decodes to its value, re-encodes to itself") => completeness::<_, true, 9>;
    #[kani::unwind(12)]
    c18_complete_be_l10 (quick, "VByteBe completeness, strings of 10 byte(s)", "every terminated byte string of 10 byte(s) with value <= 2^64-1: decodes to its value, re-encodes to itself") => completeness::<_, true, 10>;
    #[kani::unwind(12)]
    c18_complete_le_l1 (quick, "VByteLe completeness, strings of 1 byte(s)", "every terminated byte string of 1 byte(s) with value <= 2^64-1: decodes to its value, re-encodes to itself") => completeness::<_, false, 1>;
    #[kani::unwind(12)]
    c18_complete_le_l2 (quick, "VByteLe completeness, strings of 2 byte(s)", "every terminated byte string of 2 byte(s) with value <= 2^64-1: decodes to its value, re-encodes to itself") => completeness::<_, false, 2>;
    #[kani::unwind(12)]
    c18_complete_le_l3 (quick, "VByteLe completeness, strings of 3 byte(s)", "every terminated byte string of 3 byte(s) with value <= 2^64-1: decodes to its value, re-encodes to itself") => completeness::<_, false, 3>;
    #[kani::unwind(12)]
    c18_complete_le_l4 (quick, "VByteLe completeness, strings of 4 byte(s)", "every terminated byte string of 4 byte(s) with value <= 2^64-1: decodes to its value, re-encodes to itself") => completeness::<_, false, 4>;
    #[kani::unwind(12)]
    c18_complete_le_l5 (quick, "VByteLe completeness, strings of 5 byte(s)", "every terminated byte string of 5 byte(s) with value <= 2^64-1: decodes to its value, re-encodes to itself") => completeness::<_, false, 5>;
    #[kani::unwind(12)]
    c18_complete_le_l6 (quick, "VByteLe completeness, strings of 6 byte(s)", "every terminated byte string of 6 byte(s) with value <= 2^64-1: decodes to its value, re-encodes to itself") => completeness::<_, false, 6>;
    #[kani::unwind(12)]
    c18_complete_le_l7 (quick, "VByteLe completeness, strings of 7 byte(s)", "every terminated byte string of 7 byte(s) with value <= 2^64-1: decodes to its value, re-encodes to itself") => completeness::<_, false, 7>;
    #[kani::unwind(12)]
    c18_complete_le_l8 (quick, "VByteLe completeness, strings of 8 byte(s)", "every terminated byte string of 8 byte(s) with value <= 2^64-1: decodes to its value, re-encodes to itself") => completeness::<_, false, 8>;
    #[kani::unwind(12)]
    c18_complete_le_l9 (quick, "VByteLe completeness, strings of 9 byte(s)", "every terminated byte string of 9 byte(s) with value <= 2^64-1: decodes to its value, re-encodes to itself") => completeness::<_, false, 9>;
    #[kani::unwind(12)]
    c18_complete_le_l10 (quick, "VByteLe completeness, strings of 10 byte(s)", "every terminated byte string of 10 byte(s) with value <= 2^64-1: decodes to its value, re-encodes to itself") => completeness::<_, false, 10>;
}
