//! C10 — every dispatch mechanism performs exactly the code it names.
//!
//! Oracle: the *name* of the identifier / variant, i.e. (family, parameter),
//! restated here once (`direct_write!` / `direct_read!` / `direct_len`), calling
//! "that code's own method with the same parameter". Streams are model streams
//! `MS<E, true>`; dispatcher and direct call run on two copies of the same
//! stream with the same symbolic value: same bits, same return values, same
//! positions; the dispatcher reads back what it wrote.

use crate::c13::*;
use crate::model::*;
use crate::ms::*;
use crate::src::Src;
use dsi_bitstream::dispatch::code_consts as cc;
use dsi_bitstream::prelude::*;

pub const UNARY: u8 = 0;
pub const GAMMA: u8 = 1;
pub const DELTA: u8 = 2;
pub const OMEGA: u8 = 3;
pub const VBYTE_BE: u8 = 4;
pub const VBYTE_LE: u8 = 5;
pub const ZETA: u8 = 6;
pub const PI: u8 = 7;
pub const GOLOMB: u8 = 8;
pub const EXP_GOLOMB: u8 = 9;
pub const RICE: u8 = 10;

/// value domain of (family, parameter) such that the codeword fits the model stream
#[inline(always)]
pub fn dom(fam: u8, k: usize, v: u64) -> bool {
    match fam {
        UNARY => v <= 150,
        RICE => k <= 63 && (v >> k) <= 120,
        GOLOMB => k >= 1 && v < 120 * k as u64,
        VBYTE_BE | VBYTE_LE => true,
        ZETA => k >= 1 && k <= 63 && v < u64::MAX,
        PI | EXP_GOLOMB => k <= 63 && v < u64::MAX,
        _ => v < u64::MAX,
    }
}

pub fn codes_from(fam: u8, k: usize) -> Codes {
    match fam {
        UNARY => Codes::Unary,
        GAMMA => Codes::Gamma,
        DELTA => Codes::Delta,
        OMEGA => Codes::Omega,
        VBYTE_BE => Codes::VByteBe,
        VBYTE_LE => Codes::VByteLe,
        ZETA => Codes::Zeta { k },
        PI => Codes::Pi { k },
        GOLOMB => Codes::Golomb { b: k },
        EXP_GOLOMB => Codes::ExpGolomb { k },
        _ => Codes::Rice { log2_b: k },
    }
}

#[inline(always)]
pub fn direct_len(fam: u8, k: usize, v: u64) -> usize {
    match fam {
        UNARY => v as usize + 1,
        GAMMA => len_gamma(v),
        DELTA => len_delta(v),
        OMEGA => len_omega(v),
        VBYTE_BE | VBYTE_LE => bit_len_vbyte(v),
        ZETA => len_zeta(v, k),
        PI => len_pi(v, k),
        GOLOMB => len_golomb(v, k as u64),
        EXP_GOLOMB => len_exp_golomb(v, k),
        _ => len_rice(v, k),
    }
}

macro_rules! direct_write {
    ($w:expr, $fam:expr, $k:expr, $v:expr) => {
        match $fam {
            UNARY => $w.write_unary($v).unwrap(),
            GAMMA => $w.write_gamma($v).unwrap(),
            DELTA => $w.write_delta($v).unwrap(),
            OMEGA => $w.write_omega($v).unwrap(),
            VBYTE_BE => $w.write_vbyte_be($v).unwrap(),
            VBYTE_LE => $w.write_vbyte_le($v).unwrap(),
            ZETA => $w.write_zeta($v, $k).unwrap(),
            PI => $w.write_pi($v, $k).unwrap(),
            GOLOMB => $w.write_golomb($v, $k as u64).unwrap(),
            EXP_GOLOMB => $w.write_exp_golomb($v, $k).unwrap(),
            _ => $w.write_rice($v, $k).unwrap(),
        }
    };
}
macro_rules! direct_read {
    ($r:expr, $fam:expr, $k:expr) => {
        match $fam {
            UNARY => $r.read_unary().unwrap(),
            GAMMA => $r.read_gamma().unwrap(),
            DELTA => $r.read_delta().unwrap(),
            OMEGA => $r.read_omega().unwrap(),
            VBYTE_BE => $r.read_vbyte_be().unwrap(),
            VBYTE_LE => $r.read_vbyte_le().unwrap(),
            ZETA => $r.read_zeta($k).unwrap(),
            PI => $r.read_pi($k).unwrap(),
            GOLOMB => $r.read_golomb($k as u64).unwrap(),
            EXP_GOLOMB => $r.read_exp_golomb($k).unwrap(),
            _ => $r.read_rice($k).unwrap(),
        }
    };
}

/// A reader factory over a model stream: every reader is a fresh cursor on the same bits.
pub struct MsFactory<E: En> {
    pub ms: MS<E, true>,
}
macro_rules! impl_factory {
    ($e:ty) => {
        impl CodesReaderFactory<$e> for MsFactory<$e> {
            type CodesReader<'a>
                = MS<$e, true>
            where
                Self: 'a;
            fn new_reader(&self) -> MS<$e, true> {
                self.ms.clone()
            }
        }
    };
}
impl_factory!(BE);
impl_factory!(LE);

#[inline(always)]
fn ok_or_forget<T>(r: anyhow::Result<T>) -> Option<T> {
    match r {
        Ok(v) => Some(v),
        Err(e) => {
            core::mem::forget(e);
            None
        }
    }
}

/// Shared comparison: `$disp_write` / `$disp_read` / `$disp_len` are expressions using the
/// identifiers `w` (a stream) and `v`.
macro_rules! compare {
    ($s:ident, $e:ty, $fam:expr, $k:expr, |$w:ident, $v:ident| $dw:expr, |$r:ident| $dr:expr, |$lv:ident| $dl:expr) => {{
        let $v = $s.u64();
        $s.assume(dom($fam, $k, $v));
        let off = $s.usize_in(0, 8);
        let prefix = $s.u64();
        let sentinel = $s.u64();
        let mut a = MS::<$e, true>::new();
        a.write_bits(prefix, off).unwrap();
        let mut b = a.clone();
        let ra: usize = {
            let $w = &mut a;
            $dw
        };
        let rb: usize = direct_write!(b, $fam, $k, $v);
        assert_eq!(ra, rb, "dispatcher write returns a different length than the code's own method");
        assert!(a.bits == b.bits && a.wlen == b.wlen, "dispatcher write emits different bits than the code's own method");
        let l: usize = {
            let $lv = $v;
            $dl
        };
        assert_eq!(l, direct_len($fam, $k, $v), "dispatcher len differs from the code's own length function");
        a.write_bits(sentinel, 64).unwrap();
        a.rpos = off;
        let mut b2 = a.clone();
        let x: u64 = {
            let $r = &mut a;
            $dr
        };
        let y: u64 = direct_read!(b2, $fam, $k);
        assert_eq!(x, y, "dispatcher read returns a different value than the code's own method");
        assert_eq!(a.rpos, b2.rpos, "dispatcher read consumes a different number of bits");
        // "reading with the dispatcher what it wrote returns the value" and "len == bits written" follow from
        // these equalities with the code's own methods and C03 / C06 (checked there for every code)
        crate::cover!($s, $v > 100, "large value");
    }};
}

macro_rules! c10_bodies {
    ($e:ty, $const_code:ident, $codes:ident, $codes_sym:ident, $func:ident, $func_rej:ident, $factory:ident, $const_static:ident, $codes_static:ident) => {
        /// compile-time constants: ConstCode<ID> through its inherent methods, the Static* traits and CodeLen
        pub fn $const_code<S: Src, const ID: usize, const FAM: u8, const K: usize>(s: &mut S) {
            compare!(s, $e, FAM, K,
                |w, v| ConstCode::<ID>.write(w, v).unwrap(),
                |r| ConstCode::<ID>.read(r).unwrap(),
                |v| CodeLen::len(&ConstCode::<ID>, v));
        }
        /// the Static* trait impls of ConstCode<ID>
        pub fn $const_static<S: Src, const ID: usize, const FAM: u8, const K: usize>(s: &mut S) {
            let v = s.u64();
            s.assume(dom(FAM, K, v));
            let mut a = MS::<$e, true>::new();
            let mut b = MS::<$e, true>::new();
            let ra = <ConstCode<ID> as StaticCodeWrite<$e, MS<$e, true>>>::write(&ConstCode::<ID>, &mut a, v).unwrap();
            let rb = direct_write!(b, FAM, K, v);
            assert!(ra == rb && a.bits == b.bits && a.wlen == b.wlen, "StaticCodeWrite impl differs from the code's own method");
            a.write_unary(2).unwrap();
            let mut b3 = a.clone();
            let x = <ConstCode<ID> as StaticCodeRead<$e, MS<$e, true>>>::read(&ConstCode::<ID>, &mut a).unwrap();
            let y: u64 = direct_read!(b3, FAM, K);
            assert!(x == y && a.rpos == b3.rpos, "StaticCodeRead impl differs from the code's own method");
            crate::cover!(s, v > 100, "large value");
        }
        /// enumeration variant with a concrete parameter (so the matching arm is the one for that parameter)
        pub fn $codes<S: Src, const FAM: u8, const K: usize>(s: &mut S) {
            let code = codes_from(FAM, K);
            compare!(s, $e, FAM, K,
                |w, v| code.write(w, v).unwrap(),
                |r| code.read(r).unwrap(),
                |v| CodeLen::len(&code, v));
        }
        /// the Static* trait impls of Codes
        pub fn $codes_static<S: Src, const FAM: u8, const K: usize>(s: &mut S) {
            let code = codes_from(FAM, K);
            let v = s.u64();
            s.assume(dom(FAM, K, v));
            let mut a = MS::<$e, true>::new();
            let mut b = MS::<$e, true>::new();
            let ra = <Codes as StaticCodeWrite<$e, MS<$e, true>>>::write(&code, &mut a, v).unwrap();
            let rb = direct_write!(b, FAM, K, v);
            assert!(ra == rb && a.bits == b.bits && a.wlen == b.wlen, "StaticCodeWrite impl differs from the code's own method");
            a.write_unary(2).unwrap();
            let mut b3 = a.clone();
            let x = <Codes as StaticCodeRead<$e, MS<$e, true>>>::read(&code, &mut a).unwrap();
            let y: u64 = direct_read!(b3, FAM, K);
            assert!(x == y && a.rpos == b3.rpos, "StaticCodeRead impl differs from the code's own method");
            crate::cover!(s, v > 100, "large value");
        }
        /// enumeration variant with a symbolic parameter beyond the special-cased ones (catch-all arms)
        pub fn $codes_sym<S: Src, const FAM: u8>(s: &mut S) {
            let k = s.usize_in(11, if FAM == GOLOMB { 64 } else { 63 });
            let code = codes_from(FAM, k);
            compare!(s, $e, FAM, k,
                |w, v| code.write(w, v).unwrap(),
                |r| code.read(r).unwrap(),
                |v| CodeLen::len(&code, v));
        }
        /// function-pointer dispatchers built from the enumeration
        pub fn $func<S: Src, const FAM: u8, const K: usize>(s: &mut S) {
            let code = codes_from(FAM, K);
            let fw = ok_or_forget(FuncCodeWriter::<$e, MS<$e, true>>::new(code));
            let fr = ok_or_forget(FuncCodeReader::<$e, MS<$e, true>>::new(code));
            let fl = ok_or_forget(FuncCodeLen::new(code));
            if K > 10 {
                // beyond the documented set a dispatcher may refuse; if it accepts, it must perform that code
                crate::cover!(s, true, "reached");
                if fw.is_none() || fr.is_none() || fl.is_none() {
                    return;
                }
            }
            assert!(fw.is_some() && fr.is_some() && fl.is_some(), "supported code rejected by a function-pointer dispatcher");
            let (fw, fr, fl) = (fw.unwrap(), fr.unwrap(), fl.unwrap());
            compare!(s, $e, FAM, K,
                |w, v| fw.write(w, v).unwrap(),
                |r| fr.read(r).unwrap(),
                |v| fl.len(v));
        }
        /// reader factories: FactoryFuncCodeReader::new(code), through get() and inner()
        pub fn $factory<S: Src, const FAM: u8, const K: usize>(s: &mut S) {
            let code = codes_from(FAM, K);
            let fr = ok_or_forget(FactoryFuncCodeReader::<$e, MsFactory<$e>>::new(code));
            assert!(fr.is_some(), "supported code rejected by the factory dispatcher");
            let fr = fr.unwrap();
            let v = s.u64();
            s.assume(dom(FAM, K, v));
            let off = s.usize_in(0, 8);
            let mut ms = MS::<$e, true>::new();
            ms.write_bits(s.u64(), off).unwrap();
            let _ = direct_write!(ms, FAM, K, v);
            ms.write_bits(s.u64(), 64).unwrap();
            ms.rpos = off;
            let factory = MsFactory::<$e> { ms };
            let mut r1 = factory.new_reader();
            let mut r2 = factory.new_reader();
            let mut r3 = factory.new_reader();
            let x = fr.get().read(&mut r1).unwrap();
            let z = (fr.inner())(&mut r2).unwrap();
            let y: u64 = direct_read!(r3, FAM, K);
            assert!(x == y && z == y, "factory dispatcher read returns a different value than the code's own method");
            assert!(r1.rpos == r3.rpos && r2.rpos == r3.rpos, "factory dispatcher read consumes a different number of bits");
            crate::cover!(s, v > 100, "large value");
        }
        /// parameters without a function-pointer entry are rejected, not mapped to some other code
        pub fn $func_rej<S: Src, const FAM: u8, const K: usize>(s: &mut S) {
            let code = codes_from(FAM, K);
            let fw = ok_or_forget(FuncCodeWriter::<$e, MS<$e, true>>::new(code));
            let fr = ok_or_forget(FuncCodeReader::<$e, MS<$e, true>>::new(code));
            let fl = ok_or_forget(FuncCodeLen::new(code));
            assert!(fw.is_none() && fr.is_none() && fl.is_none(), "unsupported parameter accepted by a function-pointer dispatcher");
            crate::cover!(s, true, "reached");
        }
    };
}
c10_bodies!(BE, const_code_be, codes_be, codes_sym_be, func_be, func_rej_be, factory_be, const_static_be, codes_static_be);
c10_bodies!(LE, const_code_le, codes_le, codes_sym_le, func_le, func_rej_le, factory_le, const_static_le, codes_static_le);

crate::harnesses! {
    #[kani::unwind(12)]
    c10_const_unary_be (quick, "ConstCode<code_consts::UNARY>, BE stream", "write/read/len vs unary(0); symbolic value (domain of the code), offset<=8") => const_code_be::<_, {cc::UNARY}, {UNARY}, 0>;
    #[kani::unwind(12)]
    c10_conststatic_unary_be (thorough, "ConstCode<code_consts::UNARY>, BE stream (StaticCodeRead/StaticCodeWrite impls)", "Static* trait impls vs the code own method; symbolic value") => const_static_be::<_, {cc::UNARY}, {UNARY}, 0>;
    #[kani::unwind(12)]
    c10_const_unary_le (thorough, "ConstCode<code_consts::UNARY>, LE stream", "write/read/len vs unary(0); symbolic value (domain of the code), offset<=8") => const_code_le::<_, {cc::UNARY}, {UNARY}, 0>;
    #[kani::unwind(12)]
    c10_conststatic_unary_le (thorough, "ConstCode<code_consts::UNARY>, LE stream (StaticCodeRead/StaticCodeWrite impls)", "Static* trait impls vs the code own method; symbolic value") => const_static_le::<_, {cc::UNARY}, {UNARY}, 0>;
    #[kani::unwind(12)]
    c10_const_gamma_be (quick, "ConstCode<code_consts::GAMMA>, BE stream", "write/read/len vs gamma(0); symbolic value (domain of the code), offset<=8") => const_code_be::<_, {cc::GAMMA}, {GAMMA}, 0>;
    #[kani::unwind(12)]
    c10_conststatic_gamma_be (quick, "ConstCode<code_consts::GAMMA>, BE stream (StaticCodeRead/StaticCodeWrite impls)", "Static* trait impls vs the code own method; symbolic value") => const_static_be::<_, {cc::GAMMA}, {GAMMA}, 0>;
    #[kani::unwind(12)]
    c10_const_gamma_le (thorough, "ConstCode<code_consts::GAMMA>, LE stream", "write/read/len vs gamma(0); symbolic value (domain of the code), offset<=8") => const_code_le::<_, {cc::GAMMA}, {GAMMA}, 0>;
    #[kani::unwind(12)]
    c10_conststatic_gamma_le (thorough, "ConstCode<code_consts::GAMMA>, LE stream (StaticCodeRead/StaticCodeWrite impls)", "Static* trait impls vs the code own method; symbolic value") => const_static_le::<_, {cc::GAMMA}, {GAMMA}, 0>;
    #[kani::unwind(12)]
    c10_const_delta_be (thorough, "ConstCode<code_consts::DELTA>, BE stream", "write/read/len vs delta(0); symbolic value (domain of the code), offset<=8") => const_code_be::<_, {cc::DELTA}, {DELTA}, 0>;
    #[kani::unwind(12)]
    c10_conststatic_delta_be (thorough, "ConstCode<code_consts::DELTA>, BE stream (StaticCodeRead/StaticCodeWrite impls)", "Static* trait impls vs the code own method; symbolic value") => const_static_be::<_, {cc::DELTA}, {DELTA}, 0>;
    #[kani::unwind(12)]
    c10_const_delta_le (thorough, "ConstCode<code_consts::DELTA>, LE stream", "write/read/len vs delta(0); symbolic value (domain of the code), offset<=8") => const_code_le::<_, {cc::DELTA}, {DELTA}, 0>;
    #[kani::unwind(12)]
    c10_conststatic_delta_le (thorough, "ConstCode<code_consts::DELTA>, LE stream (StaticCodeRead/StaticCodeWrite impls)", "Static* trait impls vs the code own method; symbolic value") => const_static_le::<_, {cc::DELTA}, {DELTA}, 0>;
    #[kani::unwind(12)]
    c10_const_omega_be (thorough, "ConstCode<code_consts::OMEGA>, BE stream", "write/read/len vs omega(0); symbolic value (domain of the code), offset<=8") => const_code_be::<_, {cc::OMEGA}, {OMEGA}, 0>;
    #[kani::unwind(12)]
    c10_conststatic_omega_be (thorough, "ConstCode<code_consts::OMEGA>, BE stream (StaticCodeRead/StaticCodeWrite impls)", "Static* trait impls vs the code own method; symbolic value") => const_static_be::<_, {cc::OMEGA}, {OMEGA}, 0>;
    #[kani::unwind(12)]
    c10_const_omega_le (thorough, "ConstCode<code_consts::OMEGA>, LE stream", "write/read/len vs omega(0); symbolic value (domain of the code), offset<=8") => const_code_le::<_, {cc::OMEGA}, {OMEGA}, 0>;
    #[kani::unwind(12)]
    c10_conststatic_omega_le (thorough, "ConstCode<code_consts::OMEGA>, LE stream (StaticCodeRead/StaticCodeWrite impls)", "Static* trait impls vs the code own method; symbolic value") => const_static_le::<_, {cc::OMEGA}, {OMEGA}, 0>;
    #[kani::unwind(12)]
    c10_const_vbyte_be_be (thorough, "ConstCode<code_consts::VBYTE_BE>, BE stream", "write/read/len vs vbyte_be(0); symbolic value (domain of the code), offset<=8") => const_code_be::<_, {cc::VBYTE_BE}, {VBYTE_BE}, 0>;
    #[kani::unwind(12)]
    c10_conststatic_vbyte_be_be (thorough, "ConstCode<code_consts::VBYTE_BE>, BE stream (StaticCodeRead/StaticCodeWrite impls)", "Static* trait impls vs the code own method; symbolic value") => const_static_be::<_, {cc::VBYTE_BE}, {VBYTE_BE}, 0>;
    #[kani::unwind(12)]
    c10_const_vbyte_be_le (thorough, "ConstCode<code_consts::VBYTE_BE>, LE stream", "write/read/len vs vbyte_be(0); symbolic value (domain of the code), offset<=8") => const_code_le::<_, {cc::VBYTE_BE}, {VBYTE_BE}, 0>;
    #[kani::unwind(12)]
    c10_conststatic_vbyte_be_le (thorough, "ConstCode<code_consts::VBYTE_BE>, LE stream (StaticCodeRead/StaticCodeWrite impls)", "Static* trait impls vs the code own method; symbolic value") => const_static_le::<_, {cc::VBYTE_BE}, {VBYTE_BE}, 0>;
    #[kani::unwind(12)]
    c10_const_vbyte_le_be (quick, "ConstCode<code_consts::VBYTE_LE>, BE stream", "write/read/len vs vbyte_le(0); symbolic value (domain of the code), offset<=8") => const_code_be::<_, {cc::VBYTE_LE}, {VBYTE_LE}, 0>;
    #[kani::unwind(12)]
    c10_conststatic_vbyte_le_be (thorough, "ConstCode<code_consts::VBYTE_LE>, BE stream (StaticCodeRead/StaticCodeWrite impls)", "Static* trait impls vs the code own method; symbolic value") => const_static_be::<_, {cc::VBYTE_LE}, {VBYTE_LE}, 0>;
    #[kani::unwind(12)]
    c10_const_vbyte_le_le (thorough, "ConstCode<code_consts::VBYTE_LE>, LE stream", "write/read/len vs vbyte_le(0); symbolic value (domain of the code), offset<=8") => const_code_le::<_, {cc::VBYTE_LE}, {VBYTE_LE}, 0>;
    #[kani::unwind(12)]
    c10_conststatic_vbyte_le_le (thorough, "ConstCode<code_consts::VBYTE_LE>, LE stream (StaticCodeRead/StaticCodeWrite impls)", "Static* trait impls vs the code own method; symbolic value") => const_static_le::<_, {cc::VBYTE_LE}, {VBYTE_LE}, 0>;
    #[kani::unwind(12)]
    c10_const_zeta1_be (quick, "ConstCode<code_consts::ZETA1>, BE stream", "write/read/len vs zeta(1); symbolic value (domain of the code), offset<=8") => const_code_be::<_, {cc::ZETA1}, {ZETA}, 1>;
    #[kani::unwind(12)]
    c10_conststatic_zeta1_be (thorough, "ConstCode<code_consts::ZETA1>, BE stream (StaticCodeRead/StaticCodeWrite impls)", "Static* trait impls vs the code own method; symbolic value") => const_static_be::<_, {cc::ZETA1}, {ZETA}, 1>;
    #[kani::unwind(12)]
    c10_const_zeta1_le (thorough, "ConstCode<code_consts::ZETA1>, LE stream", "write/read/len vs zeta(1); symbolic value (domain of the code), offset<=8") => const_code_le::<_, {cc::ZETA1}, {ZETA}, 1>;
    #[kani::unwind(12)]
    c10_conststatic_zeta1_le (thorough, "ConstCode<code_consts::ZETA1>, LE stream (StaticCodeRead/StaticCodeWrite impls)", "Static* trait impls vs the code own method; symbolic value") => const_static_le::<_, {cc::ZETA1}, {ZETA}, 1>;
    #[kani::unwind(12)]
    c10_const_zeta2_be (thorough, "ConstCode<code_consts::ZETA2>, BE stream", "write/read/len vs zeta(2); symbolic value (domain of the code), offset<=8") => const_code_be::<_, {cc::ZETA2}, {ZETA}, 2>;
    #[kani::unwind(12)]
    c10_conststatic_zeta2_be (thorough, "ConstCode<code_consts::ZETA2>, BE stream (StaticCodeRead/StaticCodeWrite impls)", "Static* trait impls vs the code own method; symbolic value") => const_static_be::<_, {cc::ZETA2}, {ZETA}, 2>;
    #[kani::unwind(12)]
    c10_const_zeta2_le (thorough, "ConstCode<code_consts::ZETA2>, LE stream", "write/read/len vs zeta(2); symbolic value (domain of the code), offset<=8") => const_code_le::<_, {cc::ZETA2}, {ZETA}, 2>;
    #[kani::unwind(12)]
    c10_conststatic_zeta2_le (thorough, "ConstCode<code_consts::ZETA2>, LE stream (StaticCodeRead/StaticCodeWrite impls)", "Static* trait impls vs the code own method; symbolic value") => const_static_le::<_, {cc::ZETA2}, {ZETA}, 2>;
    #[kani::unwind(12)]
    c10_const_zeta3_be (thorough, "ConstCode<code_consts::ZETA3>, BE stream", "write/read/len vs zeta(3); symbolic value (domain of the code), offset<=8") => const_code_be::<_, {cc::ZETA3}, {ZETA}, 3>;
    #[kani::unwind(12)]
    c10_conststatic_zeta3_be (thorough, "ConstCode<code_consts::ZETA3>, BE stream (StaticCodeRead/StaticCodeWrite impls)", "Static* trait impls vs the code own method; symbolic value") => const_static_be::<_, {cc::ZETA3}, {ZETA}, 3>;
    #[kani::unwind(12)]
    c10_const_zeta3_le (quick, "ConstCode<code_consts::ZETA3>, LE stream", "write/read/len vs zeta(3); symbolic value (domain of the code), offset<=8") => const_code_le::<_, {cc::ZETA3}, {ZETA}, 3>;
    #[kani::unwind(12)]
    c10_conststatic_zeta3_le (thorough, "ConstCode<code_consts::ZETA3>, LE stream (StaticCodeRead/StaticCodeWrite impls)", "Static* trait impls vs the code own method; symbolic value") => const_static_le::<_, {cc::ZETA3}, {ZETA}, 3>;
    #[kani::unwind(12)]
    c10_const_zeta4_be (thorough, "ConstCode<code_consts::ZETA4>, BE stream", "write/read/len vs zeta(4); symbolic value (domain of the code), offset<=8") => const_code_be::<_, {cc::ZETA4}, {ZETA}, 4>;
    #[kani::unwind(12)]
    c10_conststatic_zeta4_be (thorough, "ConstCode<code_consts::ZETA4>, BE stream (StaticCodeRead/StaticCodeWrite impls)", "Static* trait impls vs the code own method; symbolic value") => const_static_be::<_, {cc::ZETA4}, {ZETA}, 4>;
    #[kani::unwind(12)]
    c10_const_zeta4_le (thorough, "ConstCode<code_consts::ZETA4>, LE stream", "write/read/len vs zeta(4); symbolic value (domain of the code), offset<=8") => const_code_le::<_, {cc::ZETA4}, {ZETA}, 4>;
    #[kani::unwind(12)]
    c10_conststatic_zeta4_le (thorough, "ConstCode<code_consts::ZETA4>, LE stream (StaticCodeRead/StaticCodeWrite impls)", "Static* trait impls vs the code own method; symbolic value") => const_static_le::<_, {cc::ZETA4}, {ZETA}, 4>;
    #[kani::unwind(12)]
    c10_const_zeta5_be (thorough, "ConstCode<code_consts::ZETA5>, BE stream", "write/read/len vs zeta(5); symbolic value (domain of the code), offset<=8") => const_code_be::<_, {cc::ZETA5}, {ZETA}, 5>;
    #[kani::unwind(12)]
    c10_conststatic_zeta5_be (thorough, "ConstCode<code_consts::ZETA5>, BE stream (StaticCodeRead/StaticCodeWrite impls)", "Static* trait impls vs the code own method; symbolic value") => const_static_be::<_, {cc::ZETA5}, {ZETA}, 5>;
    #[kani::unwind(12)]
    c10_const_zeta5_le (thorough, "ConstCode<code_consts::ZETA5>, LE stream", "write/read/len vs zeta(5); symbolic value (domain of the code), offset<=8") => const_code_le::<_, {cc::ZETA5}, {ZETA}, 5>;
    #[kani::unwind(12)]
    c10_conststatic_zeta5_le (thorough, "ConstCode<code_consts::ZETA5>, LE stream (StaticCodeRead/StaticCodeWrite impls)", "Static* trait impls vs the code own method; symbolic value") => const_static_le::<_, {cc::ZETA5}, {ZETA}, 5>;
    #[kani::unwind(12)]
    c10_const_zeta6_be (thorough, "ConstCode<code_consts::ZETA6>, BE stream", "write/read/len vs zeta(6); symbolic value (domain of the code), offset<=8") => const_code_be::<_, {cc::ZETA6}, {ZETA}, 6>;
    #[kani::unwind(12)]
    c10_conststatic_zeta6_be (thorough, "ConstCode<code_consts::ZETA6>, BE stream (StaticCodeRead/StaticCodeWrite impls)", "Static* trait impls vs the code own method; symbolic value") => const_static_be::<_, {cc::ZETA6}, {ZETA}, 6>;
    #[kani::unwind(12)]
    c10_const_zeta6_le (thorough, "ConstCode<code_consts::ZETA6>, LE stream", "write/read/len vs zeta(6); symbolic value (domain of the code), offset<=8") => const_code_le::<_, {cc::ZETA6}, {ZETA}, 6>;
    #[kani::unwind(12)]
    c10_conststatic_zeta6_le (thorough, "ConstCode<code_consts::ZETA6>, LE stream (StaticCodeRead/StaticCodeWrite impls)", "Static* trait impls vs the code own method; symbolic value") => const_static_le::<_, {cc::ZETA6}, {ZETA}, 6>;
    #[kani::unwind(12)]
    c10_const_zeta7_be (quick, "ConstCode<code_consts::ZETA7>, BE stream", "write/read/len vs zeta(7); symbolic value (domain of the code), offset<=8") => const_code_be::<_, {cc::ZETA7}, {ZETA}, 7>;
    #[kani::unwind(12)]
    c10_conststatic_zeta7_be (thorough, "ConstCode<code_consts::ZETA7>, BE stream (StaticCodeRead/StaticCodeWrite impls)", "Static* trait impls vs the code own method; symbolic value") => const_static_be::<_, {cc::ZETA7}, {ZETA}, 7>;
    #[kani::unwind(12)]
    c10_const_zeta7_le (thorough, "ConstCode<code_consts::ZETA7>, LE stream", "write/read/len vs zeta(7); symbolic value (domain of the code), offset<=8") => const_code_le::<_, {cc::ZETA7}, {ZETA}, 7>;
    #[kani::unwind(12)]
    c10_conststatic_zeta7_le (thorough, "ConstCode<code_consts::ZETA7>, LE stream (StaticCodeRead/StaticCodeWrite impls)", "Static* trait impls vs the code own method; symbolic value") => const_static_le::<_, {cc::ZETA7}, {ZETA}, 7>;
    #[kani::unwind(12)]
    c10_const_zeta8_be (thorough, "ConstCode<code_consts::ZETA8>, BE stream", "write/read/len vs zeta(8); symbolic value (domain of the code), offset<=8") => const_code_be::<_, {cc::ZETA8}, {ZETA}, 8>;
    #[kani::unwind(12)]
    c10_conststatic_zeta8_be (thorough, "ConstCode<code_consts::ZETA8>, BE stream (StaticCodeRead/StaticCodeWrite impls)", "Static* trait impls vs the code own method; symbolic value") => const_static_be::<_, {cc::ZETA8}, {ZETA}, 8>;
    #[kani::unwind(12)]
    c10_const_zeta8_le (thorough, "ConstCode<code_consts::ZETA8>, LE stream", "write/read/len vs zeta(8); symbolic value (domain of the code), offset<=8") => const_code_le::<_, {cc::ZETA8}, {ZETA}, 8>;
    #[kani::unwind(12)]
    c10_conststatic_zeta8_le (thorough, "ConstCode<code_consts::ZETA8>, LE stream (StaticCodeRead/StaticCodeWrite impls)", "Static* trait impls vs the code own method; symbolic value") => const_static_le::<_, {cc::ZETA8}, {ZETA}, 8>;
    #[kani::unwind(12)]
    c10_const_zeta9_be (thorough, "ConstCode<code_consts::ZETA9>, BE stream", "write/read/len vs zeta(9); symbolic value (domain of the code), offset<=8") => const_code_be::<_, {cc::ZETA9}, {ZETA}, 9>;
    #[kani::unwind(12)]
    c10_conststatic_zeta9_be (thorough, "ConstCode<code_consts::ZETA9>, BE stream (StaticCodeRead/StaticCodeWrite impls)", "Static* trait impls vs the code own method; symbolic value") => const_static_be::<_, {cc::ZETA9}, {ZETA}, 9>;
    #[kani::unwind(12)]
    c10_const_zeta9_le (thorough, "ConstCode<code_consts::ZETA9>, LE stream", "write/read/len vs zeta(9); symbolic value (domain of the code), offset<=8") => const_code_le::<_, {cc::ZETA9}, {ZETA}, 9>;
    #[kani::unwind(12)]
    c10_conststatic_zeta9_le (thorough, "ConstCode<code_consts::ZETA9>, LE stream (StaticCodeRead/StaticCodeWrite impls)", "Static* trait impls vs the code own method; symbolic value") => const_static_le::<_, {cc::ZETA9}, {ZETA}, 9>;
    #[kani::unwind(12)]
    c10_const_zeta10_be (thorough, "ConstCode<code_consts::ZETA10>, BE stream", "write/read/len vs zeta(10); symbolic value (domain of the code), offset<=8") => const_code_be::<_, {cc::ZETA10}, {ZETA}, 10>;
    #[kani::unwind(12)]
    c10_conststatic_zeta10_be (thorough, "ConstCode<code_consts::ZETA10>, BE stream (StaticCodeRead/StaticCodeWrite impls)", "Static* trait impls vs the code own method; symbolic value") => const_static_be::<_, {cc::ZETA10}, {ZETA}, 10>;
    #[kani::unwind(12)]
    c10_const_zeta10_le (thorough, "ConstCode<code_consts::ZETA10>, LE stream", "write/read/len vs zeta(10); symbolic value (domain of the code), offset<=8") => const_code_le::<_, {cc::ZETA10}, {ZETA}, 10>;
    #[kani::unwind(12)]
    c10_conststatic_zeta10_le (thorough, "ConstCode<code_consts::ZETA10>, LE stream (StaticCodeRead/StaticCodeWrite impls)", "Static* trait impls vs the code own method; symbolic value") => const_static_le::<_, {cc::ZETA10}, {ZETA}, 10>;
    #[kani::unwind(12)]
    c10_const_rice0_be (quick, "ConstCode<code_consts::RICE0>, BE stream", "write/read/len vs rice(0); symbolic value (domain of the code), offset<=8") => const_code_be::<_, {cc::RICE0}, {RICE}, 0>;
    #[kani::unwind(12)]
    c10_conststatic_rice0_be (thorough, "ConstCode<code_consts::RICE0>, BE stream (StaticCodeRead/StaticCodeWrite impls)", "Static* trait impls vs the code own method; symbolic value") => const_static_be::<_, {cc::RICE0}, {RICE}, 0>;
    #[kani::unwind(12)]
    c10_const_rice0_le (thorough, "ConstCode<code_consts::RICE0>, LE stream", "write/read/len vs rice(0); symbolic value (domain of the code), offset<=8") => const_code_le::<_, {cc::RICE0}, {RICE}, 0>;
    #[kani::unwind(12)]
    c10_conststatic_rice0_le (thorough, "ConstCode<code_consts::RICE0>, LE stream (StaticCodeRead/StaticCodeWrite impls)", "Static* trait impls vs the code own method; symbolic value") => const_static_le::<_, {cc::RICE0}, {RICE}, 0>;
    #[kani::unwind(12)]
    c10_const_rice1_be (thorough, "ConstCode<code_consts::RICE1>, BE stream", "write/read/len vs rice(1); symbolic value (domain of the code), offset<=8") => const_code_be::<_, {cc::RICE1}, {RICE}, 1>;
    #[kani::unwind(12)]
    c10_conststatic_rice1_be (thorough, "ConstCode<code_consts::RICE1>, BE stream (StaticCodeRead/StaticCodeWrite impls)", "Static* trait impls vs the code own method; symbolic value") => const_static_be::<_, {cc::RICE1}, {RICE}, 1>;
    #[kani::unwind(12)]
    c10_const_rice1_le (thorough, "ConstCode<code_consts::RICE1>, LE stream", "write/read/len vs rice(1); symbolic value (domain of the code), offset<=8") => const_code_le::<_, {cc::RICE1}, {RICE}, 1>;
    #[kani::unwind(12)]
    c10_conststatic_rice1_le (thorough, "ConstCode<code_consts::RICE1>, LE stream (StaticCodeRead/StaticCodeWrite impls)", "Static* trait impls vs the code own method; symbolic value") => const_static_le::<_, {cc::RICE1}, {RICE}, 1>;
    #[kani::unwind(12)]
    c10_const_rice2_be (thorough, "ConstCode<code_consts::RICE2>, BE stream", "write/read/len vs rice(2); symbolic value (domain of the code), offset<=8") => const_code_be::<_, {cc::RICE2}, {RICE}, 2>;
    #[kani::unwind(12)]
    c10_conststatic_rice2_be (thorough, "ConstCode<code_consts::RICE2>, BE stream (StaticCodeRead/StaticCodeWrite impls)", "Static* trait impls vs the code own method; symbolic value") => const_static_be::<_, {cc::RICE2}, {RICE}, 2>;
    #[kani::unwind(12)]
    c10_const_rice2_le (thorough, "ConstCode<code_consts::RICE2>, LE stream", "write/read/len vs rice(2); symbolic value (domain of the code), offset<=8") => const_code_le::<_, {cc::RICE2}, {RICE}, 2>;
    #[kani::unwind(12)]
    c10_conststatic_rice2_le (thorough, "ConstCode<code_consts::RICE2>, LE stream (StaticCodeRead/StaticCodeWrite impls)", "Static* trait impls vs the code own method; symbolic value") => const_static_le::<_, {cc::RICE2}, {RICE}, 2>;
    #[kani::unwind(12)]
    c10_const_rice3_be (thorough, "ConstCode<code_consts::RICE3>, BE stream", "write/read/len vs rice(3); symbolic value (domain of the code), offset<=8") => const_code_be::<_, {cc::RICE3}, {RICE}, 3>;
    #[kani::unwind(12)]
    c10_conststatic_rice3_be (thorough, "ConstCode<code_consts::RICE3>, BE stream (StaticCodeRead/StaticCodeWrite impls)", "Static* trait impls vs the code own method; symbolic value") => const_static_be::<_, {cc::RICE3}, {RICE}, 3>;
    #[kani::unwind(12)]
    c10_const_rice3_le (thorough, "ConstCode<code_consts::RICE3>, LE stream", "write/read/len vs rice(3); symbolic value (domain of the code), offset<=8") => const_code_le::<_, {cc::RICE3}, {RICE}, 3>;
    #[kani::unwind(12)]
    c10_conststatic_rice3_le (thorough, "ConstCode<code_consts::RICE3>, LE stream (StaticCodeRead/StaticCodeWrite impls)", "Static* trait impls vs the code own method; symbolic value") => const_static_le::<_, {cc::RICE3}, {RICE}, 3>;
    #[kani::unwind(12)]
    c10_const_rice4_be (thorough, "ConstCode<code_consts::RICE4>, BE stream", "write/read/len vs rice(4); symbolic value (domain of the code), offset<=8") => const_code_be::<_, {cc::RICE4}, {RICE}, 4>;
    #[kani::unwind(12)]
    c10_conststatic_rice4_be (thorough, "ConstCode<code_consts::RICE4>, BE stream (StaticCodeRead/StaticCodeWrite impls)", "Static* trait impls vs the code own method; symbolic value") => const_static_be::<_, {cc::RICE4}, {RICE}, 4>;
    #[kani::unwind(12)]
    c10_const_rice4_le (thorough, "ConstCode<code_consts::RICE4>, LE stream", "write/read/len vs rice(4); symbolic value (domain of the code), offset<=8") => const_code_le::<_, {cc::RICE4}, {RICE}, 4>;
    #[kani::unwind(12)]
    c10_conststatic_rice4_le (thorough, "ConstCode<code_consts::RICE4>, LE stream (StaticCodeRead/StaticCodeWrite impls)", "Static* trait impls vs the code own method; symbolic value") => const_static_le::<_, {cc::RICE4}, {RICE}, 4>;
    #[kani::unwind(12)]
    c10_const_rice5_be (quick, "ConstCode<code_consts::RICE5>, BE stream", "write/read/len vs rice(5); symbolic value (domain of the code), offset<=8") => const_code_be::<_, {cc::RICE5}, {RICE}, 5>;
    #[kani::unwind(12)]
    c10_conststatic_rice5_be (thorough, "ConstCode<code_consts::RICE5>, BE stream (StaticCodeRead/StaticCodeWrite impls)", "Static* trait impls vs the code own method; symbolic value") => const_static_be::<_, {cc::RICE5}, {RICE}, 5>;
    #[kani::unwind(12)]
    c10_const_rice5_le (thorough, "ConstCode<code_consts::RICE5>, LE stream", "write/read/len vs rice(5); symbolic value (domain of the code), offset<=8") => const_code_le::<_, {cc::RICE5}, {RICE}, 5>;
    #[kani::unwind(12)]
    c10_conststatic_rice5_le (thorough, "ConstCode<code_consts::RICE5>, LE stream (StaticCodeRead/StaticCodeWrite impls)", "Static* trait impls vs the code own method; symbolic value") => const_static_le::<_, {cc::RICE5}, {RICE}, 5>;
    #[kani::unwind(12)]
    c10_const_rice6_be (thorough, "ConstCode<code_consts::RICE6>, BE stream", "write/read/len vs rice(6); symbolic value (domain of the code), offset<=8") => const_code_be::<_, {cc::RICE6}, {RICE}, 6>;
    #[kani::unwind(12)]
    c10_conststatic_rice6_be (thorough, "ConstCode<code_consts::RICE6>, BE stream (StaticCodeRead/StaticCodeWrite impls)", "Static* trait impls vs the code own method; symbolic value") => const_static_be::<_, {cc::RICE6}, {RICE}, 6>;
    #[kani::unwind(12)]
    c10_const_rice6_le (thorough, "ConstCode<code_consts::RICE6>, LE stream", "write/read/len vs rice(6); symbolic value (domain of the code), offset<=8") => const_code_le::<_, {cc::RICE6}, {RICE}, 6>;
    #[kani::unwind(12)]
    c10_conststatic_rice6_le (thorough, "ConstCode<code_consts::RICE6>, LE stream (StaticCodeRead/StaticCodeWrite impls)", "Static* trait impls vs the code own method; symbolic value") => const_static_le::<_, {cc::RICE6}, {RICE}, 6>;
    #[kani::unwind(12)]
    c10_const_rice7_be (thorough, "ConstCode<code_consts::RICE7>, BE stream", "write/read/len vs rice(7); symbolic value (domain of the code), offset<=8") => const_code_be::<_, {cc::RICE7}, {RICE}, 7>;
    #[kani::unwind(12)]
    c10_conststatic_rice7_be (thorough, "ConstCode<code_consts::RICE7>, BE stream (StaticCodeRead/StaticCodeWrite impls)", "Static* trait impls vs the code own method; symbolic value") => const_static_be::<_, {cc::RICE7}, {RICE}, 7>;
    #[kani::unwind(12)]
    c10_const_rice7_le (thorough, "ConstCode<code_consts::RICE7>, LE stream", "write/read/len vs rice(7); symbolic value (domain of the code), offset<=8") => const_code_le::<_, {cc::RICE7}, {RICE}, 7>;
    #[kani::unwind(12)]
    c10_conststatic_rice7_le (thorough, "ConstCode<code_consts::RICE7>, LE stream (StaticCodeRead/StaticCodeWrite impls)", "Static* trait impls vs the code own method; symbolic value") => const_static_le::<_, {cc::RICE7}, {RICE}, 7>;
    #[kani::unwind(12)]
    c10_const_rice8_be (thorough, "ConstCode<code_consts::RICE8>, BE stream", "write/read/len vs rice(8); symbolic value (domain of the code), offset<=8") => const_code_be::<_, {cc::RICE8}, {RICE}, 8>;
    #[kani::unwind(12)]
    c10_conststatic_rice8_be (thorough, "ConstCode<code_consts::RICE8>, BE stream (StaticCodeRead/StaticCodeWrite impls)", "Static* trait impls vs the code own method; symbolic value") => const_static_be::<_, {cc::RICE8}, {RICE}, 8>;
    #[kani::unwind(12)]
    c10_const_rice8_le (thorough, "ConstCode<code_consts::RICE8>, LE stream", "write/read/len vs rice(8); symbolic value (domain of the code), offset<=8") => const_code_le::<_, {cc::RICE8}, {RICE}, 8>;
    #[kani::unwind(12)]
    c10_conststatic_rice8_le (thorough, "ConstCode<code_consts::RICE8>, LE stream (StaticCodeRead/StaticCodeWrite impls)", "Static* trait impls vs the code own method; symbolic value") => const_static_le::<_, {cc::RICE8}, {RICE}, 8>;
    #[kani::unwind(12)]
    c10_const_rice9_be (thorough, "ConstCode<code_consts::RICE9>, BE stream", "write/read/len vs rice(9); symbolic value (domain of the code), offset<=8") => const_code_be::<_, {cc::RICE9}, {RICE}, 9>;
    #[kani::unwind(12)]
    c10_conststatic_rice9_be (thorough, "ConstCode<code_consts::RICE9>, BE stream (StaticCodeRead/StaticCodeWrite impls)", "Static* trait impls vs the code own method; symbolic value") => const_static_be::<_, {cc::RICE9}, {RICE}, 9>;
    #[kani::unwind(12)]
    c10_const_rice9_le (thorough, "ConstCode<code_consts::RICE9>, LE stream", "write/read/len vs rice(9); symbolic value (domain of the code), offset<=8") => const_code_le::<_, {cc::RICE9}, {RICE}, 9>;
    #[kani::unwind(12)]
    c10_conststatic_rice9_le (thorough, "ConstCode<code_consts::RICE9>, LE stream (StaticCodeRead/StaticCodeWrite impls)", "Static* trait impls vs the code own method; symbolic value") => const_static_le::<_, {cc::RICE9}, {RICE}, 9>;
    #[kani::unwind(12)]
    c10_const_rice10_be (thorough, "ConstCode<code_consts::RICE10>, BE stream", "write/read/len vs rice(10); symbolic value (domain of the code), offset<=8") => const_code_be::<_, {cc::RICE10}, {RICE}, 10>;
    #[kani::unwind(12)]
    c10_conststatic_rice10_be (thorough, "ConstCode<code_consts::RICE10>, BE stream (StaticCodeRead/StaticCodeWrite impls)", "Static* trait impls vs the code own method; symbolic value") => const_static_be::<_, {cc::RICE10}, {RICE}, 10>;
    #[kani::unwind(12)]
    c10_const_rice10_le (thorough, "ConstCode<code_consts::RICE10>, LE stream", "write/read/len vs rice(10); symbolic value (domain of the code), offset<=8") => const_code_le::<_, {cc::RICE10}, {RICE}, 10>;
    #[kani::unwind(12)]
    c10_conststatic_rice10_le (thorough, "ConstCode<code_consts::RICE10>, LE stream (StaticCodeRead/StaticCodeWrite impls)", "Static* trait impls vs the code own method; symbolic value") => const_static_le::<_, {cc::RICE10}, {RICE}, 10>;
    #[kani::unwind(12)]
    c10_const_pi0_be (quick, "ConstCode<code_consts::PI0>, BE stream", "write/read/len vs pi(0); symbolic value (domain of the code), offset<=8") => const_code_be::<_, {cc::PI0}, {PI}, 0>;
    #[kani::unwind(12)]
    c10_conststatic_pi0_be (thorough, "ConstCode<code_consts::PI0>, BE stream (StaticCodeRead/StaticCodeWrite impls)", "Static* trait impls vs the code own method; symbolic value") => const_static_be::<_, {cc::PI0}, {PI}, 0>;
    #[kani::unwind(12)]
    c10_const_pi0_le (thorough, "ConstCode<code_consts::PI0>, LE stream", "write/read/len vs pi(0); symbolic value (domain of the code), offset<=8") => const_code_le::<_, {cc::PI0}, {PI}, 0>;
    #[kani::unwind(12)]
    c10_conststatic_pi0_le (thorough, "ConstCode<code_consts::PI0>, LE stream (StaticCodeRead/StaticCodeWrite impls)", "Static* trait impls vs the code own method; symbolic value") => const_static_le::<_, {cc::PI0}, {PI}, 0>;
    #[kani::unwind(12)]
    c10_const_pi1_be (quick, "ConstCode<code_consts::PI1>, BE stream", "write/read/len vs pi(1); symbolic value (domain of the code), offset<=8") => const_code_be::<_, {cc::PI1}, {PI}, 1>;
    #[kani::unwind(12)]
    c10_conststatic_pi1_be (quick, "ConstCode<code_consts::PI1>, BE stream (StaticCodeRead/StaticCodeWrite impls)", "Static* trait impls vs the code own method; symbolic value") => const_static_be::<_, {cc::PI1}, {PI}, 1>;
    #[kani::unwind(12)]
    c10_const_pi1_le (quick, "ConstCode<code_consts::PI1>, LE stream", "write/read/len vs pi(1); symbolic value (domain of the code), offset<=8") => const_code_le::<_, {cc::PI1}, {PI}, 1>;
    #[kani::unwind(12)]
    c10_conststatic_pi1_le (thorough, "ConstCode<code_consts::PI1>, LE stream (StaticCodeRead/StaticCodeWrite impls)", "Static* trait impls vs the code own method; symbolic value") => const_static_le::<_, {cc::PI1}, {PI}, 1>;
    #[kani::unwind(12)]
    c10_const_pi2_be (thorough, "ConstCode<code_consts::PI2>, BE stream", "write/read/len vs pi(2); symbolic value (domain of the code), offset<=8") => const_code_be::<_, {cc::PI2}, {PI}, 2>;
    #[kani::unwind(12)]
    c10_conststatic_pi2_be (thorough, "ConstCode<code_consts::PI2>, BE stream (StaticCodeRead/StaticCodeWrite impls)", "Static* trait impls vs the code own method; symbolic value") => const_static_be::<_, {cc::PI2}, {PI}, 2>;
    #[kani::unwind(12)]
    c10_const_pi2_le (thorough, "ConstCode<code_consts::PI2>, LE stream", "write/read/len vs pi(2); symbolic value (domain of the code), offset<=8") => const_code_le::<_, {cc::PI2}, {PI}, 2>;
    #[kani::unwind(12)]
    c10_conststatic_pi2_le (thorough, "ConstCode<code_consts::PI2>, LE stream (StaticCodeRead/StaticCodeWrite impls)", "Static* trait impls vs the code own method; symbolic value") => const_static_le::<_, {cc::PI2}, {PI}, 2>;
    #[kani::unwind(12)]
    c10_const_pi3_be (thorough, "ConstCode<code_consts::PI3>, BE stream", "write/read/len vs pi(3); symbolic value (domain of the code), offset<=8") => const_code_be::<_, {cc::PI3}, {PI}, 3>;
    #[kani::unwind(12)]
    c10_conststatic_pi3_be (thorough, "ConstCode<code_consts::PI3>, BE stream (StaticCodeRead/StaticCodeWrite impls)", "Static* trait impls vs the code own method; symbolic value") => const_static_be::<_, {cc::PI3}, {PI}, 3>;
    #[kani::unwind(12)]
    c10_const_pi3_le (thorough, "ConstCode<code_consts::PI3>, LE stream", "write/read/len vs pi(3); symbolic value (domain of the code), offset<=8") => const_code_le::<_, {cc::PI3}, {PI}, 3>;
    #[kani::unwind(12)]
    c10_conststatic_pi3_le (thorough, "ConstCode<code_consts::PI3>, LE stream (StaticCodeRead/StaticCodeWrite impls)", "Static* trait impls vs the code own method; symbolic value") => const_static_le::<_, {cc::PI3}, {PI}, 3>;
    #[kani::unwind(12)]
    c10_const_pi4_be (thorough, "ConstCode<code_consts::PI4>, BE stream", "write/read/len vs pi(4); symbolic value (domain of the code), offset<=8") => const_code_be::<_, {cc::PI4}, {PI}, 4>;
    #[kani::unwind(12)]
    c10_conststatic_pi4_be (thorough, "ConstCode<code_consts::PI4>, BE stream (StaticCodeRead/StaticCodeWrite impls)", "Static* trait impls vs the code own method; symbolic value") => const_static_be::<_, {cc::PI4}, {PI}, 4>;
    #[kani::unwind(12)]
    c10_const_pi4_le (thorough, "ConstCode<code_consts::PI4>, LE stream", "write/read/len vs pi(4); symbolic value (domain of the code), offset<=8") => const_code_le::<_, {cc::PI4}, {PI}, 4>;
    #[kani::unwind(12)]
    c10_conststatic_pi4_le (thorough, "ConstCode<code_consts::PI4>, LE stream (StaticCodeRead/StaticCodeWrite impls)", "Static* trait impls vs the code own method; symbolic value") => const_static_le::<_, {cc::PI4}, {PI}, 4>;
    #[kani::unwind(12)]
    c10_const_pi5_be (thorough, "ConstCode<code_consts::PI5>, BE stream", "write/read/len vs pi(5); symbolic value (domain of the code), offset<=8") => const_code_be::<_, {cc::PI5}, {PI}, 5>;
    #[kani::unwind(12)]
    c10_conststatic_pi5_be (thorough, "ConstCode<code_consts::PI5>, BE stream (StaticCodeRead/StaticCodeWrite impls)", "Static* trait impls vs the code own method; symbolic value") => const_static_be::<_, {cc::PI5}, {PI}, 5>;
    #[kani::unwind(12)]
    c10_const_pi5_le (thorough, "ConstCode<code_consts::PI5>, LE stream", "write/read/len vs pi(5); symbolic value (domain of the code), offset<=8") => const_code_le::<_, {cc::PI5}, {PI}, 5>;
    #[kani::unwind(12)]
    c10_conststatic_pi5_le (thorough, "ConstCode<code_consts::PI5>, LE stream (StaticCodeRead/StaticCodeWrite impls)", "Static* trait impls vs the code own method; symbolic value") => const_static_le::<_, {cc::PI5}, {PI}, 5>;
    #[kani::unwind(12)]
    c10_const_pi6_be (thorough, "ConstCode<code_consts::PI6>, BE stream", "write/read/len vs pi(6); symbolic value (domain of the code), offset<=8") => const_code_be::<_, {cc::PI6}, {PI}, 6>;
    #[kani::unwind(12)]
    c10_conststatic_pi6_be (thorough, "ConstCode<code_consts::PI6>, BE stream (StaticCodeRead/StaticCodeWrite impls)", "Static* trait impls vs the code own method; symbolic value") => const_static_be::<_, {cc::PI6}, {PI}, 6>;
    #[kani::unwind(12)]
    c10_const_pi6_le (thorough, "ConstCode<code_consts::PI6>, LE stream", "write/read/len vs pi(6); symbolic value (domain of the code), offset<=8") => const_code_le::<_, {cc::PI6}, {PI}, 6>;
    #[kani::unwind(12)]
    c10_conststatic_pi6_le (thorough, "ConstCode<code_consts::PI6>, LE stream (StaticCodeRead/StaticCodeWrite impls)", "Static* trait impls vs the code own method; symbolic value") => const_static_le::<_, {cc::PI6}, {PI}, 6>;
    #[kani::unwind(12)]
    c10_const_pi7_be (thorough, "ConstCode<code_consts::PI7>, BE stream", "write/read/len vs pi(7); symbolic value (domain of the code), offset<=8") => const_code_be::<_, {cc::PI7}, {PI}, 7>;
    #[kani::unwind(12)]
    c10_conststatic_pi7_be (thorough, "ConstCode<code_consts::PI7>, BE stream (StaticCodeRead/StaticCodeWrite impls)", "Static* trait impls vs the code own method; symbolic value") => const_static_be::<_, {cc::PI7}, {PI}, 7>;
    #[kani::unwind(12)]
    c10_const_pi7_le (thorough, "ConstCode<code_consts::PI7>, LE stream", "write/read/len vs pi(7); symbolic value (domain of the code), offset<=8") => const_code_le::<_, {cc::PI7}, {PI}, 7>;
    #[kani::unwind(12)]
    c10_conststatic_pi7_le (thorough, "ConstCode<code_consts::PI7>, LE stream (StaticCodeRead/StaticCodeWrite impls)", "Static* trait impls vs the code own method; symbolic value") => const_static_le::<_, {cc::PI7}, {PI}, 7>;
    #[kani::unwind(12)]
    c10_const_pi8_be (thorough, "ConstCode<code_consts::PI8>, BE stream", "write/read/len vs pi(8); symbolic value (domain of the code), offset<=8") => const_code_be::<_, {cc::PI8}, {PI}, 8>;
    #[kani::unwind(12)]
    c10_conststatic_pi8_be (thorough, "ConstCode<code_consts::PI8>, BE stream (StaticCodeRead/StaticCodeWrite impls)", "Static* trait impls vs the code own method; symbolic value") => const_static_be::<_, {cc::PI8}, {PI}, 8>;
    #[kani::unwind(12)]
    c10_const_pi8_le (thorough, "ConstCode<code_consts::PI8>, LE stream", "write/read/len vs pi(8); symbolic value (domain of the code), offset<=8") => const_code_le::<_, {cc::PI8}, {PI}, 8>;
    #[kani::unwind(12)]
    c10_conststatic_pi8_le (thorough, "ConstCode<code_consts::PI8>, LE stream (StaticCodeRead/StaticCodeWrite impls)", "Static* trait impls vs the code own method; symbolic value") => const_static_le::<_, {cc::PI8}, {PI}, 8>;
    #[kani::unwind(12)]
    c10_const_pi9_be (thorough, "ConstCode<code_consts::PI9>, BE stream", "write/read/len vs pi(9); symbolic value (domain of the code), offset<=8") => const_code_be::<_, {cc::PI9}, {PI}, 9>;
    #[kani::unwind(12)]
    c10_conststatic_pi9_be (thorough, "ConstCode<code_consts::PI9>, BE stream (StaticCodeRead/StaticCodeWrite impls)", "Static* trait impls vs the code own method; symbolic value") => const_static_be::<_, {cc::PI9}, {PI}, 9>;
    #[kani::unwind(12)]
    c10_const_pi9_le (thorough, "ConstCode<code_consts::PI9>, LE stream", "write/read/len vs pi(9); symbolic value (domain of the code), offset<=8") => const_code_le::<_, {cc::PI9}, {PI}, 9>;
    #[kani::unwind(12)]
    c10_conststatic_pi9_le (thorough, "ConstCode<code_consts::PI9>, LE stream (StaticCodeRead/StaticCodeWrite impls)", "Static* trait impls vs the code own method; symbolic value") => const_static_le::<_, {cc::PI9}, {PI}, 9>;
    #[kani::unwind(12)]
    c10_const_pi10_be (thorough, "ConstCode<code_consts::PI10>, BE stream", "write/read/len vs pi(10); symbolic value (domain of the code), offset<=8") => const_code_be::<_, {cc::PI10}, {PI}, 10>;
    #[kani::unwind(12)]
    c10_conststatic_pi10_be (thorough, "ConstCode<code_consts::PI10>, BE stream (StaticCodeRead/StaticCodeWrite impls)", "Static* trait impls vs the code own method; symbolic value") => const_static_be::<_, {cc::PI10}, {PI}, 10>;
    #[kani::unwind(12)]
    c10_const_pi10_le (thorough, "ConstCode<code_consts::PI10>, LE stream", "write/read/len vs pi(10); symbolic value (domain of the code), offset<=8") => const_code_le::<_, {cc::PI10}, {PI}, 10>;
    #[kani::unwind(12)]
    c10_conststatic_pi10_le (thorough, "ConstCode<code_consts::PI10>, LE stream (StaticCodeRead/StaticCodeWrite impls)", "Static* trait impls vs the code own method; symbolic value") => const_static_le::<_, {cc::PI10}, {PI}, 10>;
    #[kani::unwind(12)]
    c10_const_golomb1_be (thorough, "ConstCode<code_consts::GOLOMB1>, BE stream", "write/read/len vs golomb(1); symbolic value (domain of the code), offset<=8") => const_code_be::<_, {cc::GOLOMB1}, {GOLOMB}, 1>;
    #[kani::unwind(12)]
    c10_conststatic_golomb1_be (thorough, "ConstCode<code_consts::GOLOMB1>, BE stream (StaticCodeRead/StaticCodeWrite impls)", "Static* trait impls vs the code own method; symbolic value") => const_static_be::<_, {cc::GOLOMB1}, {GOLOMB}, 1>;
    #[kani::unwind(12)]
    c10_const_golomb1_le (thorough, "ConstCode<code_consts::GOLOMB1>, LE stream", "write/read/len vs golomb(1); symbolic value (domain of the code), offset<=8") => const_code_le::<_, {cc::GOLOMB1}, {GOLOMB}, 1>;
    #[kani::unwind(12)]
    c10_conststatic_golomb1_le (thorough, "ConstCode<code_consts::GOLOMB1>, LE stream (StaticCodeRead/StaticCodeWrite impls)", "Static* trait impls vs the code own method; symbolic value") => const_static_le::<_, {cc::GOLOMB1}, {GOLOMB}, 1>;
    #[kani::unwind(12)]
    c10_const_golomb2_be (quick, "ConstCode<code_consts::GOLOMB2>, BE stream", "write/read/len vs golomb(2); symbolic value (domain of the code), offset<=8") => const_code_be::<_, {cc::GOLOMB2}, {GOLOMB}, 2>;
    #[kani::unwind(12)]
    c10_conststatic_golomb2_be (quick, "ConstCode<code_consts::GOLOMB2>, BE stream (StaticCodeRead/StaticCodeWrite impls)", "Static* trait impls vs the code own method; symbolic value") => const_static_be::<_, {cc::GOLOMB2}, {GOLOMB}, 2>;
    #[kani::unwind(12)]
    c10_const_golomb2_le (thorough, "ConstCode<code_consts::GOLOMB2>, LE stream", "write/read/len vs golomb(2); symbolic value (domain of the code), offset<=8") => const_code_le::<_, {cc::GOLOMB2}, {GOLOMB}, 2>;
    #[kani::unwind(12)]
    c10_conststatic_golomb2_le (thorough, "ConstCode<code_consts::GOLOMB2>, LE stream (StaticCodeRead/StaticCodeWrite impls)", "Static* trait impls vs the code own method; symbolic value") => const_static_le::<_, {cc::GOLOMB2}, {GOLOMB}, 2>;
    #[kani::unwind(12)]
    c10_const_golomb3_be (thorough, "ConstCode<code_consts::GOLOMB3>, BE stream", "write/read/len vs golomb(3); symbolic value (domain of the code), offset<=8") => const_code_be::<_, {cc::GOLOMB3}, {GOLOMB}, 3>;
    #[kani::unwind(12)]
    c10_conststatic_golomb3_be (thorough, "ConstCode<code_consts::GOLOMB3>, BE stream (StaticCodeRead/StaticCodeWrite impls)", "Static* trait impls vs the code own method; symbolic value") => const_static_be::<_, {cc::GOLOMB3}, {GOLOMB}, 3>;
    #[kani::unwind(12)]
    c10_const_golomb3_le (thorough, "ConstCode<code_consts::GOLOMB3>, LE stream", "write/read/len vs golomb(3); symbolic value (domain of the code), offset<=8") => const_code_le::<_, {cc::GOLOMB3}, {GOLOMB}, 3>;
    #[kani::unwind(12)]
    c10_conststatic_golomb3_le (thorough, "ConstCode<code_consts::GOLOMB3>, LE stream (StaticCodeRead/StaticCodeWrite impls)", "Static* trait impls vs the code own method; symbolic value") => const_static_le::<_, {cc::GOLOMB3}, {GOLOMB}, 3>;
    #[kani::unwind(12)]
    c10_const_golomb4_be (thorough, "ConstCode<code_consts::GOLOMB4>, BE stream", "write/read/len vs golomb(4); symbolic value (domain of the code), offset<=8") => const_code_be::<_, {cc::GOLOMB4}, {GOLOMB}, 4>;
    #[kani::unwind(12)]
    c10_conststatic_golomb4_be (thorough, "ConstCode<code_consts::GOLOMB4>, BE stream (StaticCodeRead/StaticCodeWrite impls)", "Static* trait impls vs the code own method; symbolic value") => const_static_be::<_, {cc::GOLOMB4}, {GOLOMB}, 4>;
    #[kani::unwind(12)]
    c10_const_golomb4_le (thorough, "ConstCode<code_consts::GOLOMB4>, LE stream", "write/read/len vs golomb(4); symbolic value (domain of the code), offset<=8") => const_code_le::<_, {cc::GOLOMB4}, {GOLOMB}, 4>;
    #[kani::unwind(12)]
    c10_conststatic_golomb4_le (thorough, "ConstCode<code_consts::GOLOMB4>, LE stream (StaticCodeRead/StaticCodeWrite impls)", "Static* trait impls vs the code own method; symbolic value") => const_static_le::<_, {cc::GOLOMB4}, {GOLOMB}, 4>;
    #[kani::unwind(12)]
    c10_const_golomb5_be (thorough, "ConstCode<code_consts::GOLOMB5>, BE stream", "write/read/len vs golomb(5); symbolic value (domain of the code), offset<=8") => const_code_be::<_, {cc::GOLOMB5}, {GOLOMB}, 5>;
    #[kani::unwind(12)]
    c10_conststatic_golomb5_be (thorough, "ConstCode<code_consts::GOLOMB5>, BE stream (StaticCodeRead/StaticCodeWrite impls)", "Static* trait impls vs the code own method; symbolic value") => const_static_be::<_, {cc::GOLOMB5}, {GOLOMB}, 5>;
    #[kani::unwind(12)]
    c10_const_golomb5_le (thorough, "ConstCode<code_consts::GOLOMB5>, LE stream", "write/read/len vs golomb(5); symbolic value (domain of the code), offset<=8") => const_code_le::<_, {cc::GOLOMB5}, {GOLOMB}, 5>;
    #[kani::unwind(12)]
    c10_conststatic_golomb5_le (thorough, "ConstCode<code_consts::GOLOMB5>, LE stream (StaticCodeRead/StaticCodeWrite impls)", "Static* trait impls vs the code own method; symbolic value") => const_static_le::<_, {cc::GOLOMB5}, {GOLOMB}, 5>;
    #[kani::unwind(12)]
    c10_const_golomb6_be (thorough, "ConstCode<code_consts::GOLOMB6>, BE stream", "write/read/len vs golomb(6); symbolic value (domain of the code), offset<=8") => const_code_be::<_, {cc::GOLOMB6}, {GOLOMB}, 6>;
    #[kani::unwind(12)]
    c10_conststatic_golomb6_be (thorough, "ConstCode<code_consts::GOLOMB6>, BE stream (StaticCodeRead/StaticCodeWrite impls)", "Static* trait impls vs the code own method; symbolic value") => const_static_be::<_, {cc::GOLOMB6}, {GOLOMB}, 6>;
    #[kani::unwind(12)]
    c10_const_golomb6_le (thorough, "ConstCode<code_consts::GOLOMB6>, LE stream", "write/read/len vs golomb(6); symbolic value (domain of the code), offset<=8") => const_code_le::<_, {cc::GOLOMB6}, {GOLOMB}, 6>;
    #[kani::unwind(12)]
    c10_conststatic_golomb6_le (thorough, "ConstCode<code_consts::GOLOMB6>, LE stream (StaticCodeRead/StaticCodeWrite impls)", "Static* trait impls vs the code own method; symbolic value") => const_static_le::<_, {cc::GOLOMB6}, {GOLOMB}, 6>;
    #[kani::unwind(12)]
    c10_const_golomb7_be (thorough, "ConstCode<code_consts::GOLOMB7>, BE stream", "write/read/len vs golomb(7); symbolic value (domain of the code), offset<=8") => const_code_be::<_, {cc::GOLOMB7}, {GOLOMB}, 7>;
    #[kani::unwind(12)]
    c10_conststatic_golomb7_be (thorough, "ConstCode<code_consts::GOLOMB7>, BE stream (StaticCodeRead/StaticCodeWrite impls)", "Static* trait impls vs the code own method; symbolic value") => const_static_be::<_, {cc::GOLOMB7}, {GOLOMB}, 7>;
    #[kani::unwind(12)]
    c10_const_golomb7_le (thorough, "ConstCode<code_consts::GOLOMB7>, LE stream", "write/read/len vs golomb(7); symbolic value (domain of the code), offset<=8") => const_code_le::<_, {cc::GOLOMB7}, {GOLOMB}, 7>;
    #[kani::unwind(12)]
    c10_conststatic_golomb7_le (thorough, "ConstCode<code_consts::GOLOMB7>, LE stream (StaticCodeRead/StaticCodeWrite impls)", "Static* trait impls vs the code own method; symbolic value") => const_static_le::<_, {cc::GOLOMB7}, {GOLOMB}, 7>;
    #[kani::unwind(12)]
    c10_const_golomb8_be (thorough, "ConstCode<code_consts::GOLOMB8>, BE stream", "write/read/len vs golomb(8); symbolic value (domain of the code), offset<=8") => const_code_be::<_, {cc::GOLOMB8}, {GOLOMB}, 8>;
    #[kani::unwind(12)]
    c10_conststatic_golomb8_be (thorough, "ConstCode<code_consts::GOLOMB8>, BE stream (StaticCodeRead/StaticCodeWrite impls)", "Static* trait impls vs the code own method; symbolic value") => const_static_be::<_, {cc::GOLOMB8}, {GOLOMB}, 8>;
    #[kani::unwind(12)]
    c10_const_golomb8_le (thorough, "ConstCode<code_consts::GOLOMB8>, LE stream", "write/read/len vs golomb(8); symbolic value (domain of the code), offset<=8") => const_code_le::<_, {cc::GOLOMB8}, {GOLOMB}, 8>;
    #[kani::unwind(12)]
    c10_conststatic_golomb8_le (thorough, "ConstCode<code_consts::GOLOMB8>, LE stream (StaticCodeRead/StaticCodeWrite impls)", "Static* trait impls vs the code own method; symbolic value") => const_static_le::<_, {cc::GOLOMB8}, {GOLOMB}, 8>;
    #[kani::unwind(12)]
    c10_const_golomb9_be (thorough, "ConstCode<code_consts::GOLOMB9>, BE stream", "write/read/len vs golomb(9); symbolic value (domain of the code), offset<=8") => const_code_be::<_, {cc::GOLOMB9}, {GOLOMB}, 9>;
    #[kani::unwind(12)]
    c10_conststatic_golomb9_be (thorough, "ConstCode<code_consts::GOLOMB9>, BE stream (StaticCodeRead/StaticCodeWrite impls)", "Static* trait impls vs the code own method; symbolic value") => const_static_be::<_, {cc::GOLOMB9}, {GOLOMB}, 9>;
    #[kani::unwind(12)]
    c10_const_golomb9_le (thorough, "ConstCode<code_consts::GOLOMB9>, LE stream", "write/read/len vs golomb(9); symbolic value (domain of the code), offset<=8") => const_code_le::<_, {cc::GOLOMB9}, {GOLOMB}, 9>;
    #[kani::unwind(12)]
    c10_conststatic_golomb9_le (thorough, "ConstCode<code_consts::GOLOMB9>, LE stream (StaticCodeRead/StaticCodeWrite impls)", "Static* trait impls vs the code own method; symbolic value") => const_static_le::<_, {cc::GOLOMB9}, {GOLOMB}, 9>;
    #[kani::unwind(12)]
    c10_const_golomb10_be (quick, "ConstCode<code_consts::GOLOMB10>, BE stream", "write/read/len vs golomb(10); symbolic value (domain of the code), offset<=8") => const_code_be::<_, {cc::GOLOMB10}, {GOLOMB}, 10>;
    #[kani::unwind(12)]
    c10_conststatic_golomb10_be (thorough, "ConstCode<code_consts::GOLOMB10>, BE stream (StaticCodeRead/StaticCodeWrite impls)", "Static* trait impls vs the code own method; symbolic value") => const_static_be::<_, {cc::GOLOMB10}, {GOLOMB}, 10>;
    #[kani::unwind(12)]
    c10_const_golomb10_le (thorough, "ConstCode<code_consts::GOLOMB10>, LE stream", "write/read/len vs golomb(10); symbolic value (domain of the code), offset<=8") => const_code_le::<_, {cc::GOLOMB10}, {GOLOMB}, 10>;
    #[kani::unwind(12)]
    c10_conststatic_golomb10_le (thorough, "ConstCode<code_consts::GOLOMB10>, LE stream (StaticCodeRead/StaticCodeWrite impls)", "Static* trait impls vs the code own method; symbolic value") => const_static_le::<_, {cc::GOLOMB10}, {GOLOMB}, 10>;
    #[kani::unwind(12)]
    c10_const_exp_golomb0_be (quick, "ConstCode<code_consts::EXP_GOLOMB0>, BE stream", "write/read/len vs exp_golomb(0); symbolic value (domain of the code), offset<=8") => const_code_be::<_, {cc::EXP_GOLOMB0}, {EXP_GOLOMB}, 0>;
    #[kani::unwind(12)]
    c10_conststatic_exp_golomb0_be (thorough, "ConstCode<code_consts::EXP_GOLOMB0>, BE stream (StaticCodeRead/StaticCodeWrite impls)", "Static* trait impls vs the code own method; symbolic value") => const_static_be::<_, {cc::EXP_GOLOMB0}, {EXP_GOLOMB}, 0>;
    #[kani::unwind(12)]
    c10_const_exp_golomb0_le (thorough, "ConstCode<code_consts::EXP_GOLOMB0>, LE stream", "write/read/len vs exp_golomb(0); symbolic value (domain of the code), offset<=8") => const_code_le::<_, {cc::EXP_GOLOMB0}, {EXP_GOLOMB}, 0>;
    #[kani::unwind(12)]
    c10_conststatic_exp_golomb0_le (thorough, "ConstCode<code_consts::EXP_GOLOMB0>, LE stream (StaticCodeRead/StaticCodeWrite impls)", "Static* trait impls vs the code own method; symbolic value") => const_static_le::<_, {cc::EXP_GOLOMB0}, {EXP_GOLOMB}, 0>;
    #[kani::unwind(12)]
    c10_const_exp_golomb1_be (thorough, "ConstCode<code_consts::EXP_GOLOMB1>, BE stream", "write/read/len vs exp_golomb(1); symbolic value (domain of the code), offset<=8") => const_code_be::<_, {cc::EXP_GOLOMB1}, {EXP_GOLOMB}, 1>;
    #[kani::unwind(12)]
    c10_conststatic_exp_golomb1_be (thorough, "ConstCode<code_consts::EXP_GOLOMB1>, BE stream (StaticCodeRead/StaticCodeWrite impls)", "Static* trait impls vs the code own method; symbolic value") => const_static_be::<_, {cc::EXP_GOLOMB1}, {EXP_GOLOMB}, 1>;
    #[kani::unwind(12)]
    c10_const_exp_golomb1_le (thorough, "ConstCode<code_consts::EXP_GOLOMB1>, LE stream", "write/read/len vs exp_golomb(1); symbolic value (domain of the code), offset<=8") => const_code_le::<_, {cc::EXP_GOLOMB1}, {EXP_GOLOMB}, 1>;
    #[kani::unwind(12)]
    c10_conststatic_exp_golomb1_le (thorough, "ConstCode<code_consts::EXP_GOLOMB1>, LE stream (StaticCodeRead/StaticCodeWrite impls)", "Static* trait impls vs the code own method; symbolic value") => const_static_le::<_, {cc::EXP_GOLOMB1}, {EXP_GOLOMB}, 1>;
    #[kani::unwind(12)]
    c10_const_exp_golomb2_be (thorough, "ConstCode<code_consts::EXP_GOLOMB2>, BE stream", "write/read/len vs exp_golomb(2); symbolic value (domain of the code), offset<=8") => const_code_be::<_, {cc::EXP_GOLOMB2}, {EXP_GOLOMB}, 2>;
    #[kani::unwind(12)]
    c10_conststatic_exp_golomb2_be (thorough, "ConstCode<code_consts::EXP_GOLOMB2>, BE stream (StaticCodeRead/StaticCodeWrite impls)", "Static* trait impls vs the code own method; symbolic value") => const_static_be::<_, {cc::EXP_GOLOMB2}, {EXP_GOLOMB}, 2>;
    #[kani::unwind(12)]
    c10_const_exp_golomb2_le (thorough, "ConstCode<code_consts::EXP_GOLOMB2>, LE stream", "write/read/len vs exp_golomb(2); symbolic value (domain of the code), offset<=8") => const_code_le::<_, {cc::EXP_GOLOMB2}, {EXP_GOLOMB}, 2>;
    #[kani::unwind(12)]
    c10_conststatic_exp_golomb2_le (thorough, "ConstCode<code_consts::EXP_GOLOMB2>, LE stream (StaticCodeRead/StaticCodeWrite impls)", "Static* trait impls vs the code own method; symbolic value") => const_static_le::<_, {cc::EXP_GOLOMB2}, {EXP_GOLOMB}, 2>;
    #[kani::unwind(12)]
    c10_const_exp_golomb3_be (thorough, "ConstCode<code_consts::EXP_GOLOMB3>, BE stream", "write/read/len vs exp_golomb(3); symbolic value (domain of the code), offset<=8") => const_code_be::<_, {cc::EXP_GOLOMB3}, {EXP_GOLOMB}, 3>;
    #[kani::unwind(12)]
    c10_conststatic_exp_golomb3_be (thorough, "ConstCode<code_consts::EXP_GOLOMB3>, BE stream (StaticCodeRead/StaticCodeWrite impls)", "Static* trait impls vs the code own method; symbolic value") => const_static_be::<_, {cc::EXP_GOLOMB3}, {EXP_GOLOMB}, 3>;
    #[kani::unwind(12)]
    c10_const_exp_golomb3_le (thorough, "ConstCode<code_consts::EXP_GOLOMB3>, LE stream", "write/read/len vs exp_golomb(3); symbolic value (domain of the code), offset<=8") => const_code_le::<_, {cc::EXP_GOLOMB3}, {EXP_GOLOMB}, 3>;
    #[kani::unwind(12)]
    c10_conststatic_exp_golomb3_le (thorough, "ConstCode<code_consts::EXP_GOLOMB3>, LE stream (StaticCodeRead/StaticCodeWrite impls)", "Static* trait impls vs the code own method; symbolic value") => const_static_le::<_, {cc::EXP_GOLOMB3}, {EXP_GOLOMB}, 3>;
    #[kani::unwind(12)]
    c10_const_exp_golomb4_be (quick, "ConstCode<code_consts::EXP_GOLOMB4>, BE stream", "write/read/len vs exp_golomb(4); symbolic value (domain of the code), offset<=8") => const_code_be::<_, {cc::EXP_GOLOMB4}, {EXP_GOLOMB}, 4>;
    #[kani::unwind(12)]
    c10_conststatic_exp_golomb4_be (thorough, "ConstCode<code_consts::EXP_GOLOMB4>, BE stream (StaticCodeRead/StaticCodeWrite impls)", "Static* trait impls vs the code own method; symbolic value") => const_static_be::<_, {cc::EXP_GOLOMB4}, {EXP_GOLOMB}, 4>;
    #[kani::unwind(12)]
    c10_const_exp_golomb4_le (thorough, "ConstCode<code_consts::EXP_GOLOMB4>, LE stream", "write/read/len vs exp_golomb(4); symbolic value (domain of the code), offset<=8") => const_code_le::<_, {cc::EXP_GOLOMB4}, {EXP_GOLOMB}, 4>;
    #[kani::unwind(12)]
    c10_conststatic_exp_golomb4_le (thorough, "ConstCode<code_consts::EXP_GOLOMB4>, LE stream (StaticCodeRead/StaticCodeWrite impls)", "Static* trait impls vs the code own method; symbolic value") => const_static_le::<_, {cc::EXP_GOLOMB4}, {EXP_GOLOMB}, 4>;
    #[kani::unwind(12)]
    c10_const_exp_golomb5_be (thorough, "ConstCode<code_consts::EXP_GOLOMB5>, BE stream", "write/read/len vs exp_golomb(5); symbolic value (domain of the code), offset<=8") => const_code_be::<_, {cc::EXP_GOLOMB5}, {EXP_GOLOMB}, 5>;
    #[kani::unwind(12)]
    c10_conststatic_exp_golomb5_be (thorough, "ConstCode<code_consts::EXP_GOLOMB5>, BE stream (StaticCodeRead/StaticCodeWrite impls)", "Static* trait impls vs the code own method; symbolic value") => const_static_be::<_, {cc::EXP_GOLOMB5}, {EXP_GOLOMB}, 5>;
    #[kani::unwind(12)]
    c10_const_exp_golomb5_le (thorough, "ConstCode<code_consts::EXP_GOLOMB5>, LE stream", "write/read/len vs exp_golomb(5); symbolic value (domain of the code), offset<=8") => const_code_le::<_, {cc::EXP_GOLOMB5}, {EXP_GOLOMB}, 5>;
    #[kani::unwind(12)]
    c10_conststatic_exp_golomb5_le (thorough, "ConstCode<code_consts::EXP_GOLOMB5>, LE stream (StaticCodeRead/StaticCodeWrite impls)", "Static* trait impls vs the code own method; symbolic value") => const_static_le::<_, {cc::EXP_GOLOMB5}, {EXP_GOLOMB}, 5>;
    #[kani::unwind(12)]
    c10_const_exp_golomb6_be (thorough, "ConstCode<code_consts::EXP_GOLOMB6>, BE stream", "write/read/len vs exp_golomb(6); symbolic value (domain of the code), offset<=8") => const_code_be::<_, {cc::EXP_GOLOMB6}, {EXP_GOLOMB}, 6>;
    #[kani::unwind(12)]
    c10_conststatic_exp_golomb6_be (thorough, "ConstCode<code_consts::EXP_GOLOMB6>, BE stream (StaticCodeRead/StaticCodeWrite impls)", "Static* trait impls vs the code own method; symbolic value") => const_static_be::<_, {cc::EXP_GOLOMB6}, {EXP_GOLOMB}, 6>;
    #[kani::unwind(12)]
    c10_const_exp_golomb6_le (thorough, "ConstCode<code_consts::EXP_GOLOMB6>, LE stream", "write/read/len vs exp_golomb(6); symbolic value (domain of the code), offset<=8") => const_code_le::<_, {cc::EXP_GOLOMB6}, {EXP_GOLOMB}, 6>;
    #[kani::unwind(12)]
    c10_conststatic_exp_golomb6_le (thorough, "ConstCode<code_consts::EXP_GOLOMB6>, LE stream (StaticCodeRead/StaticCodeWrite impls)", "Static* trait impls vs the code own method; symbolic value") => const_static_le::<_, {cc::EXP_GOLOMB6}, {EXP_GOLOMB}, 6>;
    #[kani::unwind(12)]
    c10_const_exp_golomb7_be (thorough, "ConstCode<code_consts::EXP_GOLOMB7>, BE stream", "write/read/len vs exp_golomb(7); symbolic value (domain of the code), offset<=8") => const_code_be::<_, {cc::EXP_GOLOMB7}, {EXP_GOLOMB}, 7>;
    #[kani::unwind(12)]
    c10_conststatic_exp_golomb7_be (thorough, "ConstCode<code_consts::EXP_GOLOMB7>, BE stream (StaticCodeRead/StaticCodeWrite impls)", "Static* trait impls vs the code own method; symbolic value") => const_static_be::<_, {cc::EXP_GOLOMB7}, {EXP_GOLOMB}, 7>;
    #[kani::unwind(12)]
    c10_const_exp_golomb7_le (thorough, "ConstCode<code_consts::EXP_GOLOMB7>, LE stream", "write/read/len vs exp_golomb(7); symbolic value (domain of the code), offset<=8") => const_code_le::<_, {cc::EXP_GOLOMB7}, {EXP_GOLOMB}, 7>;
    #[kani::unwind(12)]
    c10_conststatic_exp_golomb7_le (thorough, "ConstCode<code_consts::EXP_GOLOMB7>, LE stream (StaticCodeRead/StaticCodeWrite impls)", "Static* trait impls vs the code own method; symbolic value") => const_static_le::<_, {cc::EXP_GOLOMB7}, {EXP_GOLOMB}, 7>;
    #[kani::unwind(12)]
    c10_const_exp_golomb8_be (thorough, "ConstCode<code_consts::EXP_GOLOMB8>, BE stream", "write/read/len vs exp_golomb(8); symbolic value (domain of the code), offset<=8") => const_code_be::<_, {cc::EXP_GOLOMB8}, {EXP_GOLOMB}, 8>;
    #[kani::unwind(12)]
    c10_conststatic_exp_golomb8_be (thorough, "ConstCode<code_consts::EXP_GOLOMB8>, BE stream (StaticCodeRead/StaticCodeWrite impls)", "Static* trait impls vs the code own method; symbolic value") => const_static_be::<_, {cc::EXP_GOLOMB8}, {EXP_GOLOMB}, 8>;
    #[kani::unwind(12)]
    c10_const_exp_golomb8_le (thorough, "ConstCode<code_consts::EXP_GOLOMB8>, LE stream", "write/read/len vs exp_golomb(8); symbolic value (domain of the code), offset<=8") => const_code_le::<_, {cc::EXP_GOLOMB8}, {EXP_GOLOMB}, 8>;
    #[kani::unwind(12)]
    c10_conststatic_exp_golomb8_le (thorough, "ConstCode<code_consts::EXP_GOLOMB8>, LE stream (StaticCodeRead/StaticCodeWrite impls)", "Static* trait impls vs the code own method; symbolic value") => const_static_le::<_, {cc::EXP_GOLOMB8}, {EXP_GOLOMB}, 8>;
    #[kani::unwind(12)]
    c10_const_exp_golomb9_be (thorough, "ConstCode<code_consts::EXP_GOLOMB9>, BE stream", "write/read/len vs exp_golomb(9); symbolic value (domain of the code), offset<=8") => const_code_be::<_, {cc::EXP_GOLOMB9}, {EXP_GOLOMB}, 9>;
    #[kani::unwind(12)]
    c10_conststatic_exp_golomb9_be (thorough, "ConstCode<code_consts::EXP_GOLOMB9>, BE stream (StaticCodeRead/StaticCodeWrite impls)", "Static* trait impls vs the code own method; symbolic value") => const_static_be::<_, {cc::EXP_GOLOMB9}, {EXP_GOLOMB}, 9>;
    #[kani::unwind(12)]
    c10_const_exp_golomb9_le (thorough, "ConstCode<code_consts::EXP_GOLOMB9>, LE stream", "write/read/len vs exp_golomb(9); symbolic value (domain of the code), offset<=8") => const_code_le::<_, {cc::EXP_GOLOMB9}, {EXP_GOLOMB}, 9>;
    #[kani::unwind(12)]
    c10_conststatic_exp_golomb9_le (thorough, "ConstCode<code_consts::EXP_GOLOMB9>, LE stream (StaticCodeRead/StaticCodeWrite impls)", "Static* trait impls vs the code own method; symbolic value") => const_static_le::<_, {cc::EXP_GOLOMB9}, {EXP_GOLOMB}, 9>;
    #[kani::unwind(12)]
    c10_const_exp_golomb10_be (thorough, "ConstCode<code_consts::EXP_GOLOMB10>, BE stream", "write/read/len vs exp_golomb(10); symbolic value (domain of the code), offset<=8") => const_code_be::<_, {cc::EXP_GOLOMB10}, {EXP_GOLOMB}, 10>;
    #[kani::unwind(12)]
    c10_conststatic_exp_golomb10_be (thorough, "ConstCode<code_consts::EXP_GOLOMB10>, BE stream (StaticCodeRead/StaticCodeWrite impls)", "Static* trait impls vs the code own method; symbolic value") => const_static_be::<_, {cc::EXP_GOLOMB10}, {EXP_GOLOMB}, 10>;
    #[kani::unwind(12)]
    c10_const_exp_golomb10_le (thorough, "ConstCode<code_consts::EXP_GOLOMB10>, LE stream", "write/read/len vs exp_golomb(10); symbolic value (domain of the code), offset<=8") => const_code_le::<_, {cc::EXP_GOLOMB10}, {EXP_GOLOMB}, 10>;
    #[kani::unwind(12)]
    c10_conststatic_exp_golomb10_le (thorough, "ConstCode<code_consts::EXP_GOLOMB10>, LE stream (StaticCodeRead/StaticCodeWrite impls)", "Static* trait impls vs the code own method; symbolic value") => const_static_le::<_, {cc::EXP_GOLOMB10}, {EXP_GOLOMB}, 10>;
    #[kani::unwind(12)]
    c10_codes_unary0_be (quick, "Codes::Unary param 0, BE stream", "Codes::write/read/len vs the code own method; symbolic value") => codes_be::<_, {UNARY}, 0>;
    #[kani::unwind(12)]
    c10_codesstatic_unary0_be (thorough, "Codes::Unary param 0, BE stream (StaticCodeRead/StaticCodeWrite impls)", "Static* trait impls vs the code own method; symbolic value") => codes_static_be::<_, {UNARY}, 0>;
    #[kani::unwind(12)]
    c10_codes_unary0_le (thorough, "Codes::Unary param 0, LE stream", "Codes::write/read/len vs the code own method; symbolic value") => codes_le::<_, {UNARY}, 0>;
    #[kani::unwind(12)]
    c10_codesstatic_unary0_le (thorough, "Codes::Unary param 0, LE stream (StaticCodeRead/StaticCodeWrite impls)", "Static* trait impls vs the code own method; symbolic value") => codes_static_le::<_, {UNARY}, 0>;
    #[kani::unwind(12)]
    c10_codes_gamma0_be (thorough, "Codes::Gamma param 0, BE stream", "Codes::write/read/len vs the code own method; symbolic value") => codes_be::<_, {GAMMA}, 0>;
    #[kani::unwind(12)]
    c10_codesstatic_gamma0_be (thorough, "Codes::Gamma param 0, BE stream (StaticCodeRead/StaticCodeWrite impls)", "Static* trait impls vs the code own method; symbolic value") => codes_static_be::<_, {GAMMA}, 0>;
    #[kani::unwind(12)]
    c10_codes_gamma0_le (thorough, "Codes::Gamma param 0, LE stream", "Codes::write/read/len vs the code own method; symbolic value") => codes_le::<_, {GAMMA}, 0>;
    #[kani::unwind(12)]
    c10_codesstatic_gamma0_le (thorough, "Codes::Gamma param 0, LE stream (StaticCodeRead/StaticCodeWrite impls)", "Static* trait impls vs the code own method; symbolic value") => codes_static_le::<_, {GAMMA}, 0>;
    #[kani::unwind(12)]
    c10_codes_delta0_be (quick, "Codes::Delta param 0, BE stream", "Codes::write/read/len vs the code own method; symbolic value") => codes_be::<_, {DELTA}, 0>;
    #[kani::unwind(12)]
    c10_codesstatic_delta0_be (thorough, "Codes::Delta param 0, BE stream (StaticCodeRead/StaticCodeWrite impls)", "Static* trait impls vs the code own method; symbolic value") => codes_static_be::<_, {DELTA}, 0>;
    #[kani::unwind(12)]
    c10_codes_delta0_le (thorough, "Codes::Delta param 0, LE stream", "Codes::write/read/len vs the code own method; symbolic value") => codes_le::<_, {DELTA}, 0>;
    #[kani::unwind(12)]
    c10_codesstatic_delta0_le (thorough, "Codes::Delta param 0, LE stream (StaticCodeRead/StaticCodeWrite impls)", "Static* trait impls vs the code own method; symbolic value") => codes_static_le::<_, {DELTA}, 0>;
    #[kani::unwind(12)]
    c10_codes_omega0_be (thorough, "Codes::Omega param 0, BE stream", "Codes::write/read/len vs the code own method; symbolic value") => codes_be::<_, {OMEGA}, 0>;
    #[kani::unwind(12)]
    c10_codesstatic_omega0_be (thorough, "Codes::Omega param 0, BE stream (StaticCodeRead/StaticCodeWrite impls)", "Static* trait impls vs the code own method; symbolic value") => codes_static_be::<_, {OMEGA}, 0>;
    #[kani::unwind(12)]
    c10_codes_omega0_le (thorough, "Codes::Omega param 0, LE stream", "Codes::write/read/len vs the code own method; symbolic value") => codes_le::<_, {OMEGA}, 0>;
    #[kani::unwind(12)]
    c10_codesstatic_omega0_le (thorough, "Codes::Omega param 0, LE stream (StaticCodeRead/StaticCodeWrite impls)", "Static* trait impls vs the code own method; symbolic value") => codes_static_le::<_, {OMEGA}, 0>;
    #[kani::unwind(12)]
    c10_codes_vbyte_be0_be (quick, "Codes::VbyteBe param 0, BE stream", "Codes::write/read/len vs the code own method; symbolic value") => codes_be::<_, {VBYTE_BE}, 0>;
    #[kani::unwind(12)]
    c10_codesstatic_vbyte_be0_be (thorough, "Codes::VbyteBe param 0, BE stream (StaticCodeRead/StaticCodeWrite impls)", "Static* trait impls vs the code own method; symbolic value") => codes_static_be::<_, {VBYTE_BE}, 0>;
    #[kani::unwind(12)]
    c10_codes_vbyte_be0_le (thorough, "Codes::VbyteBe param 0, LE stream", "Codes::write/read/len vs the code own method; symbolic value") => codes_le::<_, {VBYTE_BE}, 0>;
    #[kani::unwind(12)]
    c10_codesstatic_vbyte_be0_le (thorough, "Codes::VbyteBe param 0, LE stream (StaticCodeRead/StaticCodeWrite impls)", "Static* trait impls vs the code own method; symbolic value") => codes_static_le::<_, {VBYTE_BE}, 0>;
    #[kani::unwind(12)]
    c10_codes_vbyte_le0_be (thorough, "Codes::VbyteLe param 0, BE stream", "Codes::write/read/len vs the code own method; symbolic value") => codes_be::<_, {VBYTE_LE}, 0>;
    #[kani::unwind(12)]
    c10_codesstatic_vbyte_le0_be (thorough, "Codes::VbyteLe param 0, BE stream (StaticCodeRead/StaticCodeWrite impls)", "Static* trait impls vs the code own method; symbolic value") => codes_static_be::<_, {VBYTE_LE}, 0>;
    #[kani::unwind(12)]
    c10_codes_vbyte_le0_le (thorough, "Codes::VbyteLe param 0, LE stream", "Codes::write/read/len vs the code own method; symbolic value") => codes_le::<_, {VBYTE_LE}, 0>;
    #[kani::unwind(12)]
    c10_codesstatic_vbyte_le0_le (thorough, "Codes::VbyteLe param 0, LE stream (StaticCodeRead/StaticCodeWrite impls)", "Static* trait impls vs the code own method; symbolic value") => codes_static_le::<_, {VBYTE_LE}, 0>;
    #[kani::unwind(12)]
    c10_codes_zeta1_be (quick, "Codes::Zeta param 1, BE stream", "Codes::write/read/len vs the code own method; symbolic value") => codes_be::<_, {ZETA}, 1>;
    #[kani::unwind(12)]
    c10_codesstatic_zeta1_be (thorough, "Codes::Zeta param 1, BE stream (StaticCodeRead/StaticCodeWrite impls)", "Static* trait impls vs the code own method; symbolic value") => codes_static_be::<_, {ZETA}, 1>;
    #[kani::unwind(12)]
    c10_codes_zeta1_le (thorough, "Codes::Zeta param 1, LE stream", "Codes::write/read/len vs the code own method; symbolic value") => codes_le::<_, {ZETA}, 1>;
    #[kani::unwind(12)]
    c10_codesstatic_zeta1_le (thorough, "Codes::Zeta param 1, LE stream (StaticCodeRead/StaticCodeWrite impls)", "Static* trait impls vs the code own method; symbolic value") => codes_static_le::<_, {ZETA}, 1>;
    #[kani::unwind(12)]
    c10_codes_zeta2_be (thorough, "Codes::Zeta param 2, BE stream", "Codes::write/read/len vs the code own method; symbolic value") => codes_be::<_, {ZETA}, 2>;
    #[kani::unwind(12)]
    c10_codesstatic_zeta2_be (thorough, "Codes::Zeta param 2, BE stream (StaticCodeRead/StaticCodeWrite impls)", "Static* trait impls vs the code own method; symbolic value") => codes_static_be::<_, {ZETA}, 2>;
    #[kani::unwind(12)]
    c10_codes_zeta2_le (thorough, "Codes::Zeta param 2, LE stream", "Codes::write/read/len vs the code own method; symbolic value") => codes_le::<_, {ZETA}, 2>;
    #[kani::unwind(12)]
    c10_codesstatic_zeta2_le (thorough, "Codes::Zeta param 2, LE stream (StaticCodeRead/StaticCodeWrite impls)", "Static* trait impls vs the code own method; symbolic value") => codes_static_le::<_, {ZETA}, 2>;
    #[kani::unwind(12)]
    c10_codes_zeta3_be (thorough, "Codes::Zeta param 3, BE stream", "Codes::write/read/len vs the code own method; symbolic value") => codes_be::<_, {ZETA}, 3>;
    #[kani::unwind(12)]
    c10_codesstatic_zeta3_be (thorough, "Codes::Zeta param 3, BE stream (StaticCodeRead/StaticCodeWrite impls)", "Static* trait impls vs the code own method; symbolic value") => codes_static_be::<_, {ZETA}, 3>;
    #[kani::unwind(12)]
    c10_codes_zeta3_le (thorough, "Codes::Zeta param 3, LE stream", "Codes::write/read/len vs the code own method; symbolic value") => codes_le::<_, {ZETA}, 3>;
    #[kani::unwind(12)]
    c10_codesstatic_zeta3_le (thorough, "Codes::Zeta param 3, LE stream (StaticCodeRead/StaticCodeWrite impls)", "Static* trait impls vs the code own method; symbolic value") => codes_static_le::<_, {ZETA}, 3>;
    #[kani::unwind(12)]
    c10_codes_zeta4_be (quick, "Codes::Zeta param 4, BE stream", "Codes::write/read/len vs the code own method; symbolic value") => codes_be::<_, {ZETA}, 4>;
    #[kani::unwind(12)]
    c10_codesstatic_zeta4_be (quick, "Codes::Zeta param 4, BE stream (StaticCodeRead/StaticCodeWrite impls)", "Static* trait impls vs the code own method; symbolic value") => codes_static_be::<_, {ZETA}, 4>;
    #[kani::unwind(12)]
    c10_codes_zeta4_le (thorough, "Codes::Zeta param 4, LE stream", "Codes::write/read/len vs the code own method; symbolic value") => codes_le::<_, {ZETA}, 4>;
    #[kani::unwind(12)]
    c10_codesstatic_zeta4_le (thorough, "Codes::Zeta param 4, LE stream (StaticCodeRead/StaticCodeWrite impls)", "Static* trait impls vs the code own method; symbolic value") => codes_static_le::<_, {ZETA}, 4>;
    #[kani::unwind(12)]
    c10_codes_zeta5_be (thorough, "Codes::Zeta param 5, BE stream", "Codes::write/read/len vs the code own method; symbolic value") => codes_be::<_, {ZETA}, 5>;
    #[kani::unwind(12)]
    c10_codesstatic_zeta5_be (thorough, "Codes::Zeta param 5, BE stream (StaticCodeRead/StaticCodeWrite impls)", "Static* trait impls vs the code own method; symbolic value") => codes_static_be::<_, {ZETA}, 5>;
    #[kani::unwind(12)]
    c10_codes_zeta5_le (thorough, "Codes::Zeta param 5, LE stream", "Codes::write/read/len vs the code own method; symbolic value") => codes_le::<_, {ZETA}, 5>;
    #[kani::unwind(12)]
    c10_codesstatic_zeta5_le (thorough, "Codes::Zeta param 5, LE stream (StaticCodeRead/StaticCodeWrite impls)", "Static* trait impls vs the code own method; symbolic value") => codes_static_le::<_, {ZETA}, 5>;
    #[kani::unwind(12)]
    c10_codes_zeta6_be (thorough, "Codes::Zeta param 6, BE stream", "Codes::write/read/len vs the code own method; symbolic value") => codes_be::<_, {ZETA}, 6>;
    #[kani::unwind(12)]
    c10_codesstatic_zeta6_be (thorough, "Codes::Zeta param 6, BE stream (StaticCodeRead/StaticCodeWrite impls)", "Static* trait impls vs the code own method; symbolic value") => codes_static_be::<_, {ZETA}, 6>;
    #[kani::unwind(12)]
    c10_codes_zeta6_le (thorough, "Codes::Zeta param 6, LE stream", "Codes::write/read/len vs the code own method; symbolic value") => codes_le::<_, {ZETA}, 6>;
    #[kani::unwind(12)]
    c10_codesstatic_zeta6_le (thorough, "Codes::Zeta param 6, LE stream (StaticCodeRead/StaticCodeWrite impls)", "Static* trait impls vs the code own method; symbolic value") => codes_static_le::<_, {ZETA}, 6>;
    #[kani::unwind(12)]
    c10_codes_zeta7_be (thorough, "Codes::Zeta param 7, BE stream", "Codes::write/read/len vs the code own method; symbolic value") => codes_be::<_, {ZETA}, 7>;
    #[kani::unwind(12)]
    c10_codesstatic_zeta7_be (thorough, "Codes::Zeta param 7, BE stream (StaticCodeRead/StaticCodeWrite impls)", "Static* trait impls vs the code own method; symbolic value") => codes_static_be::<_, {ZETA}, 7>;
    #[kani::unwind(12)]
    c10_codes_zeta7_le (thorough, "Codes::Zeta param 7, LE stream", "Codes::write/read/len vs the code own method; symbolic value") => codes_le::<_, {ZETA}, 7>;
    #[kani::unwind(12)]
    c10_codesstatic_zeta7_le (thorough, "Codes::Zeta param 7, LE stream (StaticCodeRead/StaticCodeWrite impls)", "Static* trait impls vs the code own method; symbolic value") => codes_static_le::<_, {ZETA}, 7>;
    #[kani::unwind(12)]
    c10_codes_zeta8_be (thorough, "Codes::Zeta param 8, BE stream", "Codes::write/read/len vs the code own method; symbolic value") => codes_be::<_, {ZETA}, 8>;
    #[kani::unwind(12)]
    c10_codesstatic_zeta8_be (thorough, "Codes::Zeta param 8, BE stream (StaticCodeRead/StaticCodeWrite impls)", "Static* trait impls vs the code own method; symbolic value") => codes_static_be::<_, {ZETA}, 8>;
    #[kani::unwind(12)]
    c10_codes_zeta8_le (thorough, "Codes::Zeta param 8, LE stream", "Codes::write/read/len vs the code own method; symbolic value") => codes_le::<_, {ZETA}, 8>;
    #[kani::unwind(12)]
    c10_codesstatic_zeta8_le (thorough, "Codes::Zeta param 8, LE stream (StaticCodeRead/StaticCodeWrite impls)", "Static* trait impls vs the code own method; symbolic value") => codes_static_le::<_, {ZETA}, 8>;
    #[kani::unwind(12)]
    c10_codes_zeta9_be (thorough, "Codes::Zeta param 9, BE stream", "Codes::write/read/len vs the code own method; symbolic value") => codes_be::<_, {ZETA}, 9>;
    #[kani::unwind(12)]
    c10_codesstatic_zeta9_be (thorough, "Codes::Zeta param 9, BE stream (StaticCodeRead/StaticCodeWrite impls)", "Static* trait impls vs the code own method; symbolic value") => codes_static_be::<_, {ZETA}, 9>;
    #[kani::unwind(12)]
    c10_codes_zeta9_le (thorough, "Codes::Zeta param 9, LE stream", "Codes::write/read/len vs the code own method; symbolic value") => codes_le::<_, {ZETA}, 9>;
    #[kani::unwind(12)]
    c10_codesstatic_zeta9_le (thorough, "Codes::Zeta param 9, LE stream (StaticCodeRead/StaticCodeWrite impls)", "Static* trait impls vs the code own method; symbolic value") => codes_static_le::<_, {ZETA}, 9>;
    #[kani::unwind(12)]
    c10_codes_zeta10_be (thorough, "Codes::Zeta param 10, BE stream", "Codes::write/read/len vs the code own method; symbolic value") => codes_be::<_, {ZETA}, 10>;
    #[kani::unwind(12)]
    c10_codesstatic_zeta10_be (thorough, "Codes::Zeta param 10, BE stream (StaticCodeRead/StaticCodeWrite impls)", "Static* trait impls vs the code own method; symbolic value") => codes_static_be::<_, {ZETA}, 10>;
    #[kani::unwind(12)]
    c10_codes_zeta10_le (thorough, "Codes::Zeta param 10, LE stream", "Codes::write/read/len vs the code own method; symbolic value") => codes_le::<_, {ZETA}, 10>;
    #[kani::unwind(12)]
    c10_codesstatic_zeta10_le (thorough, "Codes::Zeta param 10, LE stream (StaticCodeRead/StaticCodeWrite impls)", "Static* trait impls vs the code own method; symbolic value") => codes_static_le::<_, {ZETA}, 10>;
    #[kani::unwind(12)]
    c10_codes_zeta11_be (thorough, "Codes::Zeta param 11, BE stream", "Codes::write/read/len vs the code own method; symbolic value") => codes_be::<_, {ZETA}, 11>;
    #[kani::unwind(12)]
    c10_codesstatic_zeta11_be (thorough, "Codes::Zeta param 11, BE stream (StaticCodeRead/StaticCodeWrite impls)", "Static* trait impls vs the code own method; symbolic value") => codes_static_be::<_, {ZETA}, 11>;
    #[kani::unwind(12)]
    c10_codes_zeta11_le (thorough, "Codes::Zeta param 11, LE stream", "Codes::write/read/len vs the code own method; symbolic value") => codes_le::<_, {ZETA}, 11>;
    #[kani::unwind(12)]
    c10_codesstatic_zeta11_le (thorough, "Codes::Zeta param 11, LE stream (StaticCodeRead/StaticCodeWrite impls)", "Static* trait impls vs the code own method; symbolic value") => codes_static_le::<_, {ZETA}, 11>;
    #[kani::unwind(12)]
    c10_codes_pi0_be (quick, "Codes::Pi param 0, BE stream", "Codes::write/read/len vs the code own method; symbolic value") => codes_be::<_, {PI}, 0>;
    #[kani::unwind(12)]
    c10_codesstatic_pi0_be (thorough, "Codes::Pi param 0, BE stream (StaticCodeRead/StaticCodeWrite impls)", "Static* trait impls vs the code own method; symbolic value") => codes_static_be::<_, {PI}, 0>;
    #[kani::unwind(12)]
    c10_codes_pi0_le (thorough, "Codes::Pi param 0, LE stream", "Codes::write/read/len vs the code own method; symbolic value") => codes_le::<_, {PI}, 0>;
    #[kani::unwind(12)]
    c10_codesstatic_pi0_le (thorough, "Codes::Pi param 0, LE stream (StaticCodeRead/StaticCodeWrite impls)", "Static* trait impls vs the code own method; symbolic value") => codes_static_le::<_, {PI}, 0>;
    #[kani::unwind(12)]
    c10_codes_pi1_be (quick, "Codes::Pi param 1, BE stream", "Codes::write/read/len vs the code own method; symbolic value") => codes_be::<_, {PI}, 1>;
    #[kani::unwind(12)]
    c10_codesstatic_pi1_be (thorough, "Codes::Pi param 1, BE stream (StaticCodeRead/StaticCodeWrite impls)", "Static* trait impls vs the code own method; symbolic value") => codes_static_be::<_, {PI}, 1>;
    #[kani::unwind(12)]
    c10_codes_pi1_le (thorough, "Codes::Pi param 1, LE stream", "Codes::write/read/len vs the code own method; symbolic value") => codes_le::<_, {PI}, 1>;
    #[kani::unwind(12)]
    c10_codesstatic_pi1_le (thorough, "Codes::Pi param 1, LE stream (StaticCodeRead/StaticCodeWrite impls)", "Static* trait impls vs the code own method; symbolic value") => codes_static_le::<_, {PI}, 1>;
    #[kani::unwind(12)]
    c10_codes_pi2_be (thorough, "Codes::Pi param 2, BE stream", "Codes::write/read/len vs the code own method; symbolic value") => codes_be::<_, {PI}, 2>;
    #[kani::unwind(12)]
    c10_codesstatic_pi2_be (thorough, "Codes::Pi param 2, BE stream (StaticCodeRead/StaticCodeWrite impls)", "Static* trait impls vs the code own method; symbolic value") => codes_static_be::<_, {PI}, 2>;
    #[kani::unwind(12)]
    c10_codes_pi2_le (thorough, "Codes::Pi param 2, LE stream", "Codes::write/read/len vs the code own method; symbolic value") => codes_le::<_, {PI}, 2>;
    #[kani::unwind(12)]
    c10_codesstatic_pi2_le (thorough, "Codes::Pi param 2, LE stream (StaticCodeRead/StaticCodeWrite impls)", "Static* trait impls vs the code own method; symbolic value") => codes_static_le::<_, {PI}, 2>;
    #[kani::unwind(12)]
    c10_codes_pi3_be (thorough, "Codes::Pi param 3, BE stream", "Codes::write/read/len vs the code own method; symbolic value") => codes_be::<_, {PI}, 3>;
    #[kani::unwind(12)]
    c10_codesstatic_pi3_be (thorough, "Codes::Pi param 3, BE stream (StaticCodeRead/StaticCodeWrite impls)", "Static* trait impls vs the code own method; symbolic value") => codes_static_be::<_, {PI}, 3>;
    #[kani::unwind(12)]
    c10_codes_pi3_le (thorough, "Codes::Pi param 3, LE stream", "Codes::write/read/len vs the code own method; symbolic value") => codes_le::<_, {PI}, 3>;
    #[kani::unwind(12)]
    c10_codesstatic_pi3_le (thorough, "Codes::Pi param 3, LE stream (StaticCodeRead/StaticCodeWrite impls)", "Static* trait impls vs the code own method; symbolic value") => codes_static_le::<_, {PI}, 3>;
    #[kani::unwind(12)]
    c10_codes_pi4_be (thorough, "Codes::Pi param 4, BE stream", "Codes::write/read/len vs the code own method; symbolic value") => codes_be::<_, {PI}, 4>;
    #[kani::unwind(12)]
    c10_codesstatic_pi4_be (thorough, "Codes::Pi param 4, BE stream (StaticCodeRead/StaticCodeWrite impls)", "Static* trait impls vs the code own method; symbolic value") => codes_static_be::<_, {PI}, 4>;
    #[kani::unwind(12)]
    c10_codes_pi4_le (thorough, "Codes::Pi param 4, LE stream", "Codes::write/read/len vs the code own method; symbolic value") => codes_le::<_, {PI}, 4>;
    #[kani::unwind(12)]
    c10_codesstatic_pi4_le (thorough, "Codes::Pi param 4, LE stream (StaticCodeRead/StaticCodeWrite impls)", "Static* trait impls vs the code own method; symbolic value") => codes_static_le::<_, {PI}, 4>;
    #[kani::unwind(12)]
    c10_codes_pi5_be (thorough, "Codes::Pi param 5, BE stream", "Codes::write/read/len vs the code own method; symbolic value") => codes_be::<_, {PI}, 5>;
    #[kani::unwind(12)]
    c10_codesstatic_pi5_be (thorough, "Codes::Pi param 5, BE stream (StaticCodeRead/StaticCodeWrite impls)", "Static* trait impls vs the code own method; symbolic value") => codes_static_be::<_, {PI}, 5>;
    #[kani::unwind(12)]
    c10_codes_pi5_le (thorough, "Codes::Pi param 5, LE stream", "Codes::write/read/len vs the code own method; symbolic value") => codes_le::<_, {PI}, 5>;
    #[kani::unwind(12)]
    c10_codesstatic_pi5_le (thorough, "Codes::Pi param 5, LE stream (StaticCodeRead/StaticCodeWrite impls)", "Static* trait impls vs the code own method; symbolic value") => codes_static_le::<_, {PI}, 5>;
    #[kani::unwind(12)]
    c10_codes_pi6_be (thorough, "Codes::Pi param 6, BE stream", "Codes::write/read/len vs the code own method; symbolic value") => codes_be::<_, {PI}, 6>;
    #[kani::unwind(12)]
    c10_codesstatic_pi6_be (thorough, "Codes::Pi param 6, BE stream (StaticCodeRead/StaticCodeWrite impls)", "Static* trait impls vs the code own method; symbolic value") => codes_static_be::<_, {PI}, 6>;
    #[kani::unwind(12)]
    c10_codes_pi6_le (thorough, "Codes::Pi param 6, LE stream", "Codes::write/read/len vs the code own method; symbolic value") => codes_le::<_, {PI}, 6>;
    #[kani::unwind(12)]
    c10_codesstatic_pi6_le (thorough, "Codes::Pi param 6, LE stream (StaticCodeRead/StaticCodeWrite impls)", "Static* trait impls vs the code own method; symbolic value") => codes_static_le::<_, {PI}, 6>;
    #[kani::unwind(12)]
    c10_codes_pi7_be (thorough, "Codes::Pi param 7, BE stream", "Codes::write/read/len vs the code own method; symbolic value") => codes_be::<_, {PI}, 7>;
    #[kani::unwind(12)]
    c10_codesstatic_pi7_be (thorough, "Codes::Pi param 7, BE stream (StaticCodeRead/StaticCodeWrite impls)", "Static* trait impls vs the code own method; symbolic value") => codes_static_be::<_, {PI}, 7>;
    #[kani::unwind(12)]
    c10_codes_pi7_le (thorough, "Codes::Pi param 7, LE stream", "Codes::write/read/len vs the code own method; symbolic value") => codes_le::<_, {PI}, 7>;
    #[kani::unwind(12)]
    c10_codesstatic_pi7_le (thorough, "Codes::Pi param 7, LE stream (StaticCodeRead/StaticCodeWrite impls)", "Static* trait impls vs the code own method; symbolic value") => codes_static_le::<_, {PI}, 7>;
    #[kani::unwind(12)]
    c10_codes_pi8_be (thorough, "Codes::Pi param 8, BE stream", "Codes::write/read/len vs the code own method; symbolic value") => codes_be::<_, {PI}, 8>;
    #[kani::unwind(12)]
    c10_codesstatic_pi8_be (thorough, "Codes::Pi param 8, BE stream (StaticCodeRead/StaticCodeWrite impls)", "Static* trait impls vs the code own method; symbolic value") => codes_static_be::<_, {PI}, 8>;
    #[kani::unwind(12)]
    c10_codes_pi8_le (thorough, "Codes::Pi param 8, LE stream", "Codes::write/read/len vs the code own method; symbolic value") => codes_le::<_, {PI}, 8>;
    #[kani::unwind(12)]
    c10_codesstatic_pi8_le (thorough, "Codes::Pi param 8, LE stream (StaticCodeRead/StaticCodeWrite impls)", "Static* trait impls vs the code own method; symbolic value") => codes_static_le::<_, {PI}, 8>;
    #[kani::unwind(12)]
    c10_codes_pi9_be (thorough, "Codes::Pi param 9, BE stream", "Codes::write/read/len vs the code own method; symbolic value") => codes_be::<_, {PI}, 9>;
    #[kani::unwind(12)]
    c10_codesstatic_pi9_be (thorough, "Codes::Pi param 9, BE stream (StaticCodeRead/StaticCodeWrite impls)", "Static* trait impls vs the code own method; symbolic value") => codes_static_be::<_, {PI}, 9>;
    #[kani::unwind(12)]
    c10_codes_pi9_le (thorough, "Codes::Pi param 9, LE stream", "Codes::write/read/len vs the code own method; symbolic value") => codes_le::<_, {PI}, 9>;
    #[kani::unwind(12)]
    c10_codesstatic_pi9_le (thorough, "Codes::Pi param 9, LE stream (StaticCodeRead/StaticCodeWrite impls)", "Static* trait impls vs the code own method; symbolic value") => codes_static_le::<_, {PI}, 9>;
    #[kani::unwind(12)]
    c10_codes_pi10_be (thorough, "Codes::Pi param 10, BE stream", "Codes::write/read/len vs the code own method; symbolic value") => codes_be::<_, {PI}, 10>;
    #[kani::unwind(12)]
    c10_codesstatic_pi10_be (thorough, "Codes::Pi param 10, BE stream (StaticCodeRead/StaticCodeWrite impls)", "Static* trait impls vs the code own method; symbolic value") => codes_static_be::<_, {PI}, 10>;
    #[kani::unwind(12)]
    c10_codes_pi10_le (thorough, "Codes::Pi param 10, LE stream", "Codes::write/read/len vs the code own method; symbolic value") => codes_le::<_, {PI}, 10>;
    #[kani::unwind(12)]
    c10_codesstatic_pi10_le (thorough, "Codes::Pi param 10, LE stream (StaticCodeRead/StaticCodeWrite impls)", "Static* trait impls vs the code own method; symbolic value") => codes_static_le::<_, {PI}, 10>;
    #[kani::unwind(12)]
    c10_codes_pi11_be (thorough, "Codes::Pi param 11, BE stream", "Codes::write/read/len vs the code own method; symbolic value") => codes_be::<_, {PI}, 11>;
    #[kani::unwind(12)]
    c10_codesstatic_pi11_be (thorough, "Codes::Pi param 11, BE stream (StaticCodeRead/StaticCodeWrite impls)", "Static* trait impls vs the code own method; symbolic value") => codes_static_be::<_, {PI}, 11>;
    #[kani::unwind(12)]
    c10_codes_pi11_le (thorough, "Codes::Pi param 11, LE stream", "Codes::write/read/len vs the code own method; symbolic value") => codes_le::<_, {PI}, 11>;
    #[kani::unwind(12)]
    c10_codesstatic_pi11_le (thorough, "Codes::Pi param 11, LE stream (StaticCodeRead/StaticCodeWrite impls)", "Static* trait impls vs the code own method; symbolic value") => codes_static_le::<_, {PI}, 11>;
    #[kani::unwind(12)]
    c10_codes_golomb1_be (quick, "Codes::Golomb param 1, BE stream", "Codes::write/read/len vs the code own method; symbolic value") => codes_be::<_, {GOLOMB}, 1>;
    #[kani::unwind(12)]
    c10_codesstatic_golomb1_be (thorough, "Codes::Golomb param 1, BE stream (StaticCodeRead/StaticCodeWrite impls)", "Static* trait impls vs the code own method; symbolic value") => codes_static_be::<_, {GOLOMB}, 1>;
    #[kani::unwind(12)]
    c10_codes_golomb1_le (thorough, "Codes::Golomb param 1, LE stream", "Codes::write/read/len vs the code own method; symbolic value") => codes_le::<_, {GOLOMB}, 1>;
    #[kani::unwind(12)]
    c10_codesstatic_golomb1_le (thorough, "Codes::Golomb param 1, LE stream (StaticCodeRead/StaticCodeWrite impls)", "Static* trait impls vs the code own method; symbolic value") => codes_static_le::<_, {GOLOMB}, 1>;
    #[kani::unwind(12)]
    c10_codes_golomb2_be (thorough, "Codes::Golomb param 2, BE stream", "Codes::write/read/len vs the code own method; symbolic value") => codes_be::<_, {GOLOMB}, 2>;
    #[kani::unwind(12)]
    c10_codesstatic_golomb2_be (thorough, "Codes::Golomb param 2, BE stream (StaticCodeRead/StaticCodeWrite impls)", "Static* trait impls vs the code own method; symbolic value") => codes_static_be::<_, {GOLOMB}, 2>;
    #[kani::unwind(12)]
    c10_codes_golomb2_le (thorough, "Codes::Golomb param 2, LE stream", "Codes::write/read/len vs the code own method; symbolic value") => codes_le::<_, {GOLOMB}, 2>;
    #[kani::unwind(12)]
    c10_codesstatic_golomb2_le (thorough, "Codes::Golomb param 2, LE stream (StaticCodeRead/StaticCodeWrite impls)", "Static* trait impls vs the code own method; symbolic value") => codes_static_le::<_, {GOLOMB}, 2>;
    #[kani::unwind(12)]
    c10_codes_golomb3_be (thorough, "Codes::Golomb param 3, BE stream", "Codes::write/read/len vs the code own method; symbolic value") => codes_be::<_, {GOLOMB}, 3>;
    #[kani::unwind(12)]
    c10_codesstatic_golomb3_be (thorough, "Codes::Golomb param 3, BE stream (StaticCodeRead/StaticCodeWrite impls)", "Static* trait impls vs the code own method; symbolic value") => codes_static_be::<_, {GOLOMB}, 3>;
    #[kani::unwind(12)]
    c10_codes_golomb3_le (thorough, "Codes::Golomb param 3, LE stream", "Codes::write/read/len vs the code own method; symbolic value") => codes_le::<_, {GOLOMB}, 3>;
    #[kani::unwind(12)]
    c10_codesstatic_golomb3_le (thorough, "Codes::Golomb param 3, LE stream (StaticCodeRead/StaticCodeWrite impls)", "Static* trait impls vs the code own method; symbolic value") => codes_static_le::<_, {GOLOMB}, 3>;
    #[kani::unwind(12)]
    c10_codes_golomb4_be (thorough, "Codes::Golomb param 4, BE stream", "Codes::write/read/len vs the code own method; symbolic value") => codes_be::<_, {GOLOMB}, 4>;
    #[kani::unwind(12)]
    c10_codesstatic_golomb4_be (thorough, "Codes::Golomb param 4, BE stream (StaticCodeRead/StaticCodeWrite impls)", "Static* trait impls vs the code own method; symbolic value") => codes_static_be::<_, {GOLOMB}, 4>;
    #[kani::unwind(12)]
    c10_codes_golomb4_le (thorough, "Codes::Golomb param 4, LE stream", "Codes::write/read/len vs the code own method; symbolic value") => codes_le::<_, {GOLOMB}, 4>;
    #[kani::unwind(12)]
    c10_codesstatic_golomb4_le (thorough, "Codes::Golomb param 4, LE stream (StaticCodeRead/StaticCodeWrite impls)", "Static* trait impls vs the code own method; symbolic value") => codes_static_le::<_, {GOLOMB}, 4>;
    #[kani::unwind(12)]
    c10_codes_golomb5_be (thorough, "Codes::Golomb param 5, BE stream", "Codes::write/read/len vs the code own method; symbolic value") => codes_be::<_, {GOLOMB}, 5>;
    #[kani::unwind(12)]
    c10_codesstatic_golomb5_be (thorough, "Codes::Golomb param 5, BE stream (StaticCodeRead/StaticCodeWrite impls)", "Static* trait impls vs the code own method; symbolic value") => codes_static_be::<_, {GOLOMB}, 5>;
    #[kani::unwind(12)]
    c10_codes_golomb5_le (thorough, "Codes::Golomb param 5, LE stream", "Codes::write/read/len vs the code own method; symbolic value") => codes_le::<_, {GOLOMB}, 5>;
    #[kani::unwind(12)]
    c10_codesstatic_golomb5_le (thorough, "Codes::Golomb param 5, LE stream (StaticCodeRead/StaticCodeWrite impls)", "Static* trait impls vs the code own method; symbolic value") => codes_static_le::<_, {GOLOMB}, 5>;
    #[kani::unwind(12)]
    c10_codes_golomb6_be (thorough, "Codes::Golomb param 6, BE stream", "Codes::write/read/len vs the code own method; symbolic value") => codes_be::<_, {GOLOMB}, 6>;
    #[kani::unwind(12)]
    c10_codesstatic_golomb6_be (thorough, "Codes::Golomb param 6, BE stream (StaticCodeRead/StaticCodeWrite impls)", "Static* trait impls vs the code own method; symbolic value") => codes_static_be::<_, {GOLOMB}, 6>;
    #[kani::unwind(12)]
    c10_codes_golomb6_le (thorough, "Codes::Golomb param 6, LE stream", "Codes::write/read/len vs the code own method; symbolic value") => codes_le::<_, {GOLOMB}, 6>;
    #[kani::unwind(12)]
    c10_codesstatic_golomb6_le (thorough, "Codes::Golomb param 6, LE stream (StaticCodeRead/StaticCodeWrite impls)", "Static* trait impls vs the code own method; symbolic value") => codes_static_le::<_, {GOLOMB}, 6>;
    #[kani::unwind(12)]
    c10_codes_golomb7_be (quick, "Codes::Golomb param 7, BE stream", "Codes::write/read/len vs the code own method; symbolic value") => codes_be::<_, {GOLOMB}, 7>;
    #[kani::unwind(12)]
    c10_codesstatic_golomb7_be (quick, "Codes::Golomb param 7, BE stream (StaticCodeRead/StaticCodeWrite impls)", "Static* trait impls vs the code own method; symbolic value") => codes_static_be::<_, {GOLOMB}, 7>;
    #[kani::unwind(12)]
    c10_codes_golomb7_le (thorough, "Codes::Golomb param 7, LE stream", "Codes::write/read/len vs the code own method; symbolic value") => codes_le::<_, {GOLOMB}, 7>;
    #[kani::unwind(12)]
    c10_codesstatic_golomb7_le (thorough, "Codes::Golomb param 7, LE stream (StaticCodeRead/StaticCodeWrite impls)", "Static* trait impls vs the code own method; symbolic value") => codes_static_le::<_, {GOLOMB}, 7>;
    #[kani::unwind(12)]
    c10_codes_golomb8_be (thorough, "Codes::Golomb param 8, BE stream", "Codes::write/read/len vs the code own method; symbolic value") => codes_be::<_, {GOLOMB}, 8>;
    #[kani::unwind(12)]
    c10_codesstatic_golomb8_be (thorough, "Codes::Golomb param 8, BE stream (StaticCodeRead/StaticCodeWrite impls)", "Static* trait impls vs the code own method; symbolic value") => codes_static_be::<_, {GOLOMB}, 8>;
    #[kani::unwind(12)]
    c10_codes_golomb8_le (thorough, "Codes::Golomb param 8, LE stream", "Codes::write/read/len vs the code own method; symbolic value") => codes_le::<_, {GOLOMB}, 8>;
    #[kani::unwind(12)]
    c10_codesstatic_golomb8_le (thorough, "Codes::Golomb param 8, LE stream (StaticCodeRead/StaticCodeWrite impls)", "Static* trait impls vs the code own method; symbolic value") => codes_static_le::<_, {GOLOMB}, 8>;
    #[kani::unwind(12)]
    c10_codes_golomb9_be (thorough, "Codes::Golomb param 9, BE stream", "Codes::write/read/len vs the code own method; symbolic value") => codes_be::<_, {GOLOMB}, 9>;
    #[kani::unwind(12)]
    c10_codesstatic_golomb9_be (thorough, "Codes::Golomb param 9, BE stream (StaticCodeRead/StaticCodeWrite impls)", "Static* trait impls vs the code own method; symbolic value") => codes_static_be::<_, {GOLOMB}, 9>;
    #[kani::unwind(12)]
    c10_codes_golomb9_le (thorough, "Codes::Golomb param 9, LE stream", "Codes::write/read/len vs the code own method; symbolic value") => codes_le::<_, {GOLOMB}, 9>;
    #[kani::unwind(12)]
    c10_codesstatic_golomb9_le (thorough, "Codes::Golomb param 9, LE stream (StaticCodeRead/StaticCodeWrite impls)", "Static* trait impls vs the code own method; symbolic value") => codes_static_le::<_, {GOLOMB}, 9>;
    #[kani::unwind(12)]
    c10_codes_golomb10_be (thorough, "Codes::Golomb param 10, BE stream", "Codes::write/read/len vs the code own method; symbolic value") => codes_be::<_, {GOLOMB}, 10>;
    #[kani::unwind(12)]
    c10_codesstatic_golomb10_be (thorough, "Codes::Golomb param 10, BE stream (StaticCodeRead/StaticCodeWrite impls)", "Static* trait impls vs the code own method; symbolic value") => codes_static_be::<_, {GOLOMB}, 10>;
    #[kani::unwind(12)]
    c10_codes_golomb10_le (thorough, "Codes::Golomb param 10, LE stream", "Codes::write/read/len vs the code own method; symbolic value") => codes_le::<_, {GOLOMB}, 10>;
    #[kani::unwind(12)]
    c10_codesstatic_golomb10_le (thorough, "Codes::Golomb param 10, LE stream (StaticCodeRead/StaticCodeWrite impls)", "Static* trait impls vs the code own method; symbolic value") => codes_static_le::<_, {GOLOMB}, 10>;
    #[kani::unwind(12)]
    c10_codes_golomb11_be (thorough, "Codes::Golomb param 11, BE stream", "Codes::write/read/len vs the code own method; symbolic value") => codes_be::<_, {GOLOMB}, 11>;
    #[kani::unwind(12)]
    c10_codesstatic_golomb11_be (thorough, "Codes::Golomb param 11, BE stream (StaticCodeRead/StaticCodeWrite impls)", "Static* trait impls vs the code own method; symbolic value") => codes_static_be::<_, {GOLOMB}, 11>;
    #[kani::unwind(12)]
    c10_codes_golomb11_le (thorough, "Codes::Golomb param 11, LE stream", "Codes::write/read/len vs the code own method; symbolic value") => codes_le::<_, {GOLOMB}, 11>;
    #[kani::unwind(12)]
    c10_codesstatic_golomb11_le (thorough, "Codes::Golomb param 11, LE stream (StaticCodeRead/StaticCodeWrite impls)", "Static* trait impls vs the code own method; symbolic value") => codes_static_le::<_, {GOLOMB}, 11>;
    #[kani::unwind(12)]
    c10_codes_exp_golomb0_be (quick, "Codes::ExpGolomb param 0, BE stream", "Codes::write/read/len vs the code own method; symbolic value") => codes_be::<_, {EXP_GOLOMB}, 0>;
    #[kani::unwind(12)]
    c10_codesstatic_exp_golomb0_be (thorough, "Codes::ExpGolomb param 0, BE stream (StaticCodeRead/StaticCodeWrite impls)", "Static* trait impls vs the code own method; symbolic value") => codes_static_be::<_, {EXP_GOLOMB}, 0>;
    #[kani::unwind(12)]
    c10_codes_exp_golomb0_le (thorough, "Codes::ExpGolomb param 0, LE stream", "Codes::write/read/len vs the code own method; symbolic value") => codes_le::<_, {EXP_GOLOMB}, 0>;
    #[kani::unwind(12)]
    c10_codesstatic_exp_golomb0_le (thorough, "Codes::ExpGolomb param 0, LE stream (StaticCodeRead/StaticCodeWrite impls)", "Static* trait impls vs the code own method; symbolic value") => codes_static_le::<_, {EXP_GOLOMB}, 0>;
    #[kani::unwind(12)]
    c10_codes_exp_golomb1_be (thorough, "Codes::ExpGolomb param 1, BE stream", "Codes::write/read/len vs the code own method; symbolic value") => codes_be::<_, {EXP_GOLOMB}, 1>;
    #[kani::unwind(12)]
    c10_codesstatic_exp_golomb1_be (thorough, "Codes::ExpGolomb param 1, BE stream (StaticCodeRead/StaticCodeWrite impls)", "Static* trait impls vs the code own method; symbolic value") => codes_static_be::<_, {EXP_GOLOMB}, 1>;
    #[kani::unwind(12)]
    c10_codes_exp_golomb1_le (thorough, "Codes::ExpGolomb param 1, LE stream", "Codes::write/read/len vs the code own method; symbolic value") => codes_le::<_, {EXP_GOLOMB}, 1>;
    #[kani::unwind(12)]
    c10_codesstatic_exp_golomb1_le (thorough, "Codes::ExpGolomb param 1, LE stream (StaticCodeRead/StaticCodeWrite impls)", "Static* trait impls vs the code own method; symbolic value") => codes_static_le::<_, {EXP_GOLOMB}, 1>;
    #[kani::unwind(12)]
    c10_codes_exp_golomb2_be (thorough, "Codes::ExpGolomb param 2, BE stream", "Codes::write/read/len vs the code own method; symbolic value") => codes_be::<_, {EXP_GOLOMB}, 2>;
    #[kani::unwind(12)]
    c10_codesstatic_exp_golomb2_be (thorough, "Codes::ExpGolomb param 2, BE stream (StaticCodeRead/StaticCodeWrite impls)", "Static* trait impls vs the code own method; symbolic value") => codes_static_be::<_, {EXP_GOLOMB}, 2>;
    #[kani::unwind(12)]
    c10_codes_exp_golomb2_le (thorough, "Codes::ExpGolomb param 2, LE stream", "Codes::write/read/len vs the code own method; symbolic value") => codes_le::<_, {EXP_GOLOMB}, 2>;
    #[kani::unwind(12)]
    c10_codesstatic_exp_golomb2_le (thorough, "Codes::ExpGolomb param 2, LE stream (StaticCodeRead/StaticCodeWrite impls)", "Static* trait impls vs the code own method; symbolic value") => codes_static_le::<_, {EXP_GOLOMB}, 2>;
    #[kani::unwind(12)]
    c10_codes_exp_golomb3_be (thorough, "Codes::ExpGolomb param 3, BE stream", "Codes::write/read/len vs the code own method; symbolic value") => codes_be::<_, {EXP_GOLOMB}, 3>;
    #[kani::unwind(12)]
    c10_codesstatic_exp_golomb3_be (thorough, "Codes::ExpGolomb param 3, BE stream (StaticCodeRead/StaticCodeWrite impls)", "Static* trait impls vs the code own method; symbolic value") => codes_static_be::<_, {EXP_GOLOMB}, 3>;
    #[kani::unwind(12)]
    c10_codes_exp_golomb3_le (thorough, "Codes::ExpGolomb param 3, LE stream", "Codes::write/read/len vs the code own method; symbolic value") => codes_le::<_, {EXP_GOLOMB}, 3>;
    #[kani::unwind(12)]
    c10_codesstatic_exp_golomb3_le (thorough, "Codes::ExpGolomb param 3, LE stream (StaticCodeRead/StaticCodeWrite impls)", "Static* trait impls vs the code own method; symbolic value") => codes_static_le::<_, {EXP_GOLOMB}, 3>;
    #[kani::unwind(12)]
    c10_codes_exp_golomb4_be (thorough, "Codes::ExpGolomb param 4, BE stream", "Codes::write/read/len vs the code own method; symbolic value") => codes_be::<_, {EXP_GOLOMB}, 4>;
    #[kani::unwind(12)]
    c10_codesstatic_exp_golomb4_be (thorough, "Codes::ExpGolomb param 4, BE stream (StaticCodeRead/StaticCodeWrite impls)", "Static* trait impls vs the code own method; symbolic value") => codes_static_be::<_, {EXP_GOLOMB}, 4>;
    #[kani::unwind(12)]
    c10_codes_exp_golomb4_le (thorough, "Codes::ExpGolomb param 4, LE stream", "Codes::write/read/len vs the code own method; symbolic value") => codes_le::<_, {EXP_GOLOMB}, 4>;
    #[kani::unwind(12)]
    c10_codesstatic_exp_golomb4_le (thorough, "Codes::ExpGolomb param 4, LE stream (StaticCodeRead/StaticCodeWrite impls)", "Static* trait impls vs the code own method; symbolic value") => codes_static_le::<_, {EXP_GOLOMB}, 4>;
    #[kani::unwind(12)]
    c10_codes_exp_golomb5_be (thorough, "Codes::ExpGolomb param 5, BE stream", "Codes::write/read/len vs the code own method; symbolic value") => codes_be::<_, {EXP_GOLOMB}, 5>;
    #[kani::unwind(12)]
    c10_codesstatic_exp_golomb5_be (thorough, "Codes::ExpGolomb param 5, BE stream (StaticCodeRead/StaticCodeWrite impls)", "Static* trait impls vs the code own method; symbolic value") => codes_static_be::<_, {EXP_GOLOMB}, 5>;
    #[kani::unwind(12)]
    c10_codes_exp_golomb5_le (thorough, "Codes::ExpGolomb param 5, LE stream", "Codes::write/read/len vs the code own method; symbolic value") => codes_le::<_, {EXP_GOLOMB}, 5>;
    #[kani::unwind(12)]
    c10_codesstatic_exp_golomb5_le (thorough, "Codes::ExpGolomb param 5, LE stream (StaticCodeRead/StaticCodeWrite impls)", "Static* trait impls vs the code own method; symbolic value") => codes_static_le::<_, {EXP_GOLOMB}, 5>;
    #[kani::unwind(12)]
    c10_codes_exp_golomb6_be (thorough, "Codes::ExpGolomb param 6, BE stream", "Codes::write/read/len vs the code own method; symbolic value") => codes_be::<_, {EXP_GOLOMB}, 6>;
    #[kani::unwind(12)]
    c10_codesstatic_exp_golomb6_be (thorough, "Codes::ExpGolomb param 6, BE stream (StaticCodeRead/StaticCodeWrite impls)", "Static* trait impls vs the code own method; symbolic value") => codes_static_be::<_, {EXP_GOLOMB}, 6>;
    #[kani::unwind(12)]
    c10_codes_exp_golomb6_le (thorough, "Codes::ExpGolomb param 6, LE stream", "Codes::write/read/len vs the code own method; symbolic value") => codes_le::<_, {EXP_GOLOMB}, 6>;
    #[kani::unwind(12)]
    c10_codesstatic_exp_golomb6_le (thorough, "Codes::ExpGolomb param 6, LE stream (StaticCodeRead/StaticCodeWrite impls)", "Static* trait impls vs the code own method; symbolic value") => codes_static_le::<_, {EXP_GOLOMB}, 6>;
    #[kani::unwind(12)]
    c10_codes_exp_golomb7_be (thorough, "Codes::ExpGolomb param 7, BE stream", "Codes::write/read/len vs the code own method; symbolic value") => codes_be::<_, {EXP_GOLOMB}, 7>;
    #[kani::unwind(12)]
    c10_codesstatic_exp_golomb7_be (thorough, "Codes::ExpGolomb param 7, BE stream (StaticCodeRead/StaticCodeWrite impls)", "Static* trait impls vs the code own method; symbolic value") => codes_static_be::<_, {EXP_GOLOMB}, 7>;
    #[kani::unwind(12)]
    c10_codes_exp_golomb7_le (thorough, "Codes::ExpGolomb param 7, LE stream", "Codes::write/read/len vs the code own method; symbolic value") => codes_le::<_, {EXP_GOLOMB}, 7>;
    #[kani::unwind(12)]
    c10_codesstatic_exp_golomb7_le (thorough, "Codes::ExpGolomb param 7, LE stream (StaticCodeRead/StaticCodeWrite impls)", "Static* trait impls vs the code own method; symbolic value") => codes_static_le::<_, {EXP_GOLOMB}, 7>;
    #[kani::unwind(12)]
    c10_codes_exp_golomb8_be (thorough, "Codes::ExpGolomb param 8, BE stream", "Codes::write/read/len vs the code own method; symbolic value") => codes_be::<_, {EXP_GOLOMB}, 8>;
    #[kani::unwind(12)]
    c10_codesstatic_exp_golomb8_be (thorough, "Codes::ExpGolomb param 8, BE stream (StaticCodeRead/StaticCodeWrite impls)", "Static* trait impls vs the code own method; symbolic value") => codes_static_be::<_, {EXP_GOLOMB}, 8>;
    #[kani::unwind(12)]
    c10_codes_exp_golomb8_le (thorough, "Codes::ExpGolomb param 8, LE stream", "Codes::write/read/len vs the code own method; symbolic value") => codes_le::<_, {EXP_GOLOMB}, 8>;
    #[kani::unwind(12)]
    c10_codesstatic_exp_golomb8_le (thorough, "Codes::ExpGolomb param 8, LE stream (StaticCodeRead/StaticCodeWrite impls)", "Static* trait impls vs the code own method; symbolic value") => codes_static_le::<_, {EXP_GOLOMB}, 8>;
    #[kani::unwind(12)]
    c10_codes_exp_golomb9_be (thorough, "Codes::ExpGolomb param 9, BE stream", "Codes::write/read/len vs the code own method; symbolic value") => codes_be::<_, {EXP_GOLOMB}, 9>;
    #[kani::unwind(12)]
    c10_codesstatic_exp_golomb9_be (thorough, "Codes::ExpGolomb param 9, BE stream (StaticCodeRead/StaticCodeWrite impls)", "Static* trait impls vs the code own method; symbolic value") => codes_static_be::<_, {EXP_GOLOMB}, 9>;
    #[kani::unwind(12)]
    c10_codes_exp_golomb9_le (thorough, "Codes::ExpGolomb param 9, LE stream", "Codes::write/read/len vs the code own method; symbolic value") => codes_le::<_, {EXP_GOLOMB}, 9>;
    #[kani::unwind(12)]
    c10_codesstatic_exp_golomb9_le (thorough, "Codes::ExpGolomb param 9, LE stream (StaticCodeRead/StaticCodeWrite impls)", "Static* trait impls vs the code own method; symbolic value") => codes_static_le::<_, {EXP_GOLOMB}, 9>;
    #[kani::unwind(12)]
    c10_codes_exp_golomb10_be (thorough, "Codes::ExpGolomb param 10, BE stream", "Codes::write/read/len vs the code own method; symbolic value") => codes_be::<_, {EXP_GOLOMB}, 10>;
    #[kani::unwind(12)]
    c10_codesstatic_exp_golomb10_be (thorough, "Codes::ExpGolomb param 10, BE stream (StaticCodeRead/StaticCodeWrite impls)", "Static* trait impls vs the code own method; symbolic value") => codes_static_be::<_, {EXP_GOLOMB}, 10>;
    #[kani::unwind(12)]
    c10_codes_exp_golomb10_le (thorough, "Codes::ExpGolomb param 10, LE stream", "Codes::write/read/len vs the code own method; symbolic value") => codes_le::<_, {EXP_GOLOMB}, 10>;
    #[kani::unwind(12)]
    c10_codesstatic_exp_golomb10_le (thorough, "Codes::ExpGolomb param 10, LE stream (StaticCodeRead/StaticCodeWrite impls)", "Static* trait impls vs the code own method; symbolic value") => codes_static_le::<_, {EXP_GOLOMB}, 10>;
    #[kani::unwind(12)]
    c10_codes_exp_golomb11_be (thorough, "Codes::ExpGolomb param 11, BE stream", "Codes::write/read/len vs the code own method; symbolic value") => codes_be::<_, {EXP_GOLOMB}, 11>;
    #[kani::unwind(12)]
    c10_codesstatic_exp_golomb11_be (thorough, "Codes::ExpGolomb param 11, BE stream (StaticCodeRead/StaticCodeWrite impls)", "Static* trait impls vs the code own method; symbolic value") => codes_static_be::<_, {EXP_GOLOMB}, 11>;
    #[kani::unwind(12)]
    c10_codes_exp_golomb11_le (thorough, "Codes::ExpGolomb param 11, LE stream", "Codes::write/read/len vs the code own method; symbolic value") => codes_le::<_, {EXP_GOLOMB}, 11>;
    #[kani::unwind(12)]
    c10_codesstatic_exp_golomb11_le (thorough, "Codes::ExpGolomb param 11, LE stream (StaticCodeRead/StaticCodeWrite impls)", "Static* trait impls vs the code own method; symbolic value") => codes_static_le::<_, {EXP_GOLOMB}, 11>;
    #[kani::unwind(12)]
    c10_codes_rice0_be (thorough, "Codes::Rice param 0, BE stream", "Codes::write/read/len vs the code own method; symbolic value") => codes_be::<_, {RICE}, 0>;
    #[kani::unwind(12)]
    c10_codesstatic_rice0_be (thorough, "Codes::Rice param 0, BE stream (StaticCodeRead/StaticCodeWrite impls)", "Static* trait impls vs the code own method; symbolic value") => codes_static_be::<_, {RICE}, 0>;
    #[kani::unwind(12)]
    c10_codes_rice0_le (thorough, "Codes::Rice param 0, LE stream", "Codes::write/read/len vs the code own method; symbolic value") => codes_le::<_, {RICE}, 0>;
    #[kani::unwind(12)]
    c10_codesstatic_rice0_le (thorough, "Codes::Rice param 0, LE stream (StaticCodeRead/StaticCodeWrite impls)", "Static* trait impls vs the code own method; symbolic value") => codes_static_le::<_, {RICE}, 0>;
    #[kani::unwind(12)]
    c10_codes_rice1_be (thorough, "Codes::Rice param 1, BE stream", "Codes::write/read/len vs the code own method; symbolic value") => codes_be::<_, {RICE}, 1>;
    #[kani::unwind(12)]
    c10_codesstatic_rice1_be (thorough, "Codes::Rice param 1, BE stream (StaticCodeRead/StaticCodeWrite impls)", "Static* trait impls vs the code own method; symbolic value") => codes_static_be::<_, {RICE}, 1>;
    #[kani::unwind(12)]
    c10_codes_rice1_le (thorough, "Codes::Rice param 1, LE stream", "Codes::write/read/len vs the code own method; symbolic value") => codes_le::<_, {RICE}, 1>;
    #[kani::unwind(12)]
    c10_codesstatic_rice1_le (thorough, "Codes::Rice param 1, LE stream (StaticCodeRead/StaticCodeWrite impls)", "Static* trait impls vs the code own method; symbolic value") => codes_static_le::<_, {RICE}, 1>;
    #[kani::unwind(12)]
    c10_codes_rice2_be (thorough, "Codes::Rice param 2, BE stream", "Codes::write/read/len vs the code own method; symbolic value") => codes_be::<_, {RICE}, 2>;
    #[kani::unwind(12)]
    c10_codesstatic_rice2_be (thorough, "Codes::Rice param 2, BE stream (StaticCodeRead/StaticCodeWrite impls)", "Static* trait impls vs the code own method; symbolic value") => codes_static_be::<_, {RICE}, 2>;
    #[kani::unwind(12)]
    c10_codes_rice2_le (thorough, "Codes::Rice param 2, LE stream", "Codes::write/read/len vs the code own method; symbolic value") => codes_le::<_, {RICE}, 2>;
    #[kani::unwind(12)]
    c10_codesstatic_rice2_le (thorough, "Codes::Rice param 2, LE stream (StaticCodeRead/StaticCodeWrite impls)", "Static* trait impls vs the code own method; symbolic value") => codes_static_le::<_, {RICE}, 2>;
    #[kani::unwind(12)]
    c10_codes_rice3_be (thorough, "Codes::Rice param 3, BE stream", "Codes::write/read/len vs the code own method; symbolic value") => codes_be::<_, {RICE}, 3>;
    #[kani::unwind(12)]
    c10_codesstatic_rice3_be (thorough, "Codes::Rice param 3, BE stream (StaticCodeRead/StaticCodeWrite impls)", "Static* trait impls vs the code own method; symbolic value") => codes_static_be::<_, {RICE}, 3>;
    #[kani::unwind(12)]
    c10_codes_rice3_le (thorough, "Codes::Rice param 3, LE stream", "Codes::write/read/len vs the code own method; symbolic value") => codes_le::<_, {RICE}, 3>;
    #[kani::unwind(12)]
    c10_codesstatic_rice3_le (thorough, "Codes::Rice param 3, LE stream (StaticCodeRead/StaticCodeWrite impls)", "Static* trait impls vs the code own method; symbolic value") => codes_static_le::<_, {RICE}, 3>;
    #[kani::unwind(12)]
    c10_codes_rice4_be (quick, "Codes::Rice param 4, BE stream", "Codes::write/read/len vs the code own method; symbolic value") => codes_be::<_, {RICE}, 4>;
    #[kani::unwind(12)]
    c10_codesstatic_rice4_be (thorough, "Codes::Rice param 4, BE stream (StaticCodeRead/StaticCodeWrite impls)", "Static* trait impls vs the code own method; symbolic value") => codes_static_be::<_, {RICE}, 4>;
    #[kani::unwind(12)]
    c10_codes_rice4_le (thorough, "Codes::Rice param 4, LE stream", "Codes::write/read/len vs the code own method; symbolic value") => codes_le::<_, {RICE}, 4>;
    #[kani::unwind(12)]
    c10_codesstatic_rice4_le (thorough, "Codes::Rice param 4, LE stream (StaticCodeRead/StaticCodeWrite impls)", "Static* trait impls vs the code own method; symbolic value") => codes_static_le::<_, {RICE}, 4>;
    #[kani::unwind(12)]
    c10_codes_rice5_be (thorough, "Codes::Rice param 5, BE stream", "Codes::write/read/len vs the code own method; symbolic value") => codes_be::<_, {RICE}, 5>;
    #[kani::unwind(12)]
    c10_codesstatic_rice5_be (thorough, "Codes::Rice param 5, BE stream (StaticCodeRead/StaticCodeWrite impls)", "Static* trait impls vs the code own method; symbolic value") => codes_static_be::<_, {RICE}, 5>;
    #[kani::unwind(12)]
    c10_codes_rice5_le (thorough, "Codes::Rice param 5, LE stream", "Codes::write/read/len vs the code own method; symbolic value") => codes_le::<_, {RICE}, 5>;
    #[kani::unwind(12)]
    c10_codesstatic_rice5_le (thorough, "Codes::Rice param 5, LE stream (StaticCodeRead/StaticCodeWrite impls)", "Static* trait impls vs the code own method; symbolic value") => codes_static_le::<_, {RICE}, 5>;
    #[kani::unwind(12)]
    c10_codes_rice6_be (thorough, "Codes::Rice param 6, BE stream", "Codes::write/read/len vs the code own method; symbolic value") => codes_be::<_, {RICE}, 6>;
    #[kani::unwind(12)]
    c10_codesstatic_rice6_be (thorough, "Codes::Rice param 6, BE stream (StaticCodeRead/StaticCodeWrite impls)", "Static* trait impls vs the code own method; symbolic value") => codes_static_be::<_, {RICE}, 6>;
    #[kani::unwind(12)]
    c10_codes_rice6_le (thorough, "Codes::Rice param 6, LE stream", "Codes::write/read/len vs the code own method; symbolic value") => codes_le::<_, {RICE}, 6>;
    #[kani::unwind(12)]
    c10_codesstatic_rice6_le (thorough, "Codes::Rice param 6, LE stream (StaticCodeRead/StaticCodeWrite impls)", "Static* trait impls vs the code own method; symbolic value") => codes_static_le::<_, {RICE}, 6>;
    #[kani::unwind(12)]
    c10_codes_rice7_be (thorough, "Codes::Rice param 7, BE stream", "Codes::write/read/len vs the code own method; symbolic value") => codes_be::<_, {RICE}, 7>;
    #[kani::unwind(12)]
    c10_codesstatic_rice7_be (thorough, "Codes::Rice param 7, BE stream (StaticCodeRead/StaticCodeWrite impls)", "Static* trait impls vs the code own method; symbolic value") => codes_static_be::<_, {RICE}, 7>;
    #[kani::unwind(12)]
    c10_codes_rice7_le (thorough, "Codes::Rice param 7, LE stream", "Codes::write/read/len vs the code own method; symbolic value") => codes_le::<_, {RICE}, 7>;
    #[kani::unwind(12)]
    c10_codesstatic_rice7_le (thorough, "Codes::Rice param 7, LE stream (StaticCodeRead/StaticCodeWrite impls)", "Static* trait impls vs the code own method; symbolic value") => codes_static_le::<_, {RICE}, 7>;
    #[kani::unwind(12)]
    c10_codes_rice8_be (thorough, "Codes::Rice param 8, BE stream", "Codes::write/read/len vs the code own method; symbolic value") => codes_be::<_, {RICE}, 8>;
    #[kani::unwind(12)]
    c10_codesstatic_rice8_be (thorough, "Codes::Rice param 8, BE stream (StaticCodeRead/StaticCodeWrite impls)", "Static* trait impls vs the code own method; symbolic value") => codes_static_be::<_, {RICE}, 8>;
    #[kani::unwind(12)]
    c10_codes_rice8_le (thorough, "Codes::Rice param 8, LE stream", "Codes::write/read/len vs the code own method; symbolic value") => codes_le::<_, {RICE}, 8>;
    #[kani::unwind(12)]
    c10_codesstatic_rice8_le (thorough, "Codes::Rice param 8, LE stream (StaticCodeRead/StaticCodeWrite impls)", "Static* trait impls vs the code own method; symbolic value") => codes_static_le::<_, {RICE}, 8>;
    #[kani::unwind(12)]
    c10_codes_rice9_be (thorough, "Codes::Rice param 9, BE stream", "Codes::write/read/len vs the code own method; symbolic value") => codes_be::<_, {RICE}, 9>;
    #[kani::unwind(12)]
    c10_codesstatic_rice9_be (thorough, "Codes::Rice param 9, BE stream (StaticCodeRead/StaticCodeWrite impls)", "Static* trait impls vs the code own method; symbolic value") => codes_static_be::<_, {RICE}, 9>;
    #[kani::unwind(12)]
    c10_codes_rice9_le (thorough, "Codes::Rice param 9, LE stream", "Codes::write/read/len vs the code own method; symbolic value") => codes_le::<_, {RICE}, 9>;
    #[kani::unwind(12)]
    c10_codesstatic_rice9_le (thorough, "Codes::Rice param 9, LE stream (StaticCodeRead/StaticCodeWrite impls)", "Static* trait impls vs the code own method; symbolic value") => codes_static_le::<_, {RICE}, 9>;
    #[kani::unwind(12)]
    c10_codes_rice10_be (thorough, "Codes::Rice param 10, BE stream", "Codes::write/read/len vs the code own method; symbolic value") => codes_be::<_, {RICE}, 10>;
    #[kani::unwind(12)]
    c10_codesstatic_rice10_be (thorough, "Codes::Rice param 10, BE stream (StaticCodeRead/StaticCodeWrite impls)", "Static* trait impls vs the code own method; symbolic value") => codes_static_be::<_, {RICE}, 10>;
    #[kani::unwind(12)]
    c10_codes_rice10_le (thorough, "Codes::Rice param 10, LE stream", "Codes::write/read/len vs the code own method; symbolic value") => codes_le::<_, {RICE}, 10>;
    #[kani::unwind(12)]
    c10_codesstatic_rice10_le (thorough, "Codes::Rice param 10, LE stream (StaticCodeRead/StaticCodeWrite impls)", "Static* trait impls vs the code own method; symbolic value") => codes_static_le::<_, {RICE}, 10>;
    #[kani::unwind(12)]
    c10_codes_rice11_be (thorough, "Codes::Rice param 11, BE stream", "Codes::write/read/len vs the code own method; symbolic value") => codes_be::<_, {RICE}, 11>;
    #[kani::unwind(12)]
    c10_codesstatic_rice11_be (thorough, "Codes::Rice param 11, BE stream (StaticCodeRead/StaticCodeWrite impls)", "Static* trait impls vs the code own method; symbolic value") => codes_static_be::<_, {RICE}, 11>;
    #[kani::unwind(12)]
    c10_codes_rice11_le (thorough, "Codes::Rice param 11, LE stream", "Codes::write/read/len vs the code own method; symbolic value") => codes_le::<_, {RICE}, 11>;
    #[kani::unwind(12)]
    c10_codesstatic_rice11_le (thorough, "Codes::Rice param 11, LE stream (StaticCodeRead/StaticCodeWrite impls)", "Static* trait impls vs the code own method; symbolic value") => codes_static_le::<_, {RICE}, 11>;
    #[kani::unwind(12)]
    c10_codes_sym_zeta_be (thorough, "Codes::Zeta symbolic param 11..=63, BE stream", "catch-all arms; symbolic value") => codes_sym_be::<_, {ZETA}>;
    #[kani::unwind(12)]
    c10_codes_sym_zeta_le (thorough, "Codes::Zeta symbolic param 11..=63, LE stream", "catch-all arms; symbolic value") => codes_sym_le::<_, {ZETA}>;
    #[kani::unwind(12)]
    c10_codes_sym_pi_be (thorough, "Codes::Pi symbolic param 11..=63, BE stream", "catch-all arms; symbolic value") => codes_sym_be::<_, {PI}>;
    #[kani::unwind(12)]
    c10_codes_sym_pi_le (thorough, "Codes::Pi symbolic param 11..=63, LE stream", "catch-all arms; symbolic value") => codes_sym_le::<_, {PI}>;
    #[kani::unwind(12)]
    c10_codes_sym_golomb_be (thorough, "Codes::Golomb symbolic param 11..=63, BE stream", "catch-all arms; symbolic value") => codes_sym_be::<_, {GOLOMB}>;
    #[kani::unwind(12)]
    c10_codes_sym_golomb_le (thorough, "Codes::Golomb symbolic param 11..=63, LE stream", "catch-all arms; symbolic value") => codes_sym_le::<_, {GOLOMB}>;
    #[kani::unwind(12)]
    c10_codes_sym_exp_golomb_be (thorough, "Codes::ExpGolomb symbolic param 11..=63, BE stream", "catch-all arms; symbolic value") => codes_sym_be::<_, {EXP_GOLOMB}>;
    #[kani::unwind(12)]
    c10_codes_sym_exp_golomb_le (thorough, "Codes::ExpGolomb symbolic param 11..=63, LE stream", "catch-all arms; symbolic value") => codes_sym_le::<_, {EXP_GOLOMB}>;
    #[kani::unwind(12)]
    c10_codes_sym_rice_be (quick, "Codes::Rice symbolic param 11..=63, BE stream", "catch-all arms; symbolic value") => codes_sym_be::<_, {RICE}>;
    #[kani::unwind(12)]
    c10_codes_sym_rice_le (thorough, "Codes::Rice symbolic param 11..=63, LE stream", "catch-all arms; symbolic value") => codes_sym_le::<_, {RICE}>;
    #[kani::unwind(12)]
    c10_func_unary0_be (thorough, "FuncCodeWriter/Reader/Len::new(Codes::Unary param 0), BE stream", "function-pointer dispatch vs the code own method; symbolic value") => func_be::<_, {UNARY}, 0>;
    #[kani::unwind(12)]
    c10_func_unary0_le (thorough, "FuncCodeWriter/Reader/Len::new(Codes::Unary param 0), LE stream", "function-pointer dispatch vs the code own method; symbolic value") => func_le::<_, {UNARY}, 0>;
    #[kani::unwind(12)]
    c10_func_gamma0_be (quick, "FuncCodeWriter/Reader/Len::new(Codes::Gamma param 0), BE stream", "function-pointer dispatch vs the code own method; symbolic value") => func_be::<_, {GAMMA}, 0>;
    #[kani::unwind(12)]
    c10_func_gamma0_le (thorough, "FuncCodeWriter/Reader/Len::new(Codes::Gamma param 0), LE stream", "function-pointer dispatch vs the code own method; symbolic value") => func_le::<_, {GAMMA}, 0>;
    #[kani::unwind(12)]
    c10_func_delta0_be (thorough, "FuncCodeWriter/Reader/Len::new(Codes::Delta param 0), BE stream", "function-pointer dispatch vs the code own method; symbolic value") => func_be::<_, {DELTA}, 0>;
    #[kani::unwind(12)]
    c10_func_delta0_le (thorough, "FuncCodeWriter/Reader/Len::new(Codes::Delta param 0), LE stream", "function-pointer dispatch vs the code own method; symbolic value") => func_le::<_, {DELTA}, 0>;
    #[kani::unwind(12)]
    c10_func_omega0_be (thorough, "FuncCodeWriter/Reader/Len::new(Codes::Omega param 0), BE stream", "function-pointer dispatch vs the code own method; symbolic value") => func_be::<_, {OMEGA}, 0>;
    #[kani::unwind(12)]
    c10_func_omega0_le (thorough, "FuncCodeWriter/Reader/Len::new(Codes::Omega param 0), LE stream", "function-pointer dispatch vs the code own method; symbolic value") => func_le::<_, {OMEGA}, 0>;
    #[kani::unwind(12)]
    c10_func_vbyte_be0_be (thorough, "FuncCodeWriter/Reader/Len::new(Codes::VbyteBe param 0), BE stream", "function-pointer dispatch vs the code own method; symbolic value") => func_be::<_, {VBYTE_BE}, 0>;
    #[kani::unwind(12)]
    c10_func_vbyte_be0_le (thorough, "FuncCodeWriter/Reader/Len::new(Codes::VbyteBe param 0), LE stream", "function-pointer dispatch vs the code own method; symbolic value") => func_le::<_, {VBYTE_BE}, 0>;
    #[kani::unwind(12)]
    c10_func_vbyte_le0_be (quick, "FuncCodeWriter/Reader/Len::new(Codes::VbyteLe param 0), BE stream", "function-pointer dispatch vs the code own method; symbolic value") => func_be::<_, {VBYTE_LE}, 0>;
    #[kani::unwind(12)]
    c10_func_vbyte_le0_le (thorough, "FuncCodeWriter/Reader/Len::new(Codes::VbyteLe param 0), LE stream", "function-pointer dispatch vs the code own method; symbolic value") => func_le::<_, {VBYTE_LE}, 0>;
    #[kani::unwind(12)]
    c10_func_zeta1_be (quick, "FuncCodeWriter/Reader/Len::new(Codes::Zeta param 1), BE stream", "function-pointer dispatch vs the code own method; symbolic value") => func_be::<_, {ZETA}, 1>;
    #[kani::unwind(12)]
    c10_func_zeta1_le (thorough, "FuncCodeWriter/Reader/Len::new(Codes::Zeta param 1), LE stream", "function-pointer dispatch vs the code own method; symbolic value") => func_le::<_, {ZETA}, 1>;
    #[kani::unwind(12)]
    c10_func_zeta2_be (thorough, "FuncCodeWriter/Reader/Len::new(Codes::Zeta param 2), BE stream", "function-pointer dispatch vs the code own method; symbolic value") => func_be::<_, {ZETA}, 2>;
    #[kani::unwind(12)]
    c10_func_zeta2_le (thorough, "FuncCodeWriter/Reader/Len::new(Codes::Zeta param 2), LE stream", "function-pointer dispatch vs the code own method; symbolic value") => func_le::<_, {ZETA}, 2>;
    #[kani::unwind(12)]
    c10_func_zeta3_be (thorough, "FuncCodeWriter/Reader/Len::new(Codes::Zeta param 3), BE stream", "function-pointer dispatch vs the code own method; symbolic value") => func_be::<_, {ZETA}, 3>;
    #[kani::unwind(12)]
    c10_func_zeta3_le (thorough, "FuncCodeWriter/Reader/Len::new(Codes::Zeta param 3), LE stream", "function-pointer dispatch vs the code own method; symbolic value") => func_le::<_, {ZETA}, 3>;
    #[kani::unwind(12)]
    c10_func_zeta4_be (thorough, "FuncCodeWriter/Reader/Len::new(Codes::Zeta param 4), BE stream", "function-pointer dispatch vs the code own method; symbolic value") => func_be::<_, {ZETA}, 4>;
    #[kani::unwind(12)]
    c10_func_zeta4_le (thorough, "FuncCodeWriter/Reader/Len::new(Codes::Zeta param 4), LE stream", "function-pointer dispatch vs the code own method; symbolic value") => func_le::<_, {ZETA}, 4>;
    #[kani::unwind(12)]
    c10_func_zeta5_be (thorough, "FuncCodeWriter/Reader/Len::new(Codes::Zeta param 5), BE stream", "function-pointer dispatch vs the code own method; symbolic value") => func_be::<_, {ZETA}, 5>;
    #[kani::unwind(12)]
    c10_func_zeta5_le (thorough, "FuncCodeWriter/Reader/Len::new(Codes::Zeta param 5), LE stream", "function-pointer dispatch vs the code own method; symbolic value") => func_le::<_, {ZETA}, 5>;
    #[kani::unwind(12)]
    c10_func_zeta6_be (thorough, "FuncCodeWriter/Reader/Len::new(Codes::Zeta param 6), BE stream", "function-pointer dispatch vs the code own method; symbolic value") => func_be::<_, {ZETA}, 6>;
    #[kani::unwind(12)]
    c10_func_zeta6_le (thorough, "FuncCodeWriter/Reader/Len::new(Codes::Zeta param 6), LE stream", "function-pointer dispatch vs the code own method; symbolic value") => func_le::<_, {ZETA}, 6>;
    #[kani::unwind(12)]
    c10_func_zeta7_be (thorough, "FuncCodeWriter/Reader/Len::new(Codes::Zeta param 7), BE stream", "function-pointer dispatch vs the code own method; symbolic value") => func_be::<_, {ZETA}, 7>;
    #[kani::unwind(12)]
    c10_func_zeta7_le (thorough, "FuncCodeWriter/Reader/Len::new(Codes::Zeta param 7), LE stream", "function-pointer dispatch vs the code own method; symbolic value") => func_le::<_, {ZETA}, 7>;
    #[kani::unwind(12)]
    c10_func_zeta8_be (thorough, "FuncCodeWriter/Reader/Len::new(Codes::Zeta param 8), BE stream", "function-pointer dispatch vs the code own method; symbolic value") => func_be::<_, {ZETA}, 8>;
    #[kani::unwind(12)]
    c10_func_zeta8_le (thorough, "FuncCodeWriter/Reader/Len::new(Codes::Zeta param 8), LE stream", "function-pointer dispatch vs the code own method; symbolic value") => func_le::<_, {ZETA}, 8>;
    #[kani::unwind(12)]
    c10_func_zeta9_be (thorough, "FuncCodeWriter/Reader/Len::new(Codes::Zeta param 9), BE stream", "function-pointer dispatch vs the code own method; symbolic value") => func_be::<_, {ZETA}, 9>;
    #[kani::unwind(12)]
    c10_func_zeta9_le (thorough, "FuncCodeWriter/Reader/Len::new(Codes::Zeta param 9), LE stream", "function-pointer dispatch vs the code own method; symbolic value") => func_le::<_, {ZETA}, 9>;
    #[kani::unwind(12)]
    c10_func_zeta10_be (thorough, "FuncCodeWriter/Reader/Len::new(Codes::Zeta param 10), BE stream", "function-pointer dispatch vs the code own method; symbolic value") => func_be::<_, {ZETA}, 10>;
    #[kani::unwind(12)]
    c10_func_zeta10_le (thorough, "FuncCodeWriter/Reader/Len::new(Codes::Zeta param 10), LE stream", "function-pointer dispatch vs the code own method; symbolic value") => func_le::<_, {ZETA}, 10>;
    #[kani::stub(alloc::fmt::format, stub_format)]
    #[kani::stub(std::string::ToString::to_string, stub_to_string)]
    #[kani::stub(std::backtrace::Backtrace::capture, stub_backtrace_capture)]
    #[kani::stub(<anyhow::Error as core::ops::Drop>::drop, stub_anyhow_drop)]
    c10_func_zeta11_be (quick, "FuncCodeWriter/Reader/Len::new(Codes::Zeta param 11)", "parameter beyond the documented set: either rejected, or performs exactly that code") => func_be::<_, {ZETA}, 11>;
    #[kani::unwind(12)]
    c10_func_pi0_be (thorough, "FuncCodeWriter/Reader/Len::new(Codes::Pi param 0), BE stream", "function-pointer dispatch vs the code own method; symbolic value") => func_be::<_, {PI}, 0>;
    #[kani::unwind(12)]
    c10_func_pi0_le (thorough, "FuncCodeWriter/Reader/Len::new(Codes::Pi param 0), LE stream", "function-pointer dispatch vs the code own method; symbolic value") => func_le::<_, {PI}, 0>;
    #[kani::unwind(12)]
    c10_func_pi1_be (quick, "FuncCodeWriter/Reader/Len::new(Codes::Pi param 1), BE stream", "function-pointer dispatch vs the code own method; symbolic value") => func_be::<_, {PI}, 1>;
    #[kani::unwind(12)]
    c10_func_pi1_le (thorough, "FuncCodeWriter/Reader/Len::new(Codes::Pi param 1), LE stream", "function-pointer dispatch vs the code own method; symbolic value") => func_le::<_, {PI}, 1>;
    #[kani::unwind(12)]
    c10_func_pi2_be (thorough, "FuncCodeWriter/Reader/Len::new(Codes::Pi param 2), BE stream", "function-pointer dispatch vs the code own method; symbolic value") => func_be::<_, {PI}, 2>;
    #[kani::unwind(12)]
    c10_func_pi2_le (thorough, "FuncCodeWriter/Reader/Len::new(Codes::Pi param 2), LE stream", "function-pointer dispatch vs the code own method; symbolic value") => func_le::<_, {PI}, 2>;
    #[kani::unwind(12)]
    c10_func_pi3_be (thorough, "FuncCodeWriter/Reader/Len::new(Codes::Pi param 3), BE stream", "function-pointer dispatch vs the code own method; symbolic value") => func_be::<_, {PI}, 3>;
    #[kani::unwind(12)]
    c10_func_pi3_le (thorough, "FuncCodeWriter/Reader/Len::new(Codes::Pi param 3), LE stream", "function-pointer dispatch vs the code own method; symbolic value") => func_le::<_, {PI}, 3>;
    #[kani::unwind(12)]
    c10_func_pi4_be (thorough, "FuncCodeWriter/Reader/Len::new(Codes::Pi param 4), BE stream", "function-pointer dispatch vs the code own method; symbolic value") => func_be::<_, {PI}, 4>;
    #[kani::unwind(12)]
    c10_func_pi4_le (thorough, "FuncCodeWriter/Reader/Len::new(Codes::Pi param 4), LE stream", "function-pointer dispatch vs the code own method; symbolic value") => func_le::<_, {PI}, 4>;
    #[kani::unwind(12)]
    c10_func_pi5_be (thorough, "FuncCodeWriter/Reader/Len::new(Codes::Pi param 5), BE stream", "function-pointer dispatch vs the code own method; symbolic value") => func_be::<_, {PI}, 5>;
    #[kani::unwind(12)]
    c10_func_pi5_le (thorough, "FuncCodeWriter/Reader/Len::new(Codes::Pi param 5), LE stream", "function-pointer dispatch vs the code own method; symbolic value") => func_le::<_, {PI}, 5>;
    #[kani::unwind(12)]
    c10_func_pi6_be (thorough, "FuncCodeWriter/Reader/Len::new(Codes::Pi param 6), BE stream", "function-pointer dispatch vs the code own method; symbolic value") => func_be::<_, {PI}, 6>;
    #[kani::unwind(12)]
    c10_func_pi6_le (thorough, "FuncCodeWriter/Reader/Len::new(Codes::Pi param 6), LE stream", "function-pointer dispatch vs the code own method; symbolic value") => func_le::<_, {PI}, 6>;
    #[kani::unwind(12)]
    c10_func_pi7_be (thorough, "FuncCodeWriter/Reader/Len::new(Codes::Pi param 7), BE stream", "function-pointer dispatch vs the code own method; symbolic value") => func_be::<_, {PI}, 7>;
    #[kani::unwind(12)]
    c10_func_pi7_le (thorough, "FuncCodeWriter/Reader/Len::new(Codes::Pi param 7), LE stream", "function-pointer dispatch vs the code own method; symbolic value") => func_le::<_, {PI}, 7>;
    #[kani::unwind(12)]
    c10_func_pi8_be (thorough, "FuncCodeWriter/Reader/Len::new(Codes::Pi param 8), BE stream", "function-pointer dispatch vs the code own method; symbolic value") => func_be::<_, {PI}, 8>;
    #[kani::unwind(12)]
    c10_func_pi8_le (thorough, "FuncCodeWriter/Reader/Len::new(Codes::Pi param 8), LE stream", "function-pointer dispatch vs the code own method; symbolic value") => func_le::<_, {PI}, 8>;
    #[kani::unwind(12)]
    c10_func_pi9_be (thorough, "FuncCodeWriter/Reader/Len::new(Codes::Pi param 9), BE stream", "function-pointer dispatch vs the code own method; symbolic value") => func_be::<_, {PI}, 9>;
    #[kani::unwind(12)]
    c10_func_pi9_le (thorough, "FuncCodeWriter/Reader/Len::new(Codes::Pi param 9), LE stream", "function-pointer dispatch vs the code own method; symbolic value") => func_le::<_, {PI}, 9>;
    #[kani::unwind(12)]
    c10_func_pi10_be (thorough, "FuncCodeWriter/Reader/Len::new(Codes::Pi param 10), BE stream", "function-pointer dispatch vs the code own method; symbolic value") => func_be::<_, {PI}, 10>;
    #[kani::unwind(12)]
    c10_func_pi10_le (thorough, "FuncCodeWriter/Reader/Len::new(Codes::Pi param 10), LE stream", "function-pointer dispatch vs the code own method; symbolic value") => func_le::<_, {PI}, 10>;
    #[kani::stub(alloc::fmt::format, stub_format)]
    #[kani::stub(std::string::ToString::to_string, stub_to_string)]
    #[kani::stub(std::backtrace::Backtrace::capture, stub_backtrace_capture)]
    #[kani::stub(<anyhow::Error as core::ops::Drop>::drop, stub_anyhow_drop)]
    c10_func_pi11_be (quick, "FuncCodeWriter/Reader/Len::new(Codes::Pi param 11)", "parameter beyond the documented set: either rejected, or performs exactly that code") => func_be::<_, {PI}, 11>;
    #[kani::unwind(12)]
    c10_func_golomb1_be (thorough, "FuncCodeWriter/Reader/Len::new(Codes::Golomb param 1), BE stream", "function-pointer dispatch vs the code own method; symbolic value") => func_be::<_, {GOLOMB}, 1>;
    #[kani::unwind(12)]
    c10_func_golomb1_le (thorough, "FuncCodeWriter/Reader/Len::new(Codes::Golomb param 1), LE stream", "function-pointer dispatch vs the code own method; symbolic value") => func_le::<_, {GOLOMB}, 1>;
    #[kani::unwind(12)]
    c10_func_golomb2_be (quick, "FuncCodeWriter/Reader/Len::new(Codes::Golomb param 2), BE stream", "function-pointer dispatch vs the code own method; symbolic value") => func_be::<_, {GOLOMB}, 2>;
    #[kani::unwind(12)]
    c10_func_golomb2_le (thorough, "FuncCodeWriter/Reader/Len::new(Codes::Golomb param 2), LE stream", "function-pointer dispatch vs the code own method; symbolic value") => func_le::<_, {GOLOMB}, 2>;
    #[kani::unwind(12)]
    c10_func_golomb3_be (thorough, "FuncCodeWriter/Reader/Len::new(Codes::Golomb param 3), BE stream", "function-pointer dispatch vs the code own method; symbolic value") => func_be::<_, {GOLOMB}, 3>;
    #[kani::unwind(12)]
    c10_func_golomb3_le (thorough, "FuncCodeWriter/Reader/Len::new(Codes::Golomb param 3), LE stream", "function-pointer dispatch vs the code own method; symbolic value") => func_le::<_, {GOLOMB}, 3>;
    #[kani::unwind(12)]
    c10_func_golomb4_be (thorough, "FuncCodeWriter/Reader/Len::new(Codes::Golomb param 4), BE stream", "function-pointer dispatch vs the code own method; symbolic value") => func_be::<_, {GOLOMB}, 4>;
    #[kani::unwind(12)]
    c10_func_golomb4_le (thorough, "FuncCodeWriter/Reader/Len::new(Codes::Golomb param 4), LE stream", "function-pointer dispatch vs the code own method; symbolic value") => func_le::<_, {GOLOMB}, 4>;
    #[kani::unwind(12)]
    c10_func_golomb5_be (thorough, "FuncCodeWriter/Reader/Len::new(Codes::Golomb param 5), BE stream", "function-pointer dispatch vs the code own method; symbolic value") => func_be::<_, {GOLOMB}, 5>;
    #[kani::unwind(12)]
    c10_func_golomb5_le (thorough, "FuncCodeWriter/Reader/Len::new(Codes::Golomb param 5), LE stream", "function-pointer dispatch vs the code own method; symbolic value") => func_le::<_, {GOLOMB}, 5>;
    #[kani::unwind(12)]
    c10_func_golomb6_be (thorough, "FuncCodeWriter/Reader/Len::new(Codes::Golomb param 6), BE stream", "function-pointer dispatch vs the code own method; symbolic value") => func_be::<_, {GOLOMB}, 6>;
    #[kani::unwind(12)]
    c10_func_golomb6_le (thorough, "FuncCodeWriter/Reader/Len::new(Codes::Golomb param 6), LE stream", "function-pointer dispatch vs the code own method; symbolic value") => func_le::<_, {GOLOMB}, 6>;
    #[kani::unwind(12)]
    c10_func_golomb7_be (thorough, "FuncCodeWriter/Reader/Len::new(Codes::Golomb param 7), BE stream", "function-pointer dispatch vs the code own method; symbolic value") => func_be::<_, {GOLOMB}, 7>;
    #[kani::unwind(12)]
    c10_func_golomb7_le (thorough, "FuncCodeWriter/Reader/Len::new(Codes::Golomb param 7), LE stream", "function-pointer dispatch vs the code own method; symbolic value") => func_le::<_, {GOLOMB}, 7>;
    #[kani::unwind(12)]
    c10_func_golomb8_be (quick, "FuncCodeWriter/Reader/Len::new(Codes::Golomb param 8), BE stream", "function-pointer dispatch vs the code own method; symbolic value") => func_be::<_, {GOLOMB}, 8>;
    #[kani::unwind(12)]
    c10_func_golomb8_le (thorough, "FuncCodeWriter/Reader/Len::new(Codes::Golomb param 8), LE stream", "function-pointer dispatch vs the code own method; symbolic value") => func_le::<_, {GOLOMB}, 8>;
    #[kani::unwind(12)]
    c10_func_golomb9_be (thorough, "FuncCodeWriter/Reader/Len::new(Codes::Golomb param 9), BE stream", "function-pointer dispatch vs the code own method; symbolic value") => func_be::<_, {GOLOMB}, 9>;
    #[kani::unwind(12)]
    c10_func_golomb9_le (thorough, "FuncCodeWriter/Reader/Len::new(Codes::Golomb param 9), LE stream", "function-pointer dispatch vs the code own method; symbolic value") => func_le::<_, {GOLOMB}, 9>;
    #[kani::unwind(12)]
    c10_func_golomb10_be (thorough, "FuncCodeWriter/Reader/Len::new(Codes::Golomb param 10), BE stream", "function-pointer dispatch vs the code own method; symbolic value") => func_be::<_, {GOLOMB}, 10>;
    #[kani::unwind(12)]
    c10_func_golomb10_le (thorough, "FuncCodeWriter/Reader/Len::new(Codes::Golomb param 10), LE stream", "function-pointer dispatch vs the code own method; symbolic value") => func_le::<_, {GOLOMB}, 10>;
    #[kani::stub(alloc::fmt::format, stub_format)]
    #[kani::stub(std::string::ToString::to_string, stub_to_string)]
    #[kani::stub(std::backtrace::Backtrace::capture, stub_backtrace_capture)]
    #[kani::stub(<anyhow::Error as core::ops::Drop>::drop, stub_anyhow_drop)]
    c10_func_golomb11_be (quick, "FuncCodeWriter/Reader/Len::new(Codes::Golomb param 11)", "parameter beyond the documented set: either rejected, or performs exactly that code") => func_be::<_, {GOLOMB}, 11>;
    #[kani::unwind(12)]
    c10_func_exp_golomb0_be (thorough, "FuncCodeWriter/Reader/Len::new(Codes::ExpGolomb param 0), BE stream", "function-pointer dispatch vs the code own method; symbolic value") => func_be::<_, {EXP_GOLOMB}, 0>;
    #[kani::unwind(12)]
    c10_func_exp_golomb0_le (thorough, "FuncCodeWriter/Reader/Len::new(Codes::ExpGolomb param 0), LE stream", "function-pointer dispatch vs the code own method; symbolic value") => func_le::<_, {EXP_GOLOMB}, 0>;
    #[kani::unwind(12)]
    c10_func_exp_golomb1_be (thorough, "FuncCodeWriter/Reader/Len::new(Codes::ExpGolomb param 1), BE stream", "function-pointer dispatch vs the code own method; symbolic value") => func_be::<_, {EXP_GOLOMB}, 1>;
    #[kani::unwind(12)]
    c10_func_exp_golomb1_le (thorough, "FuncCodeWriter/Reader/Len::new(Codes::ExpGolomb param 1), LE stream", "function-pointer dispatch vs the code own method; symbolic value") => func_le::<_, {EXP_GOLOMB}, 1>;
    #[kani::unwind(12)]
    c10_func_exp_golomb2_be (thorough, "FuncCodeWriter/Reader/Len::new(Codes::ExpGolomb param 2), BE stream", "function-pointer dispatch vs the code own method; symbolic value") => func_be::<_, {EXP_GOLOMB}, 2>;
    #[kani::unwind(12)]
    c10_func_exp_golomb2_le (thorough, "FuncCodeWriter/Reader/Len::new(Codes::ExpGolomb param 2), LE stream", "function-pointer dispatch vs the code own method; symbolic value") => func_le::<_, {EXP_GOLOMB}, 2>;
    #[kani::unwind(12)]
    c10_func_exp_golomb3_be (quick, "FuncCodeWriter/Reader/Len::new(Codes::ExpGolomb param 3), BE stream", "function-pointer dispatch vs the code own method; symbolic value") => func_be::<_, {EXP_GOLOMB}, 3>;
    #[kani::unwind(12)]
    c10_func_exp_golomb3_le (thorough, "FuncCodeWriter/Reader/Len::new(Codes::ExpGolomb param 3), LE stream", "function-pointer dispatch vs the code own method; symbolic value") => func_le::<_, {EXP_GOLOMB}, 3>;
    #[kani::unwind(12)]
    c10_func_exp_golomb4_be (thorough, "FuncCodeWriter/Reader/Len::new(Codes::ExpGolomb param 4), BE stream", "function-pointer dispatch vs the code own method; symbolic value") => func_be::<_, {EXP_GOLOMB}, 4>;
    #[kani::unwind(12)]
    c10_func_exp_golomb4_le (thorough, "FuncCodeWriter/Reader/Len::new(Codes::ExpGolomb param 4), LE stream", "function-pointer dispatch vs the code own method; symbolic value") => func_le::<_, {EXP_GOLOMB}, 4>;
    #[kani::unwind(12)]
    c10_func_exp_golomb5_be (thorough, "FuncCodeWriter/Reader/Len::new(Codes::ExpGolomb param 5), BE stream", "function-pointer dispatch vs the code own method; symbolic value") => func_be::<_, {EXP_GOLOMB}, 5>;
    #[kani::unwind(12)]
    c10_func_exp_golomb5_le (thorough, "FuncCodeWriter/Reader/Len::new(Codes::ExpGolomb param 5), LE stream", "function-pointer dispatch vs the code own method; symbolic value") => func_le::<_, {EXP_GOLOMB}, 5>;
    #[kani::unwind(12)]
    c10_func_exp_golomb6_be (thorough, "FuncCodeWriter/Reader/Len::new(Codes::ExpGolomb param 6), BE stream", "function-pointer dispatch vs the code own method; symbolic value") => func_be::<_, {EXP_GOLOMB}, 6>;
    #[kani::unwind(12)]
    c10_func_exp_golomb6_le (thorough, "FuncCodeWriter/Reader/Len::new(Codes::ExpGolomb param 6), LE stream", "function-pointer dispatch vs the code own method; symbolic value") => func_le::<_, {EXP_GOLOMB}, 6>;
    #[kani::unwind(12)]
    c10_func_exp_golomb7_be (thorough, "FuncCodeWriter/Reader/Len::new(Codes::ExpGolomb param 7), BE stream", "function-pointer dispatch vs the code own method; symbolic value") => func_be::<_, {EXP_GOLOMB}, 7>;
    #[kani::unwind(12)]
    c10_func_exp_golomb7_le (thorough, "FuncCodeWriter/Reader/Len::new(Codes::ExpGolomb param 7), LE stream", "function-pointer dispatch vs the code own method; symbolic value") => func_le::<_, {EXP_GOLOMB}, 7>;
    #[kani::unwind(12)]
    c10_func_exp_golomb8_be (thorough, "FuncCodeWriter/Reader/Len::new(Codes::ExpGolomb param 8), BE stream", "function-pointer dispatch vs the code own method; symbolic value") => func_be::<_, {EXP_GOLOMB}, 8>;
    #[kani::unwind(12)]
    c10_func_exp_golomb8_le (thorough, "FuncCodeWriter/Reader/Len::new(Codes::ExpGolomb param 8), LE stream", "function-pointer dispatch vs the code own method; symbolic value") => func_le::<_, {EXP_GOLOMB}, 8>;
    #[kani::unwind(12)]
    c10_func_exp_golomb9_be (thorough, "FuncCodeWriter/Reader/Len::new(Codes::ExpGolomb param 9), BE stream", "function-pointer dispatch vs the code own method; symbolic value") => func_be::<_, {EXP_GOLOMB}, 9>;
    #[kani::unwind(12)]
    c10_func_exp_golomb9_le (thorough, "FuncCodeWriter/Reader/Len::new(Codes::ExpGolomb param 9), LE stream", "function-pointer dispatch vs the code own method; symbolic value") => func_le::<_, {EXP_GOLOMB}, 9>;
    #[kani::unwind(12)]
    c10_func_exp_golomb10_be (thorough, "FuncCodeWriter/Reader/Len::new(Codes::ExpGolomb param 10), BE stream", "function-pointer dispatch vs the code own method; symbolic value") => func_be::<_, {EXP_GOLOMB}, 10>;
    #[kani::unwind(12)]
    c10_func_exp_golomb10_le (thorough, "FuncCodeWriter/Reader/Len::new(Codes::ExpGolomb param 10), LE stream", "function-pointer dispatch vs the code own method; symbolic value") => func_le::<_, {EXP_GOLOMB}, 10>;
    #[kani::stub(alloc::fmt::format, stub_format)]
    #[kani::stub(std::string::ToString::to_string, stub_to_string)]
    #[kani::stub(std::backtrace::Backtrace::capture, stub_backtrace_capture)]
    #[kani::stub(<anyhow::Error as core::ops::Drop>::drop, stub_anyhow_drop)]
    c10_func_exp_golomb11_be (quick, "FuncCodeWriter/Reader/Len::new(Codes::ExpGolomb param 11)", "parameter beyond the documented set: either rejected, or performs exactly that code") => func_be::<_, {EXP_GOLOMB}, 11>;
    #[kani::unwind(12)]
    c10_func_rice0_be (thorough, "FuncCodeWriter/Reader/Len::new(Codes::Rice param 0), BE stream", "function-pointer dispatch vs the code own method; symbolic value") => func_be::<_, {RICE}, 0>;
    #[kani::unwind(12)]
    c10_func_rice0_le (thorough, "FuncCodeWriter/Reader/Len::new(Codes::Rice param 0), LE stream", "function-pointer dispatch vs the code own method; symbolic value") => func_le::<_, {RICE}, 0>;
    #[kani::unwind(12)]
    c10_func_rice1_be (thorough, "FuncCodeWriter/Reader/Len::new(Codes::Rice param 1), BE stream", "function-pointer dispatch vs the code own method; symbolic value") => func_be::<_, {RICE}, 1>;
    #[kani::unwind(12)]
    c10_func_rice1_le (thorough, "FuncCodeWriter/Reader/Len::new(Codes::Rice param 1), LE stream", "function-pointer dispatch vs the code own method; symbolic value") => func_le::<_, {RICE}, 1>;
    #[kani::unwind(12)]
    c10_func_rice2_be (thorough, "FuncCodeWriter/Reader/Len::new(Codes::Rice param 2), BE stream", "function-pointer dispatch vs the code own method; symbolic value") => func_be::<_, {RICE}, 2>;
    #[kani::unwind(12)]
    c10_func_rice2_le (thorough, "FuncCodeWriter/Reader/Len::new(Codes::Rice param 2), LE stream", "function-pointer dispatch vs the code own method; symbolic value") => func_le::<_, {RICE}, 2>;
    #[kani::unwind(12)]
    c10_func_rice3_be (thorough, "FuncCodeWriter/Reader/Len::new(Codes::Rice param 3), BE stream", "function-pointer dispatch vs the code own method; symbolic value") => func_be::<_, {RICE}, 3>;
    #[kani::unwind(12)]
    c10_func_rice3_le (thorough, "FuncCodeWriter/Reader/Len::new(Codes::Rice param 3), LE stream", "function-pointer dispatch vs the code own method; symbolic value") => func_le::<_, {RICE}, 3>;
    #[kani::unwind(12)]
    c10_func_rice4_be (quick, "FuncCodeWriter/Reader/Len::new(Codes::Rice param 4), BE stream", "function-pointer dispatch vs the code own method; symbolic value") => func_be::<_, {RICE}, 4>;
    #[kani::unwind(12)]
    c10_func_rice4_le (thorough, "FuncCodeWriter/Reader/Len::new(Codes::Rice param 4), LE stream", "function-pointer dispatch vs the code own method; symbolic value") => func_le::<_, {RICE}, 4>;
    #[kani::unwind(12)]
    c10_func_rice5_be (thorough, "FuncCodeWriter/Reader/Len::new(Codes::Rice param 5), BE stream", "function-pointer dispatch vs the code own method; symbolic value") => func_be::<_, {RICE}, 5>;
    #[kani::unwind(12)]
    c10_func_rice5_le (thorough, "FuncCodeWriter/Reader/Len::new(Codes::Rice param 5), LE stream", "function-pointer dispatch vs the code own method; symbolic value") => func_le::<_, {RICE}, 5>;
    #[kani::unwind(12)]
    c10_func_rice6_be (thorough, "FuncCodeWriter/Reader/Len::new(Codes::Rice param 6), BE stream", "function-pointer dispatch vs the code own method; symbolic value") => func_be::<_, {RICE}, 6>;
    #[kani::unwind(12)]
    c10_func_rice6_le (thorough, "FuncCodeWriter/Reader/Len::new(Codes::Rice param 6), LE stream", "function-pointer dispatch vs the code own method; symbolic value") => func_le::<_, {RICE}, 6>;
    #[kani::unwind(12)]
    c10_func_rice7_be (thorough, "FuncCodeWriter/Reader/Len::new(Codes::Rice param 7), BE stream", "function-pointer dispatch vs the code own method; symbolic value") => func_be::<_, {RICE}, 7>;
    #[kani::unwind(12)]
    c10_func_rice7_le (thorough, "FuncCodeWriter/Reader/Len::new(Codes::Rice param 7), LE stream", "function-pointer dispatch vs the code own method; symbolic value") => func_le::<_, {RICE}, 7>;
    #[kani::unwind(12)]
    c10_func_rice8_be (thorough, "FuncCodeWriter/Reader/Len::new(Codes::Rice param 8), BE stream", "function-pointer dispatch vs the code own method; symbolic value") => func_be::<_, {RICE}, 8>;
    #[kani::unwind(12)]
    c10_func_rice8_le (thorough, "FuncCodeWriter/Reader/Len::new(Codes::Rice param 8), LE stream", "function-pointer dispatch vs the code own method; symbolic value") => func_le::<_, {RICE}, 8>;
    #[kani::unwind(12)]
    c10_func_rice9_be (thorough, "FuncCodeWriter/Reader/Len::new(Codes::Rice param 9), BE stream", "function-pointer dispatch vs the code own method; symbolic value") => func_be::<_, {RICE}, 9>;
    #[kani::unwind(12)]
    c10_func_rice9_le (thorough, "FuncCodeWriter/Reader/Len::new(Codes::Rice param 9), LE stream", "function-pointer dispatch vs the code own method; symbolic value") => func_le::<_, {RICE}, 9>;
    #[kani::unwind(12)]
    c10_func_rice10_be (thorough, "FuncCodeWriter/Reader/Len::new(Codes::Rice param 10), BE stream", "function-pointer dispatch vs the code own method; symbolic value") => func_be::<_, {RICE}, 10>;
    #[kani::unwind(12)]
    c10_func_rice10_le (thorough, "FuncCodeWriter/Reader/Len::new(Codes::Rice param 10), LE stream", "function-pointer dispatch vs the code own method; symbolic value") => func_le::<_, {RICE}, 10>;
    #[kani::stub(alloc::fmt::format, stub_format)]
    #[kani::stub(std::string::ToString::to_string, stub_to_string)]
    #[kani::stub(std::backtrace::Backtrace::capture, stub_backtrace_capture)]
    #[kani::stub(<anyhow::Error as core::ops::Drop>::drop, stub_anyhow_drop)]
    c10_func_rice11_be (quick, "FuncCodeWriter/Reader/Len::new(Codes::Rice param 11)", "parameter beyond the documented set: either rejected, or performs exactly that code") => func_be::<_, {RICE}, 11>;
    #[kani::stub(alloc::fmt::format, stub_format)]
    #[kani::stub(std::string::ToString::to_string, stub_to_string)]
    #[kani::stub(std::backtrace::Backtrace::capture, stub_backtrace_capture)]
    #[kani::stub(<anyhow::Error as core::ops::Drop>::drop, stub_anyhow_drop)]
    #[kani::unwind(12)]
    c10_factory_unary0_be (thorough, "FactoryFuncCodeReader::new(Codes::Unary param 0) over a reader factory, BE stream", "get() and inner() vs the code own method; symbolic value") => factory_be::<_, {UNARY}, 0>;
    #[kani::stub(alloc::fmt::format, stub_format)]
    #[kani::stub(std::string::ToString::to_string, stub_to_string)]
    #[kani::stub(std::backtrace::Backtrace::capture, stub_backtrace_capture)]
    #[kani::stub(<anyhow::Error as core::ops::Drop>::drop, stub_anyhow_drop)]
    #[kani::unwind(12)]
    c10_factory_unary0_le (thorough, "FactoryFuncCodeReader::new(Codes::Unary param 0) over a reader factory, LE stream", "get() and inner() vs the code own method; symbolic value") => factory_le::<_, {UNARY}, 0>;
    #[kani::stub(alloc::fmt::format, stub_format)]
    #[kani::stub(std::string::ToString::to_string, stub_to_string)]
    #[kani::stub(std::backtrace::Backtrace::capture, stub_backtrace_capture)]
    #[kani::stub(<anyhow::Error as core::ops::Drop>::drop, stub_anyhow_drop)]
    #[kani::unwind(12)]
    c10_factory_gamma0_be (quick, "FactoryFuncCodeReader::new(Codes::Gamma param 0) over a reader factory, BE stream", "get() and inner() vs the code own method; symbolic value") => factory_be::<_, {GAMMA}, 0>;
    #[kani::stub(alloc::fmt::format, stub_format)]
    #[kani::stub(std::string::ToString::to_string, stub_to_string)]
    #[kani::stub(std::backtrace::Backtrace::capture, stub_backtrace_capture)]
    #[kani::stub(<anyhow::Error as core::ops::Drop>::drop, stub_anyhow_drop)]
    #[kani::unwind(12)]
    c10_factory_gamma0_le (thorough, "FactoryFuncCodeReader::new(Codes::Gamma param 0) over a reader factory, LE stream", "get() and inner() vs the code own method; symbolic value") => factory_le::<_, {GAMMA}, 0>;
    #[kani::stub(alloc::fmt::format, stub_format)]
    #[kani::stub(std::string::ToString::to_string, stub_to_string)]
    #[kani::stub(std::backtrace::Backtrace::capture, stub_backtrace_capture)]
    #[kani::stub(<anyhow::Error as core::ops::Drop>::drop, stub_anyhow_drop)]
    #[kani::unwind(12)]
    c10_factory_delta0_be (thorough, "FactoryFuncCodeReader::new(Codes::Delta param 0) over a reader factory, BE stream", "get() and inner() vs the code own method; symbolic value") => factory_be::<_, {DELTA}, 0>;
    #[kani::stub(alloc::fmt::format, stub_format)]
    #[kani::stub(std::string::ToString::to_string, stub_to_string)]
    #[kani::stub(std::backtrace::Backtrace::capture, stub_backtrace_capture)]
    #[kani::stub(<anyhow::Error as core::ops::Drop>::drop, stub_anyhow_drop)]
    #[kani::unwind(12)]
    c10_factory_delta0_le (thorough, "FactoryFuncCodeReader::new(Codes::Delta param 0) over a reader factory, LE stream", "get() and inner() vs the code own method; symbolic value") => factory_le::<_, {DELTA}, 0>;
    #[kani::stub(alloc::fmt::format, stub_format)]
    #[kani::stub(std::string::ToString::to_string, stub_to_string)]
    #[kani::stub(std::backtrace::Backtrace::capture, stub_backtrace_capture)]
    #[kani::stub(<anyhow::Error as core::ops::Drop>::drop, stub_anyhow_drop)]
    #[kani::unwind(12)]
    c10_factory_omega0_be (thorough, "FactoryFuncCodeReader::new(Codes::Omega param 0) over a reader factory, BE stream", "get() and inner() vs the code own method; symbolic value") => factory_be::<_, {OMEGA}, 0>;
    #[kani::stub(alloc::fmt::format, stub_format)]
    #[kani::stub(std::string::ToString::to_string, stub_to_string)]
    #[kani::stub(std::backtrace::Backtrace::capture, stub_backtrace_capture)]
    #[kani::stub(<anyhow::Error as core::ops::Drop>::drop, stub_anyhow_drop)]
    #[kani::unwind(12)]
    c10_factory_omega0_le (thorough, "FactoryFuncCodeReader::new(Codes::Omega param 0) over a reader factory, LE stream", "get() and inner() vs the code own method; symbolic value") => factory_le::<_, {OMEGA}, 0>;
    #[kani::stub(alloc::fmt::format, stub_format)]
    #[kani::stub(std::string::ToString::to_string, stub_to_string)]
    #[kani::stub(std::backtrace::Backtrace::capture, stub_backtrace_capture)]
    #[kani::stub(<anyhow::Error as core::ops::Drop>::drop, stub_anyhow_drop)]
    #[kani::unwind(12)]
    c10_factory_vbyte_be0_be (thorough, "FactoryFuncCodeReader::new(Codes::VbyteBe param 0) over a reader factory, BE stream", "get() and inner() vs the code own method; symbolic value") => factory_be::<_, {VBYTE_BE}, 0>;
    #[kani::stub(alloc::fmt::format, stub_format)]
    #[kani::stub(std::string::ToString::to_string, stub_to_string)]
    #[kani::stub(std::backtrace::Backtrace::capture, stub_backtrace_capture)]
    #[kani::stub(<anyhow::Error as core::ops::Drop>::drop, stub_anyhow_drop)]
    #[kani::unwind(12)]
    c10_factory_vbyte_be0_le (thorough, "FactoryFuncCodeReader::new(Codes::VbyteBe param 0) over a reader factory, LE stream", "get() and inner() vs the code own method; symbolic value") => factory_le::<_, {VBYTE_BE}, 0>;
    #[kani::stub(alloc::fmt::format, stub_format)]
    #[kani::stub(std::string::ToString::to_string, stub_to_string)]
    #[kani::stub(std::backtrace::Backtrace::capture, stub_backtrace_capture)]
    #[kani::stub(<anyhow::Error as core::ops::Drop>::drop, stub_anyhow_drop)]
    #[kani::unwind(12)]
    c10_factory_vbyte_le0_be (thorough, "FactoryFuncCodeReader::new(Codes::VbyteLe param 0) over a reader factory, BE stream", "get() and inner() vs the code own method; symbolic value") => factory_be::<_, {VBYTE_LE}, 0>;
    #[kani::stub(alloc::fmt::format, stub_format)]
    #[kani::stub(std::string::ToString::to_string, stub_to_string)]
    #[kani::stub(std::backtrace::Backtrace::capture, stub_backtrace_capture)]
    #[kani::stub(<anyhow::Error as core::ops::Drop>::drop, stub_anyhow_drop)]
    #[kani::unwind(12)]
    c10_factory_vbyte_le0_le (thorough, "FactoryFuncCodeReader::new(Codes::VbyteLe param 0) over a reader factory, LE stream", "get() and inner() vs the code own method; symbolic value") => factory_le::<_, {VBYTE_LE}, 0>;
    #[kani::stub(alloc::fmt::format, stub_format)]
    #[kani::stub(std::string::ToString::to_string, stub_to_string)]
    #[kani::stub(std::backtrace::Backtrace::capture, stub_backtrace_capture)]
    #[kani::stub(<anyhow::Error as core::ops::Drop>::drop, stub_anyhow_drop)]
    #[kani::unwind(12)]
    c10_factory_zeta1_be (thorough, "FactoryFuncCodeReader::new(Codes::Zeta param 1) over a reader factory, BE stream", "get() and inner() vs the code own method; symbolic value") => factory_be::<_, {ZETA}, 1>;
    #[kani::stub(alloc::fmt::format, stub_format)]
    #[kani::stub(std::string::ToString::to_string, stub_to_string)]
    #[kani::stub(std::backtrace::Backtrace::capture, stub_backtrace_capture)]
    #[kani::stub(<anyhow::Error as core::ops::Drop>::drop, stub_anyhow_drop)]
    #[kani::unwind(12)]
    c10_factory_zeta1_le (thorough, "FactoryFuncCodeReader::new(Codes::Zeta param 1) over a reader factory, LE stream", "get() and inner() vs the code own method; symbolic value") => factory_le::<_, {ZETA}, 1>;
    #[kani::stub(alloc::fmt::format, stub_format)]
    #[kani::stub(std::string::ToString::to_string, stub_to_string)]
    #[kani::stub(std::backtrace::Backtrace::capture, stub_backtrace_capture)]
    #[kani::stub(<anyhow::Error as core::ops::Drop>::drop, stub_anyhow_drop)]
    #[kani::unwind(12)]
    c10_factory_zeta2_be (thorough, "FactoryFuncCodeReader::new(Codes::Zeta param 2) over a reader factory, BE stream", "get() and inner() vs the code own method; symbolic value") => factory_be::<_, {ZETA}, 2>;
    #[kani::stub(alloc::fmt::format, stub_format)]
    #[kani::stub(std::string::ToString::to_string, stub_to_string)]
    #[kani::stub(std::backtrace::Backtrace::capture, stub_backtrace_capture)]
    #[kani::stub(<anyhow::Error as core::ops::Drop>::drop, stub_anyhow_drop)]
    #[kani::unwind(12)]
    c10_factory_zeta2_le (thorough, "FactoryFuncCodeReader::new(Codes::Zeta param 2) over a reader factory, LE stream", "get() and inner() vs the code own method; symbolic value") => factory_le::<_, {ZETA}, 2>;
    #[kani::stub(alloc::fmt::format, stub_format)]
    #[kani::stub(std::string::ToString::to_string, stub_to_string)]
    #[kani::stub(std::backtrace::Backtrace::capture, stub_backtrace_capture)]
    #[kani::stub(<anyhow::Error as core::ops::Drop>::drop, stub_anyhow_drop)]
    #[kani::unwind(12)]
    c10_factory_zeta3_be (quick, "FactoryFuncCodeReader::new(Codes::Zeta param 3) over a reader factory, BE stream", "get() and inner() vs the code own method; symbolic value") => factory_be::<_, {ZETA}, 3>;
    #[kani::stub(alloc::fmt::format, stub_format)]
    #[kani::stub(std::string::ToString::to_string, stub_to_string)]
    #[kani::stub(std::backtrace::Backtrace::capture, stub_backtrace_capture)]
    #[kani::stub(<anyhow::Error as core::ops::Drop>::drop, stub_anyhow_drop)]
    #[kani::unwind(12)]
    c10_factory_zeta3_le (thorough, "FactoryFuncCodeReader::new(Codes::Zeta param 3) over a reader factory, LE stream", "get() and inner() vs the code own method; symbolic value") => factory_le::<_, {ZETA}, 3>;
    #[kani::stub(alloc::fmt::format, stub_format)]
    #[kani::stub(std::string::ToString::to_string, stub_to_string)]
    #[kani::stub(std::backtrace::Backtrace::capture, stub_backtrace_capture)]
    #[kani::stub(<anyhow::Error as core::ops::Drop>::drop, stub_anyhow_drop)]
    #[kani::unwind(12)]
    c10_factory_zeta4_be (thorough, "FactoryFuncCodeReader::new(Codes::Zeta param 4) over a reader factory, BE stream", "get() and inner() vs the code own method; symbolic value") => factory_be::<_, {ZETA}, 4>;
    #[kani::stub(alloc::fmt::format, stub_format)]
    #[kani::stub(std::string::ToString::to_string, stub_to_string)]
    #[kani::stub(std::backtrace::Backtrace::capture, stub_backtrace_capture)]
    #[kani::stub(<anyhow::Error as core::ops::Drop>::drop, stub_anyhow_drop)]
    #[kani::unwind(12)]
    c10_factory_zeta4_le (thorough, "FactoryFuncCodeReader::new(Codes::Zeta param 4) over a reader factory, LE stream", "get() and inner() vs the code own method; symbolic value") => factory_le::<_, {ZETA}, 4>;
    #[kani::stub(alloc::fmt::format, stub_format)]
    #[kani::stub(std::string::ToString::to_string, stub_to_string)]
    #[kani::stub(std::backtrace::Backtrace::capture, stub_backtrace_capture)]
    #[kani::stub(<anyhow::Error as core::ops::Drop>::drop, stub_anyhow_drop)]
    #[kani::unwind(12)]
    c10_factory_zeta5_be (thorough, "FactoryFuncCodeReader::new(Codes::Zeta param 5) over a reader factory, BE stream", "get() and inner() vs the code own method; symbolic value") => factory_be::<_, {ZETA}, 5>;
    #[kani::stub(alloc::fmt::format, stub_format)]
    #[kani::stub(std::string::ToString::to_string, stub_to_string)]
    #[kani::stub(std::backtrace::Backtrace::capture, stub_backtrace_capture)]
    #[kani::stub(<anyhow::Error as core::ops::Drop>::drop, stub_anyhow_drop)]
    #[kani::unwind(12)]
    c10_factory_zeta5_le (thorough, "FactoryFuncCodeReader::new(Codes::Zeta param 5) over a reader factory, LE stream", "get() and inner() vs the code own method; symbolic value") => factory_le::<_, {ZETA}, 5>;
    #[kani::stub(alloc::fmt::format, stub_format)]
    #[kani::stub(std::string::ToString::to_string, stub_to_string)]
    #[kani::stub(std::backtrace::Backtrace::capture, stub_backtrace_capture)]
    #[kani::stub(<anyhow::Error as core::ops::Drop>::drop, stub_anyhow_drop)]
    #[kani::unwind(12)]
    c10_factory_zeta6_be (thorough, "FactoryFuncCodeReader::new(Codes::Zeta param 6) over a reader factory, BE stream", "get() and inner() vs the code own method; symbolic value") => factory_be::<_, {ZETA}, 6>;
    #[kani::stub(alloc::fmt::format, stub_format)]
    #[kani::stub(std::string::ToString::to_string, stub_to_string)]
    #[kani::stub(std::backtrace::Backtrace::capture, stub_backtrace_capture)]
    #[kani::stub(<anyhow::Error as core::ops::Drop>::drop, stub_anyhow_drop)]
    #[kani::unwind(12)]
    c10_factory_zeta6_le (thorough, "FactoryFuncCodeReader::new(Codes::Zeta param 6) over a reader factory, LE stream", "get() and inner() vs the code own method; symbolic value") => factory_le::<_, {ZETA}, 6>;
    #[kani::stub(alloc::fmt::format, stub_format)]
    #[kani::stub(std::string::ToString::to_string, stub_to_string)]
    #[kani::stub(std::backtrace::Backtrace::capture, stub_backtrace_capture)]
    #[kani::stub(<anyhow::Error as core::ops::Drop>::drop, stub_anyhow_drop)]
    #[kani::unwind(12)]
    c10_factory_zeta7_be (thorough, "FactoryFuncCodeReader::new(Codes::Zeta param 7) over a reader factory, BE stream", "get() and inner() vs the code own method; symbolic value") => factory_be::<_, {ZETA}, 7>;
    #[kani::stub(alloc::fmt::format, stub_format)]
    #[kani::stub(std::string::ToString::to_string, stub_to_string)]
    #[kani::stub(std::backtrace::Backtrace::capture, stub_backtrace_capture)]
    #[kani::stub(<anyhow::Error as core::ops::Drop>::drop, stub_anyhow_drop)]
    #[kani::unwind(12)]
    c10_factory_zeta7_le (thorough, "FactoryFuncCodeReader::new(Codes::Zeta param 7) over a reader factory, LE stream", "get() and inner() vs the code own method; symbolic value") => factory_le::<_, {ZETA}, 7>;
    #[kani::stub(alloc::fmt::format, stub_format)]
    #[kani::stub(std::string::ToString::to_string, stub_to_string)]
    #[kani::stub(std::backtrace::Backtrace::capture, stub_backtrace_capture)]
    #[kani::stub(<anyhow::Error as core::ops::Drop>::drop, stub_anyhow_drop)]
    #[kani::unwind(12)]
    c10_factory_zeta8_be (thorough, "FactoryFuncCodeReader::new(Codes::Zeta param 8) over a reader factory, BE stream", "get() and inner() vs the code own method; symbolic value") => factory_be::<_, {ZETA}, 8>;
    #[kani::stub(alloc::fmt::format, stub_format)]
    #[kani::stub(std::string::ToString::to_string, stub_to_string)]
    #[kani::stub(std::backtrace::Backtrace::capture, stub_backtrace_capture)]
    #[kani::stub(<anyhow::Error as core::ops::Drop>::drop, stub_anyhow_drop)]
    #[kani::unwind(12)]
    c10_factory_zeta8_le (thorough, "FactoryFuncCodeReader::new(Codes::Zeta param 8) over a reader factory, LE stream", "get() and inner() vs the code own method; symbolic value") => factory_le::<_, {ZETA}, 8>;
    #[kani::stub(alloc::fmt::format, stub_format)]
    #[kani::stub(std::string::ToString::to_string, stub_to_string)]
    #[kani::stub(std::backtrace::Backtrace::capture, stub_backtrace_capture)]
    #[kani::stub(<anyhow::Error as core::ops::Drop>::drop, stub_anyhow_drop)]
    #[kani::unwind(12)]
    c10_factory_zeta9_be (thorough, "FactoryFuncCodeReader::new(Codes::Zeta param 9) over a reader factory, BE stream", "get() and inner() vs the code own method; symbolic value") => factory_be::<_, {ZETA}, 9>;
    #[kani::stub(alloc::fmt::format, stub_format)]
    #[kani::stub(std::string::ToString::to_string, stub_to_string)]
    #[kani::stub(std::backtrace::Backtrace::capture, stub_backtrace_capture)]
    #[kani::stub(<anyhow::Error as core::ops::Drop>::drop, stub_anyhow_drop)]
    #[kani::unwind(12)]
    c10_factory_zeta9_le (thorough, "FactoryFuncCodeReader::new(Codes::Zeta param 9) over a reader factory, LE stream", "get() and inner() vs the code own method; symbolic value") => factory_le::<_, {ZETA}, 9>;
    #[kani::stub(alloc::fmt::format, stub_format)]
    #[kani::stub(std::string::ToString::to_string, stub_to_string)]
    #[kani::stub(std::backtrace::Backtrace::capture, stub_backtrace_capture)]
    #[kani::stub(<anyhow::Error as core::ops::Drop>::drop, stub_anyhow_drop)]
    #[kani::unwind(12)]
    c10_factory_zeta10_be (thorough, "FactoryFuncCodeReader::new(Codes::Zeta param 10) over a reader factory, BE stream", "get() and inner() vs the code own method; symbolic value") => factory_be::<_, {ZETA}, 10>;
    #[kani::stub(alloc::fmt::format, stub_format)]
    #[kani::stub(std::string::ToString::to_string, stub_to_string)]
    #[kani::stub(std::backtrace::Backtrace::capture, stub_backtrace_capture)]
    #[kani::stub(<anyhow::Error as core::ops::Drop>::drop, stub_anyhow_drop)]
    #[kani::unwind(12)]
    c10_factory_zeta10_le (thorough, "FactoryFuncCodeReader::new(Codes::Zeta param 10) over a reader factory, LE stream", "get() and inner() vs the code own method; symbolic value") => factory_le::<_, {ZETA}, 10>;
    #[kani::stub(alloc::fmt::format, stub_format)]
    #[kani::stub(std::string::ToString::to_string, stub_to_string)]
    #[kani::stub(std::backtrace::Backtrace::capture, stub_backtrace_capture)]
    #[kani::stub(<anyhow::Error as core::ops::Drop>::drop, stub_anyhow_drop)]
    #[kani::unwind(12)]
    c10_factory_pi0_be (thorough, "FactoryFuncCodeReader::new(Codes::Pi param 0) over a reader factory, BE stream", "get() and inner() vs the code own method; symbolic value") => factory_be::<_, {PI}, 0>;
    #[kani::stub(alloc::fmt::format, stub_format)]
    #[kani::stub(std::string::ToString::to_string, stub_to_string)]
    #[kani::stub(std::backtrace::Backtrace::capture, stub_backtrace_capture)]
    #[kani::stub(<anyhow::Error as core::ops::Drop>::drop, stub_anyhow_drop)]
    #[kani::unwind(12)]
    c10_factory_pi0_le (thorough, "FactoryFuncCodeReader::new(Codes::Pi param 0) over a reader factory, LE stream", "get() and inner() vs the code own method; symbolic value") => factory_le::<_, {PI}, 0>;
    #[kani::stub(alloc::fmt::format, stub_format)]
    #[kani::stub(std::string::ToString::to_string, stub_to_string)]
    #[kani::stub(std::backtrace::Backtrace::capture, stub_backtrace_capture)]
    #[kani::stub(<anyhow::Error as core::ops::Drop>::drop, stub_anyhow_drop)]
    #[kani::unwind(12)]
    c10_factory_pi1_be (quick, "FactoryFuncCodeReader::new(Codes::Pi param 1) over a reader factory, BE stream", "get() and inner() vs the code own method; symbolic value") => factory_be::<_, {PI}, 1>;
    #[kani::stub(alloc::fmt::format, stub_format)]
    #[kani::stub(std::string::ToString::to_string, stub_to_string)]
    #[kani::stub(std::backtrace::Backtrace::capture, stub_backtrace_capture)]
    #[kani::stub(<anyhow::Error as core::ops::Drop>::drop, stub_anyhow_drop)]
    #[kani::unwind(12)]
    c10_factory_pi1_le (thorough, "FactoryFuncCodeReader::new(Codes::Pi param 1) over a reader factory, LE stream", "get() and inner() vs the code own method; symbolic value") => factory_le::<_, {PI}, 1>;
    #[kani::stub(alloc::fmt::format, stub_format)]
    #[kani::stub(std::string::ToString::to_string, stub_to_string)]
    #[kani::stub(std::backtrace::Backtrace::capture, stub_backtrace_capture)]
    #[kani::stub(<anyhow::Error as core::ops::Drop>::drop, stub_anyhow_drop)]
    #[kani::unwind(12)]
    c10_factory_pi2_be (thorough, "FactoryFuncCodeReader::new(Codes::Pi param 2) over a reader factory, BE stream", "get() and inner() vs the code own method; symbolic value") => factory_be::<_, {PI}, 2>;
    #[kani::stub(alloc::fmt::format, stub_format)]
    #[kani::stub(std::string::ToString::to_string, stub_to_string)]
    #[kani::stub(std::backtrace::Backtrace::capture, stub_backtrace_capture)]
    #[kani::stub(<anyhow::Error as core::ops::Drop>::drop, stub_anyhow_drop)]
    #[kani::unwind(12)]
    c10_factory_pi2_le (thorough, "FactoryFuncCodeReader::new(Codes::Pi param 2) over a reader factory, LE stream", "get() and inner() vs the code own method; symbolic value") => factory_le::<_, {PI}, 2>;
    #[kani::stub(alloc::fmt::format, stub_format)]
    #[kani::stub(std::string::ToString::to_string, stub_to_string)]
    #[kani::stub(std::backtrace::Backtrace::capture, stub_backtrace_capture)]
    #[kani::stub(<anyhow::Error as core::ops::Drop>::drop, stub_anyhow_drop)]
    #[kani::unwind(12)]
    c10_factory_pi3_be (thorough, "FactoryFuncCodeReader::new(Codes::Pi param 3) over a reader factory, BE stream", "get() and inner() vs the code own method; symbolic value") => factory_be::<_, {PI}, 3>;
    #[kani::stub(alloc::fmt::format, stub_format)]
    #[kani::stub(std::string::ToString::to_string, stub_to_string)]
    #[kani::stub(std::backtrace::Backtrace::capture, stub_backtrace_capture)]
    #[kani::stub(<anyhow::Error as core::ops::Drop>::drop, stub_anyhow_drop)]
    #[kani::unwind(12)]
    c10_factory_pi3_le (thorough, "FactoryFuncCodeReader::new(Codes::Pi param 3) over a reader factory, LE stream", "get() and inner() vs the code own method; symbolic value") => factory_le::<_, {PI}, 3>;
    #[kani::stub(alloc::fmt::format, stub_format)]
    #[kani::stub(std::string::ToString::to_string, stub_to_string)]
    #[kani::stub(std::backtrace::Backtrace::capture, stub_backtrace_capture)]
    #[kani::stub(<anyhow::Error as core::ops::Drop>::drop, stub_anyhow_drop)]
    #[kani::unwind(12)]
    c10_factory_pi4_be (thorough, "FactoryFuncCodeReader::new(Codes::Pi param 4) over a reader factory, BE stream", "get() and inner() vs the code own method; symbolic value") => factory_be::<_, {PI}, 4>;
    #[kani::stub(alloc::fmt::format, stub_format)]
    #[kani::stub(std::string::ToString::to_string, stub_to_string)]
    #[kani::stub(std::backtrace::Backtrace::capture, stub_backtrace_capture)]
    #[kani::stub(<anyhow::Error as core::ops::Drop>::drop, stub_anyhow_drop)]
    #[kani::unwind(12)]
    c10_factory_pi4_le (thorough, "FactoryFuncCodeReader::new(Codes::Pi param 4) over a reader factory, LE stream", "get() and inner() vs the code own method; symbolic value") => factory_le::<_, {PI}, 4>;
    #[kani::stub(alloc::fmt::format, stub_format)]
    #[kani::stub(std::string::ToString::to_string, stub_to_string)]
    #[kani::stub(std::backtrace::Backtrace::capture, stub_backtrace_capture)]
    #[kani::stub(<anyhow::Error as core::ops::Drop>::drop, stub_anyhow_drop)]
    #[kani::unwind(12)]
    c10_factory_pi5_be (thorough, "FactoryFuncCodeReader::new(Codes::Pi param 5) over a reader factory, BE stream", "get() and inner() vs the code own method; symbolic value") => factory_be::<_, {PI}, 5>;
    #[kani::stub(alloc::fmt::format, stub_format)]
    #[kani::stub(std::string::ToString::to_string, stub_to_string)]
    #[kani::stub(std::backtrace::Backtrace::capture, stub_backtrace_capture)]
    #[kani::stub(<anyhow::Error as core::ops::Drop>::drop, stub_anyhow_drop)]
    #[kani::unwind(12)]
    c10_factory_pi5_le (thorough, "FactoryFuncCodeReader::new(Codes::Pi param 5) over a reader factory, LE stream", "get() and inner() vs the code own method; symbolic value") => factory_le::<_, {PI}, 5>;
    #[kani::stub(alloc::fmt::format, stub_format)]
    #[kani::stub(std::string::ToString::to_string, stub_to_string)]
    #[kani::stub(std::backtrace::Backtrace::capture, stub_backtrace_capture)]
    #[kani::stub(<anyhow::Error as core::ops::Drop>::drop, stub_anyhow_drop)]
    #[kani::unwind(12)]
    c10_factory_pi6_be (thorough, "FactoryFuncCodeReader::new(Codes::Pi param 6) over a reader factory, BE stream", "get() and inner() vs the code own method; symbolic value") => factory_be::<_, {PI}, 6>;
    #[kani::stub(alloc::fmt::format, stub_format)]
    #[kani::stub(std::string::ToString::to_string, stub_to_string)]
    #[kani::stub(std::backtrace::Backtrace::capture, stub_backtrace_capture)]
    #[kani::stub(<anyhow::Error as core::ops::Drop>::drop, stub_anyhow_drop)]
    #[kani::unwind(12)]
    c10_factory_pi6_le (thorough, "FactoryFuncCodeReader::new(Codes::Pi param 6) over a reader factory, LE stream", "get() and inner() vs the code own method; symbolic value") => factory_le::<_, {PI}, 6>;
    #[kani::stub(alloc::fmt::format, stub_format)]
    #[kani::stub(std::string::ToString::to_string, stub_to_string)]
    #[kani::stub(std::backtrace::Backtrace::capture, stub_backtrace_capture)]
    #[kani::stub(<anyhow::Error as core::ops::Drop>::drop, stub_anyhow_drop)]
    #[kani::unwind(12)]
    c10_factory_pi7_be (thorough, "FactoryFuncCodeReader::new(Codes::Pi param 7) over a reader factory, BE stream", "get() and inner() vs the code own method; symbolic value") => factory_be::<_, {PI}, 7>;
    #[kani::stub(alloc::fmt::format, stub_format)]
    #[kani::stub(std::string::ToString::to_string, stub_to_string)]
    #[kani::stub(std::backtrace::Backtrace::capture, stub_backtrace_capture)]
    #[kani::stub(<anyhow::Error as core::ops::Drop>::drop, stub_anyhow_drop)]
    #[kani::unwind(12)]
    c10_factory_pi7_le (thorough, "FactoryFuncCodeReader::new(Codes::Pi param 7) over a reader factory, LE stream", "get() and inner() vs the code own method; symbolic value") => factory_le::<_, {PI}, 7>;
    #[kani::stub(alloc::fmt::format, stub_format)]
    #[kani::stub(std::string::ToString::to_string, stub_to_string)]
    #[kani::stub(std::backtrace::Backtrace::capture, stub_backtrace_capture)]
    #[kani::stub(<anyhow::Error as core::ops::Drop>::drop, stub_anyhow_drop)]
    #[kani::unwind(12)]
    c10_factory_pi8_be (thorough, "FactoryFuncCodeReader::new(Codes::Pi param 8) over a reader factory, BE stream", "get() and inner() vs the code own method; symbolic value") => factory_be::<_, {PI}, 8>;
    #[kani::stub(alloc::fmt::format, stub_format)]
    #[kani::stub(std::string::ToString::to_string, stub_to_string)]
    #[kani::stub(std::backtrace::Backtrace::capture, stub_backtrace_capture)]
    #[kani::stub(<anyhow::Error as core::ops::Drop>::drop, stub_anyhow_drop)]
    #[kani::unwind(12)]
    c10_factory_pi8_le (thorough, "FactoryFuncCodeReader::new(Codes::Pi param 8) over a reader factory, LE stream", "get() and inner() vs the code own method; symbolic value") => factory_le::<_, {PI}, 8>;
    #[kani::stub(alloc::fmt::format, stub_format)]
    #[kani::stub(std::string::ToString::to_string, stub_to_string)]
    #[kani::stub(std::backtrace::Backtrace::capture, stub_backtrace_capture)]
    #[kani::stub(<anyhow::Error as core::ops::Drop>::drop, stub_anyhow_drop)]
    #[kani::unwind(12)]
    c10_factory_pi9_be (thorough, "FactoryFuncCodeReader::new(Codes::Pi param 9) over a reader factory, BE stream", "get() and inner() vs the code own method; symbolic value") => factory_be::<_, {PI}, 9>;
    #[kani::stub(alloc::fmt::format, stub_format)]
    #[kani::stub(std::string::ToString::to_string, stub_to_string)]
    #[kani::stub(std::backtrace::Backtrace::capture, stub_backtrace_capture)]
    #[kani::stub(<anyhow::Error as core::ops::Drop>::drop, stub_anyhow_drop)]
    #[kani::unwind(12)]
    c10_factory_pi9_le (thorough, "FactoryFuncCodeReader::new(Codes::Pi param 9) over a reader factory, LE stream", "get() and inner() vs the code own method; symbolic value") => factory_le::<_, {PI}, 9>;
    #[kani::stub(alloc::fmt::format, stub_format)]
    #[kani::stub(std::string::ToString::to_string, stub_to_string)]
    #[kani::stub(std::backtrace::Backtrace::capture, stub_backtrace_capture)]
    #[kani::stub(<anyhow::Error as core::ops::Drop>::drop, stub_anyhow_drop)]
    #[kani::unwind(12)]
    c10_factory_pi10_be (thorough, "FactoryFuncCodeReader::new(Codes::Pi param 10) over a reader factory, BE stream", "get() and inner() vs the code own method; symbolic value") => factory_be::<_, {PI}, 10>;
    #[kani::stub(alloc::fmt::format, stub_format)]
    #[kani::stub(std::string::ToString::to_string, stub_to_string)]
    #[kani::stub(std::backtrace::Backtrace::capture, stub_backtrace_capture)]
    #[kani::stub(<anyhow::Error as core::ops::Drop>::drop, stub_anyhow_drop)]
    #[kani::unwind(12)]
    c10_factory_pi10_le (thorough, "FactoryFuncCodeReader::new(Codes::Pi param 10) over a reader factory, LE stream", "get() and inner() vs the code own method; symbolic value") => factory_le::<_, {PI}, 10>;
    #[kani::stub(alloc::fmt::format, stub_format)]
    #[kani::stub(std::string::ToString::to_string, stub_to_string)]
    #[kani::stub(std::backtrace::Backtrace::capture, stub_backtrace_capture)]
    #[kani::stub(<anyhow::Error as core::ops::Drop>::drop, stub_anyhow_drop)]
    #[kani::unwind(12)]
    c10_factory_golomb1_be (thorough, "FactoryFuncCodeReader::new(Codes::Golomb param 1) over a reader factory, BE stream", "get() and inner() vs the code own method; symbolic value") => factory_be::<_, {GOLOMB}, 1>;
    #[kani::stub(alloc::fmt::format, stub_format)]
    #[kani::stub(std::string::ToString::to_string, stub_to_string)]
    #[kani::stub(std::backtrace::Backtrace::capture, stub_backtrace_capture)]
    #[kani::stub(<anyhow::Error as core::ops::Drop>::drop, stub_anyhow_drop)]
    #[kani::unwind(12)]
    c10_factory_golomb1_le (thorough, "FactoryFuncCodeReader::new(Codes::Golomb param 1) over a reader factory, LE stream", "get() and inner() vs the code own method; symbolic value") => factory_le::<_, {GOLOMB}, 1>;
    #[kani::stub(alloc::fmt::format, stub_format)]
    #[kani::stub(std::string::ToString::to_string, stub_to_string)]
    #[kani::stub(std::backtrace::Backtrace::capture, stub_backtrace_capture)]
    #[kani::stub(<anyhow::Error as core::ops::Drop>::drop, stub_anyhow_drop)]
    #[kani::unwind(12)]
    c10_factory_golomb2_be (thorough, "FactoryFuncCodeReader::new(Codes::Golomb param 2) over a reader factory, BE stream", "get() and inner() vs the code own method; symbolic value") => factory_be::<_, {GOLOMB}, 2>;
    #[kani::stub(alloc::fmt::format, stub_format)]
    #[kani::stub(std::string::ToString::to_string, stub_to_string)]
    #[kani::stub(std::backtrace::Backtrace::capture, stub_backtrace_capture)]
    #[kani::stub(<anyhow::Error as core::ops::Drop>::drop, stub_anyhow_drop)]
    #[kani::unwind(12)]
    c10_factory_golomb2_le (thorough, "FactoryFuncCodeReader::new(Codes::Golomb param 2) over a reader factory, LE stream", "get() and inner() vs the code own method; symbolic value") => factory_le::<_, {GOLOMB}, 2>;
    #[kani::stub(alloc::fmt::format, stub_format)]
    #[kani::stub(std::string::ToString::to_string, stub_to_string)]
    #[kani::stub(std::backtrace::Backtrace::capture, stub_backtrace_capture)]
    #[kani::stub(<anyhow::Error as core::ops::Drop>::drop, stub_anyhow_drop)]
    #[kani::unwind(12)]
    c10_factory_golomb3_be (thorough, "FactoryFuncCodeReader::new(Codes::Golomb param 3) over a reader factory, BE stream", "get() and inner() vs the code own method; symbolic value") => factory_be::<_, {GOLOMB}, 3>;
    #[kani::stub(alloc::fmt::format, stub_format)]
    #[kani::stub(std::string::ToString::to_string, stub_to_string)]
    #[kani::stub(std::backtrace::Backtrace::capture, stub_backtrace_capture)]
    #[kani::stub(<anyhow::Error as core::ops::Drop>::drop, stub_anyhow_drop)]
    #[kani::unwind(12)]
    c10_factory_golomb3_le (thorough, "FactoryFuncCodeReader::new(Codes::Golomb param 3) over a reader factory, LE stream", "get() and inner() vs the code own method; symbolic value") => factory_le::<_, {GOLOMB}, 3>;
    #[kani::stub(alloc::fmt::format, stub_format)]
    #[kani::stub(std::string::ToString::to_string, stub_to_string)]
    #[kani::stub(std::backtrace::Backtrace::capture, stub_backtrace_capture)]
    #[kani::stub(<anyhow::Error as core::ops::Drop>::drop, stub_anyhow_drop)]
    #[kani::unwind(12)]
    c10_factory_golomb4_be (quick, "FactoryFuncCodeReader::new(Codes::Golomb param 4) over a reader factory, BE stream", "get() and inner() vs the code own method; symbolic value") => factory_be::<_, {GOLOMB}, 4>;
    #[kani::stub(alloc::fmt::format, stub_format)]
    #[kani::stub(std::string::ToString::to_string, stub_to_string)]
    #[kani::stub(std::backtrace::Backtrace::capture, stub_backtrace_capture)]
    #[kani::stub(<anyhow::Error as core::ops::Drop>::drop, stub_anyhow_drop)]
    #[kani::unwind(12)]
    c10_factory_golomb4_le (thorough, "FactoryFuncCodeReader::new(Codes::Golomb param 4) over a reader factory, LE stream", "get() and inner() vs the code own method; symbolic value") => factory_le::<_, {GOLOMB}, 4>;
    #[kani::stub(alloc::fmt::format, stub_format)]
    #[kani::stub(std::string::ToString::to_string, stub_to_string)]
    #[kani::stub(std::backtrace::Backtrace::capture, stub_backtrace_capture)]
    #[kani::stub(<anyhow::Error as core::ops::Drop>::drop, stub_anyhow_drop)]
    #[kani::unwind(12)]
    c10_factory_golomb5_be (thorough, "FactoryFuncCodeReader::new(Codes::Golomb param 5) over a reader factory, BE stream", "get() and inner() vs the code own method; symbolic value") => factory_be::<_, {GOLOMB}, 5>;
    #[kani::stub(alloc::fmt::format, stub_format)]
    #[kani::stub(std::string::ToString::to_string, stub_to_string)]
    #[kani::stub(std::backtrace::Backtrace::capture, stub_backtrace_capture)]
    #[kani::stub(<anyhow::Error as core::ops::Drop>::drop, stub_anyhow_drop)]
    #[kani::unwind(12)]
    c10_factory_golomb5_le (thorough, "FactoryFuncCodeReader::new(Codes::Golomb param 5) over a reader factory, LE stream", "get() and inner() vs the code own method; symbolic value") => factory_le::<_, {GOLOMB}, 5>;
    #[kani::stub(alloc::fmt::format, stub_format)]
    #[kani::stub(std::string::ToString::to_string, stub_to_string)]
    #[kani::stub(std::backtrace::Backtrace::capture, stub_backtrace_capture)]
    #[kani::stub(<anyhow::Error as core::ops::Drop>::drop, stub_anyhow_drop)]
    #[kani::unwind(12)]
    c10_factory_golomb6_be (thorough, "FactoryFuncCodeReader::new(Codes::Golomb param 6) over a reader factory, BE stream", "get() and inner() vs the code own method; symbolic value") => factory_be::<_, {GOLOMB}, 6>;
    #[kani::stub(alloc::fmt::format, stub_format)]
    #[kani::stub(std::string::ToString::to_string, stub_to_string)]
    #[kani::stub(std::backtrace::Backtrace::capture, stub_backtrace_capture)]
    #[kani::stub(<anyhow::Error as core::ops::Drop>::drop, stub_anyhow_drop)]
    #[kani::unwind(12)]
    c10_factory_golomb6_le (thorough, "FactoryFuncCodeReader::new(Codes::Golomb param 6) over a reader factory, LE stream", "get() and inner() vs the code own method; symbolic value") => factory_le::<_, {GOLOMB}, 6>;
    #[kani::stub(alloc::fmt::format, stub_format)]
    #[kani::stub(std::string::ToString::to_string, stub_to_string)]
    #[kani::stub(std::backtrace::Backtrace::capture, stub_backtrace_capture)]
    #[kani::stub(<anyhow::Error as core::ops::Drop>::drop, stub_anyhow_drop)]
    #[kani::unwind(12)]
    c10_factory_golomb7_be (thorough, "FactoryFuncCodeReader::new(Codes::Golomb param 7) over a reader factory, BE stream", "get() and inner() vs the code own method; symbolic value") => factory_be::<_, {GOLOMB}, 7>;
    #[kani::stub(alloc::fmt::format, stub_format)]
    #[kani::stub(std::string::ToString::to_string, stub_to_string)]
    #[kani::stub(std::backtrace::Backtrace::capture, stub_backtrace_capture)]
    #[kani::stub(<anyhow::Error as core::ops::Drop>::drop, stub_anyhow_drop)]
    #[kani::unwind(12)]
    c10_factory_golomb7_le (thorough, "FactoryFuncCodeReader::new(Codes::Golomb param 7) over a reader factory, LE stream", "get() and inner() vs the code own method; symbolic value") => factory_le::<_, {GOLOMB}, 7>;
    #[kani::stub(alloc::fmt::format, stub_format)]
    #[kani::stub(std::string::ToString::to_string, stub_to_string)]
    #[kani::stub(std::backtrace::Backtrace::capture, stub_backtrace_capture)]
    #[kani::stub(<anyhow::Error as core::ops::Drop>::drop, stub_anyhow_drop)]
    #[kani::unwind(12)]
    c10_factory_golomb8_be (quick, "FactoryFuncCodeReader::new(Codes::Golomb param 8) over a reader factory, BE stream", "get() and inner() vs the code own method; symbolic value") => factory_be::<_, {GOLOMB}, 8>;
    #[kani::stub(alloc::fmt::format, stub_format)]
    #[kani::stub(std::string::ToString::to_string, stub_to_string)]
    #[kani::stub(std::backtrace::Backtrace::capture, stub_backtrace_capture)]
    #[kani::stub(<anyhow::Error as core::ops::Drop>::drop, stub_anyhow_drop)]
    #[kani::unwind(12)]
    c10_factory_golomb8_le (thorough, "FactoryFuncCodeReader::new(Codes::Golomb param 8) over a reader factory, LE stream", "get() and inner() vs the code own method; symbolic value") => factory_le::<_, {GOLOMB}, 8>;
    #[kani::stub(alloc::fmt::format, stub_format)]
    #[kani::stub(std::string::ToString::to_string, stub_to_string)]
    #[kani::stub(std::backtrace::Backtrace::capture, stub_backtrace_capture)]
    #[kani::stub(<anyhow::Error as core::ops::Drop>::drop, stub_anyhow_drop)]
    #[kani::unwind(12)]
    c10_factory_golomb9_be (thorough, "FactoryFuncCodeReader::new(Codes::Golomb param 9) over a reader factory, BE stream", "get() and inner() vs the code own method; symbolic value") => factory_be::<_, {GOLOMB}, 9>;
    #[kani::stub(alloc::fmt::format, stub_format)]
    #[kani::stub(std::string::ToString::to_string, stub_to_string)]
    #[kani::stub(std::backtrace::Backtrace::capture, stub_backtrace_capture)]
    #[kani::stub(<anyhow::Error as core::ops::Drop>::drop, stub_anyhow_drop)]
    #[kani::unwind(12)]
    c10_factory_golomb9_le (thorough, "FactoryFuncCodeReader::new(Codes::Golomb param 9) over a reader factory, LE stream", "get() and inner() vs the code own method; symbolic value") => factory_le::<_, {GOLOMB}, 9>;
    #[kani::stub(alloc::fmt::format, stub_format)]
    #[kani::stub(std::string::ToString::to_string, stub_to_string)]
    #[kani::stub(std::backtrace::Backtrace::capture, stub_backtrace_capture)]
    #[kani::stub(<anyhow::Error as core::ops::Drop>::drop, stub_anyhow_drop)]
    #[kani::unwind(12)]
    c10_factory_golomb10_be (thorough, "FactoryFuncCodeReader::new(Codes::Golomb param 10) over a reader factory, BE stream", "get() and inner() vs the code own method; symbolic value") => factory_be::<_, {GOLOMB}, 10>;
    #[kani::stub(alloc::fmt::format, stub_format)]
    #[kani::stub(std::string::ToString::to_string, stub_to_string)]
    #[kani::stub(std::backtrace::Backtrace::capture, stub_backtrace_capture)]
    #[kani::stub(<anyhow::Error as core::ops::Drop>::drop, stub_anyhow_drop)]
    #[kani::unwind(12)]
    c10_factory_golomb10_le (thorough, "FactoryFuncCodeReader::new(Codes::Golomb param 10) over a reader factory, LE stream", "get() and inner() vs the code own method; symbolic value") => factory_le::<_, {GOLOMB}, 10>;
    #[kani::stub(alloc::fmt::format, stub_format)]
    #[kani::stub(std::string::ToString::to_string, stub_to_string)]
    #[kani::stub(std::backtrace::Backtrace::capture, stub_backtrace_capture)]
    #[kani::stub(<anyhow::Error as core::ops::Drop>::drop, stub_anyhow_drop)]
    #[kani::unwind(12)]
    c10_factory_exp_golomb0_be (quick, "FactoryFuncCodeReader::new(Codes::ExpGolomb param 0) over a reader factory, BE stream", "get() and inner() vs the code own method; symbolic value") => factory_be::<_, {EXP_GOLOMB}, 0>;
    #[kani::stub(alloc::fmt::format, stub_format)]
    #[kani::stub(std::string::ToString::to_string, stub_to_string)]
    #[kani::stub(std::backtrace::Backtrace::capture, stub_backtrace_capture)]
    #[kani::stub(<anyhow::Error as core::ops::Drop>::drop, stub_anyhow_drop)]
    #[kani::unwind(12)]
    c10_factory_exp_golomb0_le (thorough, "FactoryFuncCodeReader::new(Codes::ExpGolomb param 0) over a reader factory, LE stream", "get() and inner() vs the code own method; symbolic value") => factory_le::<_, {EXP_GOLOMB}, 0>;
    #[kani::stub(alloc::fmt::format, stub_format)]
    #[kani::stub(std::string::ToString::to_string, stub_to_string)]
    #[kani::stub(std::backtrace::Backtrace::capture, stub_backtrace_capture)]
    #[kani::stub(<anyhow::Error as core::ops::Drop>::drop, stub_anyhow_drop)]
    #[kani::unwind(12)]
    c10_factory_exp_golomb1_be (thorough, "FactoryFuncCodeReader::new(Codes::ExpGolomb param 1) over a reader factory, BE stream", "get() and inner() vs the code own method; symbolic value") => factory_be::<_, {EXP_GOLOMB}, 1>;
    #[kani::stub(alloc::fmt::format, stub_format)]
    #[kani::stub(std::string::ToString::to_string, stub_to_string)]
    #[kani::stub(std::backtrace::Backtrace::capture, stub_backtrace_capture)]
    #[kani::stub(<anyhow::Error as core::ops::Drop>::drop, stub_anyhow_drop)]
    #[kani::unwind(12)]
    c10_factory_exp_golomb1_le (thorough, "FactoryFuncCodeReader::new(Codes::ExpGolomb param 1) over a reader factory, LE stream", "get() and inner() vs the code own method; symbolic value") => factory_le::<_, {EXP_GOLOMB}, 1>;
    #[kani::stub(alloc::fmt::format, stub_format)]
    #[kani::stub(std::string::ToString::to_string, stub_to_string)]
    #[kani::stub(std::backtrace::Backtrace::capture, stub_backtrace_capture)]
    #[kani::stub(<anyhow::Error as core::ops::Drop>::drop, stub_anyhow_drop)]
    #[kani::unwind(12)]
    c10_factory_exp_golomb2_be (thorough, "FactoryFuncCodeReader::new(Codes::ExpGolomb param 2) over a reader factory, BE stream", "get() and inner() vs the code own method; symbolic value") => factory_be::<_, {EXP_GOLOMB}, 2>;
    #[kani::stub(alloc::fmt::format, stub_format)]
    #[kani::stub(std::string::ToString::to_string, stub_to_string)]
    #[kani::stub(std::backtrace::Backtrace::capture, stub_backtrace_capture)]
    #[kani::stub(<anyhow::Error as core::ops::Drop>::drop, stub_anyhow_drop)]
    #[kani::unwind(12)]
    c10_factory_exp_golomb2_le (thorough, "FactoryFuncCodeReader::new(Codes::ExpGolomb param 2) over a reader factory, LE stream", "get() and inner() vs the code own method; symbolic value") => factory_le::<_, {EXP_GOLOMB}, 2>;
    #[kani::stub(alloc::fmt::format, stub_format)]
    #[kani::stub(std::string::ToString::to_string, stub_to_string)]
    #[kani::stub(std::backtrace::Backtrace::capture, stub_backtrace_capture)]
    #[kani::stub(<anyhow::Error as core::ops::Drop>::drop, stub_anyhow_drop)]
    #[kani::unwind(12)]
    c10_factory_exp_golomb3_be (thorough, "FactoryFuncCodeReader::new(Codes::ExpGolomb param 3) over a reader factory, BE stream", "get() and inner() vs the code own method; symbolic value") => factory_be::<_, {EXP_GOLOMB}, 3>;
    #[kani::stub(alloc::fmt::format, stub_format)]
    #[kani::stub(std::string::ToString::to_string, stub_to_string)]
    #[kani::stub(std::backtrace::Backtrace::capture, stub_backtrace_capture)]
    #[kani::stub(<anyhow::Error as core::ops::Drop>::drop, stub_anyhow_drop)]
    #[kani::unwind(12)]
    c10_factory_exp_golomb3_le (thorough, "FactoryFuncCodeReader::new(Codes::ExpGolomb param 3) over a reader factory, LE stream", "get() and inner() vs the code own method; symbolic value") => factory_le::<_, {EXP_GOLOMB}, 3>;
    #[kani::stub(alloc::fmt::format, stub_format)]
    #[kani::stub(std::string::ToString::to_string, stub_to_string)]
    #[kani::stub(std::backtrace::Backtrace::capture, stub_backtrace_capture)]
    #[kani::stub(<anyhow::Error as core::ops::Drop>::drop, stub_anyhow_drop)]
    #[kani::unwind(12)]
    c10_factory_exp_golomb4_be (thorough, "FactoryFuncCodeReader::new(Codes::ExpGolomb param 4) over a reader factory, BE stream", "get() and inner() vs the code own method; symbolic value") => factory_be::<_, {EXP_GOLOMB}, 4>;
    #[kani::stub(alloc::fmt::format, stub_format)]
    #[kani::stub(std::string::ToString::to_string, stub_to_string)]
    #[kani::stub(std::backtrace::Backtrace::capture, stub_backtrace_capture)]
    #[kani::stub(<anyhow::Error as core::ops::Drop>::drop, stub_anyhow_drop)]
    #[kani::unwind(12)]
    c10_factory_exp_golomb4_le (thorough, "FactoryFuncCodeReader::new(Codes::ExpGolomb param 4) over a reader factory, LE stream", "get() and inner() vs the code own method; symbolic value") => factory_le::<_, {EXP_GOLOMB}, 4>;
    #[kani::stub(alloc::fmt::format, stub_format)]
    #[kani::stub(std::string::ToString::to_string, stub_to_string)]
    #[kani::stub(std::backtrace::Backtrace::capture, stub_backtrace_capture)]
    #[kani::stub(<anyhow::Error as core::ops::Drop>::drop, stub_anyhow_drop)]
    #[kani::unwind(12)]
    c10_factory_exp_golomb5_be (thorough, "FactoryFuncCodeReader::new(Codes::ExpGolomb param 5) over a reader factory, BE stream", "get() and inner() vs the code own method; symbolic value") => factory_be::<_, {EXP_GOLOMB}, 5>;
    #[kani::stub(alloc::fmt::format, stub_format)]
    #[kani::stub(std::string::ToString::to_string, stub_to_string)]
    #[kani::stub(std::backtrace::Backtrace::capture, stub_backtrace_capture)]
    #[kani::stub(<anyhow::Error as core::ops::Drop>::drop, stub_anyhow_drop)]
    #[kani::unwind(12)]
    c10_factory_exp_golomb5_le (thorough, "FactoryFuncCodeReader::new(Codes::ExpGolomb param 5) over a reader factory, LE stream", "get() and inner() vs the code own method; symbolic value") => factory_le::<_, {EXP_GOLOMB}, 5>;
    #[kani::stub(alloc::fmt::format, stub_format)]
    #[kani::stub(std::string::ToString::to_string, stub_to_string)]
    #[kani::stub(std::backtrace::Backtrace::capture, stub_backtrace_capture)]
    #[kani::stub(<anyhow::Error as core::ops::Drop>::drop, stub_anyhow_drop)]
    #[kani::unwind(12)]
    c10_factory_exp_golomb6_be (thorough, "FactoryFuncCodeReader::new(Codes::ExpGolomb param 6) over a reader factory, BE stream", "get() and inner() vs the code own method; symbolic value") => factory_be::<_, {EXP_GOLOMB}, 6>;
    #[kani::stub(alloc::fmt::format, stub_format)]
    #[kani::stub(std::string::ToString::to_string, stub_to_string)]
    #[kani::stub(std::backtrace::Backtrace::capture, stub_backtrace_capture)]
    #[kani::stub(<anyhow::Error as core::ops::Drop>::drop, stub_anyhow_drop)]
    #[kani::unwind(12)]
    c10_factory_exp_golomb6_le (thorough, "FactoryFuncCodeReader::new(Codes::ExpGolomb param 6) over a reader factory, LE stream", "get() and inner() vs the code own method; symbolic value") => factory_le::<_, {EXP_GOLOMB}, 6>;
    #[kani::stub(alloc::fmt::format, stub_format)]
    #[kani::stub(std::string::ToString::to_string, stub_to_string)]
    #[kani::stub(std::backtrace::Backtrace::capture, stub_backtrace_capture)]
    #[kani::stub(<anyhow::Error as core::ops::Drop>::drop, stub_anyhow_drop)]
    #[kani::unwind(12)]
    c10_factory_exp_golomb7_be (thorough, "FactoryFuncCodeReader::new(Codes::ExpGolomb param 7) over a reader factory, BE stream", "get() and inner() vs the code own method; symbolic value") => factory_be::<_, {EXP_GOLOMB}, 7>;
    #[kani::stub(alloc::fmt::format, stub_format)]
    #[kani::stub(std::string::ToString::to_string, stub_to_string)]
    #[kani::stub(std::backtrace::Backtrace::capture, stub_backtrace_capture)]
    #[kani::stub(<anyhow::Error as core::ops::Drop>::drop, stub_anyhow_drop)]
    #[kani::unwind(12)]
    c10_factory_exp_golomb7_le (thorough, "FactoryFuncCodeReader::new(Codes::ExpGolomb param 7) over a reader factory, LE stream", "get() and inner() vs the code own method; symbolic value") => factory_le::<_, {EXP_GOLOMB}, 7>;
    #[kani::stub(alloc::fmt::format, stub_format)]
    #[kani::stub(std::string::ToString::to_string, stub_to_string)]
    #[kani::stub(std::backtrace::Backtrace::capture, stub_backtrace_capture)]
    #[kani::stub(<anyhow::Error as core::ops::Drop>::drop, stub_anyhow_drop)]
    #[kani::unwind(12)]
    c10_factory_exp_golomb8_be (thorough, "FactoryFuncCodeReader::new(Codes::ExpGolomb param 8) over a reader factory, BE stream", "get() and inner() vs the code own method; symbolic value") => factory_be::<_, {EXP_GOLOMB}, 8>;
    #[kani::stub(alloc::fmt::format, stub_format)]
    #[kani::stub(std::string::ToString::to_string, stub_to_string)]
    #[kani::stub(std::backtrace::Backtrace::capture, stub_backtrace_capture)]
    #[kani::stub(<anyhow::Error as core::ops::Drop>::drop, stub_anyhow_drop)]
    #[kani::unwind(12)]
    c10_factory_exp_golomb8_le (thorough, "FactoryFuncCodeReader::new(Codes::ExpGolomb param 8) over a reader factory, LE stream", "get() and inner() vs the code own method; symbolic value") => factory_le::<_, {EXP_GOLOMB}, 8>;
    #[kani::stub(alloc::fmt::format, stub_format)]
    #[kani::stub(std::string::ToString::to_string, stub_to_string)]
    #[kani::stub(std::backtrace::Backtrace::capture, stub_backtrace_capture)]
    #[kani::stub(<anyhow::Error as core::ops::Drop>::drop, stub_anyhow_drop)]
    #[kani::unwind(12)]
    c10_factory_exp_golomb9_be (thorough, "FactoryFuncCodeReader::new(Codes::ExpGolomb param 9) over a reader factory, BE stream", "get() and inner() vs the code own method; symbolic value") => factory_be::<_, {EXP_GOLOMB}, 9>;
    #[kani::stub(alloc::fmt::format, stub_format)]
    #[kani::stub(std::string::ToString::to_string, stub_to_string)]
    #[kani::stub(std::backtrace::Backtrace::capture, stub_backtrace_capture)]
    #[kani::stub(<anyhow::Error as core::ops::Drop>::drop, stub_anyhow_drop)]
    #[kani::unwind(12)]
    c10_factory_exp_golomb9_le (thorough, "FactoryFuncCodeReader::new(Codes::ExpGolomb param 9) over a reader factory, LE stream", "get() and inner() vs the code own method; symbolic value") => factory_le::<_, {EXP_GOLOMB}, 9>;
    #[kani::stub(alloc::fmt::format, stub_format)]
    #[kani::stub(std::string::ToString::to_string, stub_to_string)]
    #[kani::stub(std::backtrace::Backtrace::capture, stub_backtrace_capture)]
    #[kani::stub(<anyhow::Error as core::ops::Drop>::drop, stub_anyhow_drop)]
    #[kani::unwind(12)]
    c10_factory_exp_golomb10_be (thorough, "FactoryFuncCodeReader::new(Codes::ExpGolomb param 10) over a reader factory, BE stream", "get() and inner() vs the code own method; symbolic value") => factory_be::<_, {EXP_GOLOMB}, 10>;
    #[kani::stub(alloc::fmt::format, stub_format)]
    #[kani::stub(std::string::ToString::to_string, stub_to_string)]
    #[kani::stub(std::backtrace::Backtrace::capture, stub_backtrace_capture)]
    #[kani::stub(<anyhow::Error as core::ops::Drop>::drop, stub_anyhow_drop)]
    #[kani::unwind(12)]
    c10_factory_exp_golomb10_le (thorough, "FactoryFuncCodeReader::new(Codes::ExpGolomb param 10) over a reader factory, LE stream", "get() and inner() vs the code own method; symbolic value") => factory_le::<_, {EXP_GOLOMB}, 10>;
    #[kani::stub(alloc::fmt::format, stub_format)]
    #[kani::stub(std::string::ToString::to_string, stub_to_string)]
    #[kani::stub(std::backtrace::Backtrace::capture, stub_backtrace_capture)]
    #[kani::stub(<anyhow::Error as core::ops::Drop>::drop, stub_anyhow_drop)]
    #[kani::unwind(12)]
    c10_factory_rice0_be (quick, "FactoryFuncCodeReader::new(Codes::Rice param 0) over a reader factory, BE stream", "get() and inner() vs the code own method; symbolic value") => factory_be::<_, {RICE}, 0>;
    #[kani::stub(alloc::fmt::format, stub_format)]
    #[kani::stub(std::string::ToString::to_string, stub_to_string)]
    #[kani::stub(std::backtrace::Backtrace::capture, stub_backtrace_capture)]
    #[kani::stub(<anyhow::Error as core::ops::Drop>::drop, stub_anyhow_drop)]
    #[kani::unwind(12)]
    c10_factory_rice0_le (thorough, "FactoryFuncCodeReader::new(Codes::Rice param 0) over a reader factory, LE stream", "get() and inner() vs the code own method; symbolic value") => factory_le::<_, {RICE}, 0>;
    #[kani::stub(alloc::fmt::format, stub_format)]
    #[kani::stub(std::string::ToString::to_string, stub_to_string)]
    #[kani::stub(std::backtrace::Backtrace::capture, stub_backtrace_capture)]
    #[kani::stub(<anyhow::Error as core::ops::Drop>::drop, stub_anyhow_drop)]
    #[kani::unwind(12)]
    c10_factory_rice1_be (thorough, "FactoryFuncCodeReader::new(Codes::Rice param 1) over a reader factory, BE stream", "get() and inner() vs the code own method; symbolic value") => factory_be::<_, {RICE}, 1>;
    #[kani::stub(alloc::fmt::format, stub_format)]
    #[kani::stub(std::string::ToString::to_string, stub_to_string)]
    #[kani::stub(std::backtrace::Backtrace::capture, stub_backtrace_capture)]
    #[kani::stub(<anyhow::Error as core::ops::Drop>::drop, stub_anyhow_drop)]
    #[kani::unwind(12)]
    c10_factory_rice1_le (thorough, "FactoryFuncCodeReader::new(Codes::Rice param 1) over a reader factory, LE stream", "get() and inner() vs the code own method; symbolic value") => factory_le::<_, {RICE}, 1>;
    #[kani::stub(alloc::fmt::format, stub_format)]
    #[kani::stub(std::string::ToString::to_string, stub_to_string)]
    #[kani::stub(std::backtrace::Backtrace::capture, stub_backtrace_capture)]
    #[kani::stub(<anyhow::Error as core::ops::Drop>::drop, stub_anyhow_drop)]
    #[kani::unwind(12)]
    c10_factory_rice2_be (thorough, "FactoryFuncCodeReader::new(Codes::Rice param 2) over a reader factory, BE stream", "get() and inner() vs the code own method; symbolic value") => factory_be::<_, {RICE}, 2>;
    #[kani::stub(alloc::fmt::format, stub_format)]
    #[kani::stub(std::string::ToString::to_string, stub_to_string)]
    #[kani::stub(std::backtrace::Backtrace::capture, stub_backtrace_capture)]
    #[kani::stub(<anyhow::Error as core::ops::Drop>::drop, stub_anyhow_drop)]
    #[kani::unwind(12)]
    c10_factory_rice2_le (thorough, "FactoryFuncCodeReader::new(Codes::Rice param 2) over a reader factory, LE stream", "get() and inner() vs the code own method; symbolic value") => factory_le::<_, {RICE}, 2>;
    #[kani::stub(alloc::fmt::format, stub_format)]
    #[kani::stub(std::string::ToString::to_string, stub_to_string)]
    #[kani::stub(std::backtrace::Backtrace::capture, stub_backtrace_capture)]
    #[kani::stub(<anyhow::Error as core::ops::Drop>::drop, stub_anyhow_drop)]
    #[kani::unwind(12)]
    c10_factory_rice3_be (thorough, "FactoryFuncCodeReader::new(Codes::Rice param 3) over a reader factory, BE stream", "get() and inner() vs the code own method; symbolic value") => factory_be::<_, {RICE}, 3>;
    #[kani::stub(alloc::fmt::format, stub_format)]
    #[kani::stub(std::string::ToString::to_string, stub_to_string)]
    #[kani::stub(std::backtrace::Backtrace::capture, stub_backtrace_capture)]
    #[kani::stub(<anyhow::Error as core::ops::Drop>::drop, stub_anyhow_drop)]
    #[kani::unwind(12)]
    c10_factory_rice3_le (thorough, "FactoryFuncCodeReader::new(Codes::Rice param 3) over a reader factory, LE stream", "get() and inner() vs the code own method; symbolic value") => factory_le::<_, {RICE}, 3>;
    #[kani::stub(alloc::fmt::format, stub_format)]
    #[kani::stub(std::string::ToString::to_string, stub_to_string)]
    #[kani::stub(std::backtrace::Backtrace::capture, stub_backtrace_capture)]
    #[kani::stub(<anyhow::Error as core::ops::Drop>::drop, stub_anyhow_drop)]
    #[kani::unwind(12)]
    c10_factory_rice4_be (thorough, "FactoryFuncCodeReader::new(Codes::Rice param 4) over a reader factory, BE stream", "get() and inner() vs the code own method; symbolic value") => factory_be::<_, {RICE}, 4>;
    #[kani::stub(alloc::fmt::format, stub_format)]
    #[kani::stub(std::string::ToString::to_string, stub_to_string)]
    #[kani::stub(std::backtrace::Backtrace::capture, stub_backtrace_capture)]
    #[kani::stub(<anyhow::Error as core::ops::Drop>::drop, stub_anyhow_drop)]
    #[kani::unwind(12)]
    c10_factory_rice4_le (thorough, "FactoryFuncCodeReader::new(Codes::Rice param 4) over a reader factory, LE stream", "get() and inner() vs the code own method; symbolic value") => factory_le::<_, {RICE}, 4>;
    #[kani::stub(alloc::fmt::format, stub_format)]
    #[kani::stub(std::string::ToString::to_string, stub_to_string)]
    #[kani::stub(std::backtrace::Backtrace::capture, stub_backtrace_capture)]
    #[kani::stub(<anyhow::Error as core::ops::Drop>::drop, stub_anyhow_drop)]
    #[kani::unwind(12)]
    c10_factory_rice5_be (thorough, "FactoryFuncCodeReader::new(Codes::Rice param 5) over a reader factory, BE stream", "get() and inner() vs the code own method; symbolic value") => factory_be::<_, {RICE}, 5>;
    #[kani::stub(alloc::fmt::format, stub_format)]
    #[kani::stub(std::string::ToString::to_string, stub_to_string)]
    #[kani::stub(std::backtrace::Backtrace::capture, stub_backtrace_capture)]
    #[kani::stub(<anyhow::Error as core::ops::Drop>::drop, stub_anyhow_drop)]
    #[kani::unwind(12)]
    c10_factory_rice5_le (thorough, "FactoryFuncCodeReader::new(Codes::Rice param 5) over a reader factory, LE stream", "get() and inner() vs the code own method; symbolic value") => factory_le::<_, {RICE}, 5>;
    #[kani::stub(alloc::fmt::format, stub_format)]
    #[kani::stub(std::string::ToString::to_string, stub_to_string)]
    #[kani::stub(std::backtrace::Backtrace::capture, stub_backtrace_capture)]
    #[kani::stub(<anyhow::Error as core::ops::Drop>::drop, stub_anyhow_drop)]
    #[kani::unwind(12)]
    c10_factory_rice6_be (thorough, "FactoryFuncCodeReader::new(Codes::Rice param 6) over a reader factory, BE stream", "get() and inner() vs the code own method; symbolic value") => factory_be::<_, {RICE}, 6>;
    #[kani::stub(alloc::fmt::format, stub_format)]
    #[kani::stub(std::string::ToString::to_string, stub_to_string)]
    #[kani::stub(std::backtrace::Backtrace::capture, stub_backtrace_capture)]
    #[kani::stub(<anyhow::Error as core::ops::Drop>::drop, stub_anyhow_drop)]
    #[kani::unwind(12)]
    c10_factory_rice6_le (thorough, "FactoryFuncCodeReader::new(Codes::Rice param 6) over a reader factory, LE stream", "get() and inner() vs the code own method; symbolic value") => factory_le::<_, {RICE}, 6>;
    #[kani::stub(alloc::fmt::format, stub_format)]
    #[kani::stub(std::string::ToString::to_string, stub_to_string)]
    #[kani::stub(std::backtrace::Backtrace::capture, stub_backtrace_capture)]
    #[kani::stub(<anyhow::Error as core::ops::Drop>::drop, stub_anyhow_drop)]
    #[kani::unwind(12)]
    c10_factory_rice7_be (thorough, "FactoryFuncCodeReader::new(Codes::Rice param 7) over a reader factory, BE stream", "get() and inner() vs the code own method; symbolic value") => factory_be::<_, {RICE}, 7>;
    #[kani::stub(alloc::fmt::format, stub_format)]
    #[kani::stub(std::string::ToString::to_string, stub_to_string)]
    #[kani::stub(std::backtrace::Backtrace::capture, stub_backtrace_capture)]
    #[kani::stub(<anyhow::Error as core::ops::Drop>::drop, stub_anyhow_drop)]
    #[kani::unwind(12)]
    c10_factory_rice7_le (thorough, "FactoryFuncCodeReader::new(Codes::Rice param 7) over a reader factory, LE stream", "get() and inner() vs the code own method; symbolic value") => factory_le::<_, {RICE}, 7>;
    #[kani::stub(alloc::fmt::format, stub_format)]
    #[kani::stub(std::string::ToString::to_string, stub_to_string)]
    #[kani::stub(std::backtrace::Backtrace::capture, stub_backtrace_capture)]
    #[kani::stub(<anyhow::Error as core::ops::Drop>::drop, stub_anyhow_drop)]
    #[kani::unwind(12)]
    c10_factory_rice8_be (thorough, "FactoryFuncCodeReader::new(Codes::Rice param 8) over a reader factory, BE stream", "get() and inner() vs the code own method; symbolic value") => factory_be::<_, {RICE}, 8>;
    #[kani::stub(alloc::fmt::format, stub_format)]
    #[kani::stub(std::string::ToString::to_string, stub_to_string)]
    #[kani::stub(std::backtrace::Backtrace::capture, stub_backtrace_capture)]
    #[kani::stub(<anyhow::Error as core::ops::Drop>::drop, stub_anyhow_drop)]
    #[kani::unwind(12)]
    c10_factory_rice8_le (thorough, "FactoryFuncCodeReader::new(Codes::Rice param 8) over a reader factory, LE stream", "get() and inner() vs the code own method; symbolic value") => factory_le::<_, {RICE}, 8>;
    #[kani::stub(alloc::fmt::format, stub_format)]
    #[kani::stub(std::string::ToString::to_string, stub_to_string)]
    #[kani::stub(std::backtrace::Backtrace::capture, stub_backtrace_capture)]
    #[kani::stub(<anyhow::Error as core::ops::Drop>::drop, stub_anyhow_drop)]
    #[kani::unwind(12)]
    c10_factory_rice9_be (thorough, "FactoryFuncCodeReader::new(Codes::Rice param 9) over a reader factory, BE stream", "get() and inner() vs the code own method; symbolic value") => factory_be::<_, {RICE}, 9>;
    #[kani::stub(alloc::fmt::format, stub_format)]
    #[kani::stub(std::string::ToString::to_string, stub_to_string)]
    #[kani::stub(std::backtrace::Backtrace::capture, stub_backtrace_capture)]
    #[kani::stub(<anyhow::Error as core::ops::Drop>::drop, stub_anyhow_drop)]
    #[kani::unwind(12)]
    c10_factory_rice9_le (thorough, "FactoryFuncCodeReader::new(Codes::Rice param 9) over a reader factory, LE stream", "get() and inner() vs the code own method; symbolic value") => factory_le::<_, {RICE}, 9>;
    #[kani::stub(alloc::fmt::format, stub_format)]
    #[kani::stub(std::string::ToString::to_string, stub_to_string)]
    #[kani::stub(std::backtrace::Backtrace::capture, stub_backtrace_capture)]
    #[kani::stub(<anyhow::Error as core::ops::Drop>::drop, stub_anyhow_drop)]
    #[kani::unwind(12)]
    c10_factory_rice10_be (thorough, "FactoryFuncCodeReader::new(Codes::Rice param 10) over a reader factory, BE stream", "get() and inner() vs the code own method; symbolic value") => factory_be::<_, {RICE}, 10>;
    #[kani::stub(alloc::fmt::format, stub_format)]
    #[kani::stub(std::string::ToString::to_string, stub_to_string)]
    #[kani::stub(std::backtrace::Backtrace::capture, stub_backtrace_capture)]
    #[kani::stub(<anyhow::Error as core::ops::Drop>::drop, stub_anyhow_drop)]
    #[kani::unwind(12)]
    c10_factory_rice10_le (thorough, "FactoryFuncCodeReader::new(Codes::Rice param 10) over a reader factory, LE stream", "get() and inner() vs the code own method; symbolic value") => factory_le::<_, {RICE}, 10>;
}
