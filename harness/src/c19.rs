//! C19 — build options change no result; argument checking fires only on dirty arguments.
//! The C01/C03/C08/C12 harnesses are re-run against the library built with `checks`,
//! `no_copy_impls` and both (same oracle => same results in every build; every write issued
//! by the library itself must pass the check). Here: with `checks`, a fixed-width write
//! whose argument has a bit set at or above the width ALWAYS panics.

use crate::c01::{any_writer_state, RN};
use crate::model::*;
use crate::src::Src;
use core::convert::Infallible;
use dsi_bitstream::prelude::*;

pub fn dirty_write_panics<E: En, W: VW, S: Src>(s: &mut S)
where
    BufBitWriter<E, Rec<W, RN>>: BitWrite<E, Error = Infallible>,
{
    let p = any_writer_state::<W, S>(s);
    let v = s.u64();
    let n = s.usize_in(0, 63);
    s.assume(v >> n != 0);
    let mut w = BufBitWriter::<E, Rec<W, RN>>::verif_from_parts(p.rec, p.buffer, p.space);
    crate::cover!(s, true, "before the dirty write");
    let _ = w.write_bits(v, n);
    // reachable only if some dirty call did not panic
    crate::cover!(s, true, "after the dirty write");
    core::mem::forget(w);
}

crate::harnesses! {
    #[cfg(feature = "checks")]
    #[kani::should_panic]
    #[kani::unwind(10)]
    c19_dirty_be_u8 (quick, "BE,u8, feature checks", "any writer state, n<=63, any v with a bit at or above n") => dirty_write_panics::<BE, u8, _>;
    #[cfg(feature = "checks")]
    #[kani::should_panic]
    #[kani::unwind(4)]
    c19_dirty_be_u64 (quick, "BE,u64, feature checks", "any writer state, n<=63, any v with a bit at or above n") => dirty_write_panics::<BE, u64, _>;
    #[cfg(feature = "checks")]
    #[kani::should_panic]
    #[kani::unwind(6)]
    c19_dirty_le_u16 (quick, "LE,u16, feature checks", "any writer state, n<=63, any v with a bit at or above n") => dirty_write_panics::<LE, u16, _>;
    #[cfg(feature = "checks")]
    #[kani::should_panic]
    #[kani::unwind(4)]
    c19_dirty_le_u128 (quick, "LE,u128, feature checks", "any writer state, n<=63, any v with a bit at or above n") => dirty_write_panics::<LE, u128, _>;
    #[cfg(feature = "checks")]
    #[kani::should_panic]
    #[kani::unwind(4)]
    c19_dirty_be_u32 (thorough, "BE,u32, feature checks", "any writer state, n<=63, any v with a bit at or above n") => dirty_write_panics::<BE, u32, _>;
    #[cfg(feature = "checks")]
    #[kani::should_panic]
    #[kani::unwind(4)]
    c19_dirty_le_u64 (thorough, "LE,u64, feature checks", "any writer state, n<=63, any v with a bit at or above n") => dirty_write_panics::<LE, u64, _>;
}
