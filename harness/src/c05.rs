//! C05 — table-driven coding is observationally identical to bit-by-bit coding.
//!
//! Decoding: from an arbitrary `Inv_r` state of a REAL reader (refill and
//! skip_bits_after_peek are the risk), over a symbolic stream (so every look-ahead pattern of
//! every table at every buffer fill), the table variant on the reader and the plain variant on
//! its clone must return the same value and leave the same position and a valid state.
//! Encoding / length tables: C03 harnesses `*_tab_*` compare both variants with the same
//! definition for every value; here the parameterless defaults of the real readers/writers.

use crate::c01::{any_writer_state, RN};
use crate::c02::*;
use crate::c13::*;
use crate::model::*;
use crate::src::Src;
use common_traits::DoubleType;
use core::convert::Infallible;
use dsi_bitstream::prelude::*;

pub const T_GAMMA: u8 = 0;
pub const T_DELTA_TT: u8 = 1;
pub const T_DELTA_TF: u8 = 2;
pub const T_DELTA_FT: u8 = 3;
pub const T_ZETA3: u8 = 4;

macro_rules! table_read {
    ($r:expr, $code:expr) => {
        match $code {
            T_GAMMA => $r.read_gamma_param::<true>().unwrap(),
            T_DELTA_TT => $r.read_delta_param::<true, true>().unwrap(),
            T_DELTA_TF => $r.read_delta_param::<true, false>().unwrap(),
            T_DELTA_FT => $r.read_delta_param::<false, true>().unwrap(),
            _ => $r.read_zeta3_param::<true>().unwrap(),
        }
    };
}
macro_rules! plain_read {
    ($r:expr, $code:expr) => {
        match $code {
            T_GAMMA => $r.read_gamma_param::<false>().unwrap(),
            T_DELTA_TT | T_DELTA_TF | T_DELTA_FT => $r.read_delta_param::<false, false>().unwrap(),
            _ => $r.read_zeta_param(3).unwrap(),
        }
    };
}

/// how far the first one bit may be: keeps the plain decoder inside its documented domain
/// (gamma: any prefix <= 19; delta: gamma prefix <= 5 so that lambda <= 62; zeta3: h <= 10)
const fn zmax(code: u8) -> usize {
    match code {
        T_GAMMA => 19,
        T_ZETA3 => 10,
        _ => 5,
    }
}

macro_rules! c05_bodies {
    ($e:ty, $buf:ident, $ub:ident, $defaults_r:ident, $defaults_w:ident, $u8scope:ident) => {
        pub fn $buf<W: VW + DoubleType, S: Src, const K: usize, const CODE: u8>(s: &mut S)
        where
            Bb<W>: VW,
            Rd<$e, W, K>: RdOk<$e, W, K>,
        {
            let st = RState::<W, K>::any::<$e, S>(s, 2 * W::NBITS - 1);
            let z = s.usize_in(0, zmax(CODE));
            let t = s.usize();
            s.assume(st.stream_bit::<$e>(z));
            let mut a = st.reader::<$e>();
            let mut b = a.clone();
            let vb = plain_read!(b, CODE);
            let va = table_read!(a, CODE);
            assert_eq!(va, vb, "table-driven read returns a different value than the bit-by-bit read");
            let pa = a.bit_pos().unwrap();
            let pb = b.bit_pos().unwrap();
            assert_eq!(pa, pb, "table-driven read leaves a different stream position");
            let adv = (pb - st.bit_pos()) as usize;
            st.check_post::<$e>(&mut a, adv, t);
            st.check_post::<$e>(&mut b, adv, t);
            crate::cover!(s, adv <= 9, "codeword inside the table");
            crate::cover!(s, adv > 12, "codeword longer than the table index");
            crate::cover!(s, st.n < 9, "look-ahead must refill");
        }
        /// BufBitReader over u8 words: only if its construction does not emit the diagnostic for this table
        pub fn $u8scope<S: Src, const CODE: u8>(s: &mut S)
        where
            Rd<$e, u8, 12>: RdOk<$e, u8, 12>,
        {
            let in_scope = match CODE {
                T_GAMMA => crate::gen_scope::U8_GAMMA_IN_SCOPE,
                T_ZETA3 => crate::gen_scope::U8_ZETA3_IN_SCOPE,
                _ => crate::gen_scope::U8_DELTA_IN_SCOPE,
            };
            if !in_scope {
                // exempt by the property (diagnostic emitted at construction)
                crate::cover!(s, true, "reader exempt: diagnostic emitted");
                return;
            }
            $buf::<u8, S, 12, CODE>(s);
        }
        pub fn $ub<S: Src, const K: usize, const CODE: u8>(s: &mut S)
        where
            Ub<$e, K>: UbOk<$e> + Clone,
        {
            let st = UState::<K>::any(s);
            let z = s.usize_in(0, zmax(CODE));
            s.assume(st.stream_bit::<$e>(z));
            let mut a = st.reader::<$e>();
            let mut b = a.clone();
            let vb = plain_read!(b, CODE);
            let va = table_read!(a, CODE);
            assert_eq!(va, vb, "table-driven read returns a different value than the bit-by-bit read");
            assert_eq!(a.bit_pos().unwrap(), b.bit_pos().unwrap(), "table-driven read leaves a different stream position");
            crate::cover!(s, b.bit_pos().unwrap() - st.p > 12, "codeword longer than the table index");
            crate::cover!(s, st.p % 64 > 55, "look-ahead crosses a word boundary");
        }
        /// parameterless defaults of the real reader agree with the parameterised variants
        pub fn $defaults_r<W: VW + DoubleType, S: Src, const K: usize>(s: &mut S)
        where
            Bb<W>: VW,
            Rd<$e, W, K>: RdOk<$e, W, K> + GammaRead<$e> + DeltaRead<$e> + ZetaRead<$e>,
        {
            let st = RState::<W, K>::any::<$e, S>(s, 2 * W::NBITS - 1);
            let which = s.u8();
            s.assume(which < 3);
            let z = s.usize_in(0, 5);
            s.assume(st.stream_bit::<$e>(z));
            let mut a = st.reader::<$e>();
            let mut b = a.clone();
            let (va, vb) = match which {
                0 => (a.read_gamma().unwrap(), b.read_gamma_param::<false>().unwrap()),
                1 => (a.read_delta().unwrap(), b.read_delta_param::<false, false>().unwrap()),
                _ => (a.read_zeta3().unwrap(), b.read_zeta_param(3).unwrap()),
            };
            assert_eq!(va, vb, "parameterless read differs from the bit-by-bit read");
            assert_eq!(a.bit_pos().unwrap(), b.bit_pos().unwrap(), "parameterless read leaves a different position");
            crate::cover!(s, which == 2, "zeta3");
        }
        /// parameterless defaults of the real writer agree with the table-less variants
        pub fn $defaults_w<S: Src, const WHICH: u8>(s: &mut S) {
            let p = any_writer_state::<u64, S>(s);
            let which = WHICH;
            let v = s.u64_in(0, u64::MAX - 1);
            let mut a = BufBitWriter::<$e, Rec<u64, RN>>::verif_from_parts(p.rec.clone(), p.buffer, p.space);
            let mut b = BufBitWriter::<$e, Rec<u64, RN>>::verif_from_parts(p.rec, p.buffer, p.space);
            let (ra, rb) = match which {
                0 => (a.write_gamma(v).unwrap(), b.write_gamma_param::<false>(v).unwrap()),
                1 => (a.write_delta(v).unwrap(), b.write_delta_param::<false, false>(v).unwrap()),
                2 => (a.write_zeta3(v).unwrap(), b.write_zeta_param::<false>(v, 3).unwrap()),
                _ => (a.write_zeta(v, 3).unwrap(), b.write_zeta3_param::<false>(v).unwrap()),
            };
            assert_eq!(ra, rb, "parameterless write returns a different length");
            let (ba, sa) = a.verif_parts();
            let (bb, sb) = b.verif_parts();
            assert_eq!(sa, sb, "parameterless write leaves a different fill level");
            // pending bits (the defined part of the buffer) and delivered words must agree
            let f = 64 - sa;
            let ma = if f == 0 { 0 } else if <$e as En>::BE { ba & (u64::MAX >> (64 - f)) } else { ba >> (64 - f) };
            let mb = if f == 0 { 0 } else if <$e as En>::BE { bb & (u64::MAX >> (64 - f)) } else { bb >> (64 - f) };
            assert_eq!(ma, mb, "parameterless write leaves different pending bits");
            let (wa, wb) = (a.verif_backend(), b.verif_backend());
            assert_eq!(wa.n, wb.n, "parameterless write delivers a different number of words");
            assert!(wa.words[p.n0] == wb.words[p.n0] || wa.n <= p.n0, "parameterless write delivers different words");
            assert!(wa.words[p.n0 + 1] == wb.words[p.n0 + 1] || wa.n <= p.n0 + 1, "parameterless write delivers different words");
            crate::cover!(s, v < 64, "value inside the encoding tables");
            crate::cover!(s, v > 5000, "value beyond the encoding tables");
            core::mem::forget(a);
            core::mem::forget(b);
        }
    };
}
c05_bodies!(BE, table_decode_be, ub_table_decode_be, defaults_r_be, defaults_w_be, u8_scope_be);
c05_bodies!(LE, table_decode_le, ub_table_decode_le, defaults_r_le, defaults_w_le, u8_scope_le);

crate::harnesses! {
    #[kani::unwind(10)]
    c05_dec_gamma_u16_be (quick, "BufBitReader<BE, MemWordReader<u16>>, K=8", "any Inv_r state, symbolic stream (every look-ahead pattern), first one within the plain decoder domain; table variant vs bit-by-bit variant") => table_decode_be::<u16, _, 8, {T_GAMMA}>;
    #[kani::unwind(10)]
    c05_dec_gamma_u16_le (thorough, "BufBitReader<LE, MemWordReader<u16>>, K=8", "any Inv_r state, symbolic stream (every look-ahead pattern), first one within the plain decoder domain; table variant vs bit-by-bit variant") => table_decode_le::<u16, _, 8, {T_GAMMA}>;
    #[kani::unwind(7)]
    c05_dec_gamma_u32_be (quick, "BufBitReader<BE, MemWordReader<u32>>, K=5", "any Inv_r state, symbolic stream (every look-ahead pattern), first one within the plain decoder domain; table variant vs bit-by-bit variant") => table_decode_be::<u32, _, 5, {T_GAMMA}>;
    #[kani::unwind(7)]
    c05_dec_gamma_u32_le (quick, "BufBitReader<LE, MemWordReader<u32>>, K=5", "any Inv_r state, symbolic stream (every look-ahead pattern), first one within the plain decoder domain; table variant vs bit-by-bit variant") => table_decode_le::<u32, _, 5, {T_GAMMA}>;
    #[kani::unwind(6)]
    c05_dec_gamma_u64_be (thorough, "BufBitReader<BE, MemWordReader<u64>>, K=4", "any Inv_r state, symbolic stream (every look-ahead pattern), first one within the plain decoder domain; table variant vs bit-by-bit variant") => table_decode_be::<u64, _, 4, {T_GAMMA}>;
    #[kani::unwind(6)]
    c05_dec_gamma_u64_le (quick, "BufBitReader<LE, MemWordReader<u64>>, K=4", "any Inv_r state, symbolic stream (every look-ahead pattern), first one within the plain decoder domain; table variant vs bit-by-bit variant") => table_decode_le::<u64, _, 4, {T_GAMMA}>;
    #[kani::unwind(6)]
    c05_dec_gamma_ub_be (quick, "BitReader<BE> (unbuffered), K=4", "any bit position, symbolic stream; table variant vs bit-by-bit variant") => ub_table_decode_be::<_, 4, {T_GAMMA}>;
    #[kani::unwind(6)]
    c05_dec_gamma_ub_le (quick, "BitReader<LE> (unbuffered), K=4", "any bit position, symbolic stream; table variant vs bit-by-bit variant") => ub_table_decode_le::<_, 4, {T_GAMMA}>;
    #[kani::unwind(10)]
    c05_dec_delta_tt_u16_be (thorough, "BufBitReader<BE, MemWordReader<u16>>, K=8", "any Inv_r state, symbolic stream (every look-ahead pattern), first one within the plain decoder domain; table variant vs bit-by-bit variant") => table_decode_be::<u16, _, 8, {T_DELTA_TT}>;
    #[kani::unwind(10)]
    c05_dec_delta_tt_u16_le (thorough, "BufBitReader<LE, MemWordReader<u16>>, K=8", "any Inv_r state, symbolic stream (every look-ahead pattern), first one within the plain decoder domain; table variant vs bit-by-bit variant") => table_decode_le::<u16, _, 8, {T_DELTA_TT}>;
    #[kani::unwind(7)]
    c05_dec_delta_tt_u32_be (quick, "BufBitReader<BE, MemWordReader<u32>>, K=5", "any Inv_r state, symbolic stream (every look-ahead pattern), first one within the plain decoder domain; table variant vs bit-by-bit variant") => table_decode_be::<u32, _, 5, {T_DELTA_TT}>;
    #[kani::unwind(7)]
    c05_dec_delta_tt_u32_le (quick, "BufBitReader<LE, MemWordReader<u32>>, K=5", "any Inv_r state, symbolic stream (every look-ahead pattern), first one within the plain decoder domain; table variant vs bit-by-bit variant") => table_decode_le::<u32, _, 5, {T_DELTA_TT}>;
    #[kani::unwind(6)]
    c05_dec_delta_tt_u64_be (thorough, "BufBitReader<BE, MemWordReader<u64>>, K=4", "any Inv_r state, symbolic stream (every look-ahead pattern), first one within the plain decoder domain; table variant vs bit-by-bit variant") => table_decode_be::<u64, _, 4, {T_DELTA_TT}>;
    #[kani::unwind(6)]
    c05_dec_delta_tt_u64_le (thorough, "BufBitReader<LE, MemWordReader<u64>>, K=4", "any Inv_r state, symbolic stream (every look-ahead pattern), first one within the plain decoder domain; table variant vs bit-by-bit variant") => table_decode_le::<u64, _, 4, {T_DELTA_TT}>;
    #[kani::unwind(6)]
    c05_dec_delta_tt_ub_be (thorough, "BitReader<BE> (unbuffered), K=4", "any bit position, symbolic stream; table variant vs bit-by-bit variant") => ub_table_decode_be::<_, 4, {T_DELTA_TT}>;
    #[kani::unwind(6)]
    c05_dec_delta_tt_ub_le (quick, "BitReader<LE> (unbuffered), K=4", "any bit position, symbolic stream; table variant vs bit-by-bit variant") => ub_table_decode_le::<_, 4, {T_DELTA_TT}>;
    #[kani::unwind(10)]
    c05_dec_delta_tf_u16_be (thorough, "BufBitReader<BE, MemWordReader<u16>>, K=8", "any Inv_r state, symbolic stream (every look-ahead pattern), first one within the plain decoder domain; table variant vs bit-by-bit variant") => table_decode_be::<u16, _, 8, {T_DELTA_TF}>;
    #[kani::unwind(10)]
    c05_dec_delta_tf_u16_le (thorough, "BufBitReader<LE, MemWordReader<u16>>, K=8", "any Inv_r state, symbolic stream (every look-ahead pattern), first one within the plain decoder domain; table variant vs bit-by-bit variant") => table_decode_le::<u16, _, 8, {T_DELTA_TF}>;
    #[kani::unwind(7)]
    c05_dec_delta_tf_u32_be (thorough, "BufBitReader<BE, MemWordReader<u32>>, K=5", "any Inv_r state, symbolic stream (every look-ahead pattern), first one within the plain decoder domain; table variant vs bit-by-bit variant") => table_decode_be::<u32, _, 5, {T_DELTA_TF}>;
    #[kani::unwind(7)]
    c05_dec_delta_tf_u32_le (quick, "BufBitReader<LE, MemWordReader<u32>>, K=5", "any Inv_r state, symbolic stream (every look-ahead pattern), first one within the plain decoder domain; table variant vs bit-by-bit variant") => table_decode_le::<u32, _, 5, {T_DELTA_TF}>;
    #[kani::unwind(6)]
    c05_dec_delta_tf_u64_be (thorough, "BufBitReader<BE, MemWordReader<u64>>, K=4", "any Inv_r state, symbolic stream (every look-ahead pattern), first one within the plain decoder domain; table variant vs bit-by-bit variant") => table_decode_be::<u64, _, 4, {T_DELTA_TF}>;
    #[kani::unwind(6)]
    c05_dec_delta_tf_u64_le (thorough, "BufBitReader<LE, MemWordReader<u64>>, K=4", "any Inv_r state, symbolic stream (every look-ahead pattern), first one within the plain decoder domain; table variant vs bit-by-bit variant") => table_decode_le::<u64, _, 4, {T_DELTA_TF}>;
    #[kani::unwind(6)]
    c05_dec_delta_tf_ub_be (thorough, "BitReader<BE> (unbuffered), K=4", "any bit position, symbolic stream; table variant vs bit-by-bit variant") => ub_table_decode_be::<_, 4, {T_DELTA_TF}>;
    #[kani::unwind(6)]
    c05_dec_delta_tf_ub_le (thorough, "BitReader<LE> (unbuffered), K=4", "any bit position, symbolic stream; table variant vs bit-by-bit variant") => ub_table_decode_le::<_, 4, {T_DELTA_TF}>;
    #[kani::unwind(10)]
    c05_dec_delta_ft_u16_be (thorough, "BufBitReader<BE, MemWordReader<u16>>, K=8", "any Inv_r state, symbolic stream (every look-ahead pattern), first one within the plain decoder domain; table variant vs bit-by-bit variant") => table_decode_be::<u16, _, 8, {T_DELTA_FT}>;
    #[kani::unwind(10)]
    c05_dec_delta_ft_u16_le (thorough, "BufBitReader<LE, MemWordReader<u16>>, K=8", "any Inv_r state, symbolic stream (every look-ahead pattern), first one within the plain decoder domain; table variant vs bit-by-bit variant") => table_decode_le::<u16, _, 8, {T_DELTA_FT}>;
    #[kani::unwind(7)]
    c05_dec_delta_ft_u32_be (quick, "BufBitReader<BE, MemWordReader<u32>>, K=5", "any Inv_r state, symbolic stream (every look-ahead pattern), first one within the plain decoder domain; table variant vs bit-by-bit variant") => table_decode_be::<u32, _, 5, {T_DELTA_FT}>;
    #[kani::unwind(7)]
    c05_dec_delta_ft_u32_le (thorough, "BufBitReader<LE, MemWordReader<u32>>, K=5", "any Inv_r state, symbolic stream (every look-ahead pattern), first one within the plain decoder domain; table variant vs bit-by-bit variant") => table_decode_le::<u32, _, 5, {T_DELTA_FT}>;
    #[kani::unwind(6)]
    c05_dec_delta_ft_u64_be (thorough, "BufBitReader<BE, MemWordReader<u64>>, K=4", "any Inv_r state, symbolic stream (every look-ahead pattern), first one within the plain decoder domain; table variant vs bit-by-bit variant") => table_decode_be::<u64, _, 4, {T_DELTA_FT}>;
    #[kani::unwind(6)]
    c05_dec_delta_ft_u64_le (thorough, "BufBitReader<LE, MemWordReader<u64>>, K=4", "any Inv_r state, symbolic stream (every look-ahead pattern), first one within the plain decoder domain; table variant vs bit-by-bit variant") => table_decode_le::<u64, _, 4, {T_DELTA_FT}>;
    #[kani::unwind(6)]
    c05_dec_delta_ft_ub_be (thorough, "BitReader<BE> (unbuffered), K=4", "any bit position, symbolic stream; table variant vs bit-by-bit variant") => ub_table_decode_be::<_, 4, {T_DELTA_FT}>;
    #[kani::unwind(6)]
    c05_dec_delta_ft_ub_le (thorough, "BitReader<LE> (unbuffered), K=4", "any bit position, symbolic stream; table variant vs bit-by-bit variant") => ub_table_decode_le::<_, 4, {T_DELTA_FT}>;
    #[kani::unwind(10)]
    c05_dec_zeta3_u16_be (quick, "BufBitReader<BE, MemWordReader<u16>>, K=8", "any Inv_r state, symbolic stream (every look-ahead pattern), first one within the plain decoder domain; table variant vs bit-by-bit variant") => table_decode_be::<u16, _, 8, {T_ZETA3}>;
    #[kani::unwind(10)]
    c05_dec_zeta3_u16_le (thorough, "BufBitReader<LE, MemWordReader<u16>>, K=8", "any Inv_r state, symbolic stream (every look-ahead pattern), first one within the plain decoder domain; table variant vs bit-by-bit variant") => table_decode_le::<u16, _, 8, {T_ZETA3}>;
    #[kani::unwind(7)]
    c05_dec_zeta3_u32_be (thorough, "BufBitReader<BE, MemWordReader<u32>>, K=5", "any Inv_r state, symbolic stream (every look-ahead pattern), first one within the plain decoder domain; table variant vs bit-by-bit variant") => table_decode_be::<u32, _, 5, {T_ZETA3}>;
    #[kani::unwind(7)]
    c05_dec_zeta3_u32_le (quick, "BufBitReader<LE, MemWordReader<u32>>, K=5", "any Inv_r state, symbolic stream (every look-ahead pattern), first one within the plain decoder domain; table variant vs bit-by-bit variant") => table_decode_le::<u32, _, 5, {T_ZETA3}>;
    #[kani::unwind(6)]
    c05_dec_zeta3_u64_be (thorough, "BufBitReader<BE, MemWordReader<u64>>, K=4", "any Inv_r state, symbolic stream (every look-ahead pattern), first one within the plain decoder domain; table variant vs bit-by-bit variant") => table_decode_be::<u64, _, 4, {T_ZETA3}>;
    #[kani::unwind(6)]
    c05_dec_zeta3_u64_le (thorough, "BufBitReader<LE, MemWordReader<u64>>, K=4", "any Inv_r state, symbolic stream (every look-ahead pattern), first one within the plain decoder domain; table variant vs bit-by-bit variant") => table_decode_le::<u64, _, 4, {T_ZETA3}>;
    #[kani::unwind(6)]
    c05_dec_zeta3_ub_be (quick, "BitReader<BE> (unbuffered), K=4", "any bit position, symbolic stream; table variant vs bit-by-bit variant") => ub_table_decode_be::<_, 4, {T_ZETA3}>;
    #[kani::unwind(6)]
    c05_dec_zeta3_ub_le (thorough, "BitReader<LE> (unbuffered), K=4", "any bit position, symbolic stream; table variant vs bit-by-bit variant") => ub_table_decode_le::<_, 4, {T_ZETA3}>;
    #[kani::unwind(7)]
    c05_defaults_r_u32_be (quick, "BufBitReader<BE, MemWordReader<u32>> parameterless read_gamma/read_delta/read_zeta3", "any Inv_r state, symbolic stream") => defaults_r_be::<u32, _, 5>;
    #[kani::unwind(7)]
    c05_defaults_r_u16_be (thorough, "BufBitReader<BE, MemWordReader<u16>> parameterless read_gamma/read_delta/read_zeta3", "any Inv_r state, symbolic stream") => defaults_r_be::<u16, _, 8>;
    #[kani::unwind(4)]
    c05_defaults_w_gamma_be (quick, "BufBitWriter<BE, Rec<u64>> parameterless write of gamma", "any writer state, v<=2^64-2: same words/pending bits/length as the table-less variant") => defaults_w_be::<_, 0>;
    #[kani::unwind(4)]
    c05_defaults_w_delta_be (thorough, "BufBitWriter<BE, Rec<u64>> parameterless write of delta", "any writer state, v<=2^64-2: same words/pending bits/length as the table-less variant") => defaults_w_be::<_, 1>;
    #[kani::unwind(4)]
    c05_defaults_w_zeta3_be (quick, "BufBitWriter<BE, Rec<u64>> parameterless write of zeta3", "any writer state, v<=2^64-2: same words/pending bits/length as the table-less variant") => defaults_w_be::<_, 2>;
    #[kani::unwind(4)]
    c05_defaults_w_zeta_k3_be (thorough, "BufBitWriter<BE, Rec<u64>> parameterless write of zeta_k3", "any writer state, v<=2^64-2: same words/pending bits/length as the table-less variant") => defaults_w_be::<_, 3>;
    #[kani::unwind(7)]
    c05_defaults_r_u32_le (quick, "BufBitReader<LE, MemWordReader<u32>> parameterless read_gamma/read_delta/read_zeta3", "any Inv_r state, symbolic stream") => defaults_r_le::<u32, _, 5>;
    #[kani::unwind(7)]
    c05_defaults_r_u16_le (thorough, "BufBitReader<LE, MemWordReader<u16>> parameterless read_gamma/read_delta/read_zeta3", "any Inv_r state, symbolic stream") => defaults_r_le::<u16, _, 8>;
    #[kani::unwind(4)]
    c05_defaults_w_gamma_le (thorough, "BufBitWriter<LE, Rec<u64>> parameterless write of gamma", "any writer state, v<=2^64-2: same words/pending bits/length as the table-less variant") => defaults_w_le::<_, 0>;
    #[kani::unwind(4)]
    c05_defaults_w_delta_le (quick, "BufBitWriter<LE, Rec<u64>> parameterless write of delta", "any writer state, v<=2^64-2: same words/pending bits/length as the table-less variant") => defaults_w_le::<_, 1>;
    #[kani::unwind(4)]
    c05_defaults_w_zeta3_le (thorough, "BufBitWriter<LE, Rec<u64>> parameterless write of zeta3", "any writer state, v<=2^64-2: same words/pending bits/length as the table-less variant") => defaults_w_le::<_, 2>;
    #[kani::unwind(4)]
    c05_defaults_w_zeta_k3_le (quick, "BufBitWriter<LE, Rec<u64>> parameterless write of zeta_k3", "any writer state, v<=2^64-2: same words/pending bits/length as the table-less variant") => defaults_w_le::<_, 3>;
    #[kani::unwind(14)]
    c05_dec_gamma_u8_be (quick, "BufBitReader<BE, MemWordReader<u8>>, K=12", "checked only if constructing this reader does not emit the diagnostic for this table (decided natively by bin diag_dump on the tree under test)") => u8_scope_be::<_, {T_GAMMA}>;
    #[kani::unwind(14)]
    c05_dec_gamma_u8_le (quick, "BufBitReader<LE, MemWordReader<u8>>, K=12", "checked only if constructing this reader does not emit the diagnostic for this table (decided natively by bin diag_dump on the tree under test)") => u8_scope_le::<_, {T_GAMMA}>;
    #[kani::unwind(14)]
    c05_dec_delta_tt_u8_be (quick, "BufBitReader<BE, MemWordReader<u8>>, K=12", "checked only if constructing this reader does not emit the diagnostic for this table (decided natively by bin diag_dump on the tree under test)") => u8_scope_be::<_, {T_DELTA_TT}>;
    #[kani::unwind(14)]
    c05_dec_delta_tt_u8_le (quick, "BufBitReader<LE, MemWordReader<u8>>, K=12", "checked only if constructing this reader does not emit the diagnostic for this table (decided natively by bin diag_dump on the tree under test)") => u8_scope_le::<_, {T_DELTA_TT}>;
    #[kani::unwind(14)]
    c05_dec_zeta3_u8_be (quick, "BufBitReader<BE, MemWordReader<u8>>, K=12", "checked only if constructing this reader does not emit the diagnostic for this table (decided natively by bin diag_dump on the tree under test)") => u8_scope_be::<_, {T_ZETA3}>;
    #[kani::unwind(14)]
    c05_dec_zeta3_u8_le (quick, "BufBitReader<LE, MemWordReader<u8>>, K=12", "checked only if constructing this reader does not emit the diagnostic for this table (decided natively by bin diag_dump on the tree under test)") => u8_scope_le::<_, {T_ZETA3}>;
}
