//! C13 — in-memory word streams behave as an array with a cursor.
//! One operation (symbolic selector and argument) from a state reached with
//! `set_word_pos`, compared with the array-plus-cursor model; then a probe
//! read shows that the cursor really is where `word_pos()` says.

use crate::c02::any_array;
use crate::model::*;
use crate::src::Src;
use dsi_bitstream::prelude::*;

#[cfg(kani)]
pub fn stub_format(_args: core::fmt::Arguments<'_>) -> String {
    String::new()
}
#[cfg(kani)]
pub fn stub_to_string<T: ?Sized>(_t: &T) -> String {
    String::new()
}

/// anyhow captures a backtrace when an error is built: irrelevant here and very expensive to model
#[cfg(kani)]
pub fn stub_backtrace_capture() -> std::backtrace::Backtrace {
    std::backtrace::Backtrace::disabled()
}

#[inline(always)]
fn is_ok_forget<T, E>(r: Result<T, E>) -> Option<T> {
    // error values are never dropped (their drop glue explodes in CBMC): inspect and forget
    match r {
        Ok(v) => Some(v),
        Err(e) => {
            core::mem::forget(e);
            None
        }
    }
}

/// strict reader: MemWordReader::new_strict(&data[..len])
pub fn strict_reader_step<W: VW, S: Src>(s: &mut S) {
    let data = any_array::<W, S, 4>(s);
    let len = s.usize_in(0, 4);
    let c0 = s.usize_in(0, len);
    let op = s.u8();
    let p = s.u64();
    s.assume(op < 3);
    let mut r = MemWordReader::new_strict(&data[..len]);
    assert!(is_ok_forget(r.set_word_pos(c0 as u64)).is_some(), "seek inside the data accepted");
    assert_eq!(is_ok_forget(r.word_pos()), Some(c0 as u64), "position reported exactly");
    let mut c = c0; // model cursor
    if op == 0 {
        let got = is_ok_forget(r.read_word());
        if c < len {
            assert!(got == Some(data[c]), "read returns the word under the cursor");
            c += 1;
        } else {
            assert!(got.is_none(), "read beyond the end is an error");
        }
    } else if op == 1 {
        let ok = is_ok_forget(r.set_word_pos(p)).is_some();
        if p <= len as u64 {
            assert!(ok, "seek within 0..=len accepted");
            c = p as usize;
        } else {
            assert!(!ok, "seek beyond the end rejected");
        }
    }
    assert_eq!(is_ok_forget(r.word_pos()), Some(c as u64), "cursor after the operation (errors leave it unchanged)");
    // probe: the next read is the word at the model cursor
    let probe = is_ok_forget(r.read_word());
    if c < len {
        assert!(probe == Some(data[c]), "probe read returns the word at the reported position");
    } else {
        assert!(probe.is_none(), "probe read beyond the end is an error");
    }
    crate::cover!(s, op == 1 && p > len as u64, "rejected seek");
    crate::cover!(s, op == 0 && c0 == len, "read at the end");
    crate::cover!(s, op == 0 && c0 < len, "read inside");
}

/// zero-extended reader: MemWordReader::new(&data[..len])
pub fn zext_reader_step<W: VW, S: Src>(s: &mut S) {
    let data = any_array::<W, S, 4>(s);
    let len = s.usize_in(0, 4);
    let c0 = s.u64();
    // within 2 of usize::MAX the cursor increment itself overflows ("dirty but infallible" in the source): outside
    s.assume(c0 < u64::MAX - 2);
    let op = s.u8();
    let p = s.u64();
    s.assume(op < 3 && p < u64::MAX - 2);
    let mut r = MemWordReader::new(&data[..len]);
    r.set_word_pos(c0).unwrap();
    assert_eq!(r.word_pos().unwrap(), c0, "position reported exactly");
    let mut c = c0;
    let at = |c: u64| if c < len as u64 { data[c as usize] } else { W::ZERO };
    if op == 0 {
        let got = r.read_word().unwrap();
        assert!(got == at(c), "read returns the word under the cursor, zero beyond the end");
        c += 1;
    } else if op == 1 {
        r.set_word_pos(p).unwrap();
        c = p;
    }
    assert_eq!(r.word_pos().unwrap(), c, "cursor after the operation");
    let probe = r.read_word().unwrap();
    assert!(probe == at(c), "probe read returns the word at the reported position");
    assert_eq!(r.word_pos().unwrap(), c + 1, "read advances by one");
    crate::cover!(s, op == 0 && c0 >= len as u64, "read beyond the end yields zero");
    crate::cover!(s, op == 0 && c0 < len as u64, "read inside");
}

/// fixed-slice writer: MemWordWriterSlice::new(&mut data[..len])
pub fn slice_writer_step<W: VW, S: Src>(s: &mut S) {
    let mut data = any_array::<W, S, 4>(s);
    let orig = data;
    let len = s.usize_in(0, 4);
    let c0 = s.usize_in(0, len);
    let op = s.u8();
    let p = s.u64();
    let w = W::any(s);
    let j = s.usize_in(0, 3);
    s.assume(op < 4);
    let mut c = c0;
    let mut wrote = false;
    {
        let mut ws = MemWordWriterSlice::new(&mut data[..len]);
        assert_eq!(ws.len(), len, "len() is the slice length");
        assert!(is_ok_forget(ws.set_word_pos(c0 as u64)).is_some(), "seek inside the data accepted");
        if op == 0 {
            let got = is_ok_forget(ws.read_word());
            if c < len {
                assert!(got == Some(orig[c]), "read returns the word under the cursor");
                c += 1;
            } else {
                assert!(got.is_none(), "read beyond the end is an error");
            }
        } else if op == 1 {
            let ok = is_ok_forget(ws.set_word_pos(p)).is_some();
            if p <= len as u64 {
                assert!(ok, "seek within 0..=len accepted");
                c = p as usize;
            } else {
                assert!(!ok, "seek beyond the end rejected");
            }
        } else if op == 2 {
            let ok = is_ok_forget(ws.write_word(w)).is_some();
            if c < len {
                assert!(ok, "write inside the slice accepted");
                wrote = true;
                c += 1;
            } else {
                assert!(!ok, "write beyond the end is an error");
            }
        }
        assert_eq!(is_ok_forget(ws.word_pos()), Some(c as u64), "cursor after the operation (errors leave it unchanged)");
        assert_eq!(ws.len(), len, "len() unchanged");
        let probe = is_ok_forget(ws.read_word());
        if c < len {
            let exp = if wrote && c == c0 { w } else { orig[c] };
            assert!(probe == Some(exp), "probe read returns the word at the reported position");
        } else {
            assert!(probe.is_none(), "probe read beyond the end is an error");
        }
    }
    // storage: exactly the written word changed
    let exp = if wrote && j == c0 { w } else { orig[j] };
    assert!(data[j] == exp, "storage changed only at the cursor by a successful write");
    crate::cover!(s, op == 2 && c0 == len, "write at the end rejected");
    crate::cover!(s, op == 2 && c0 < len, "write inside");
    crate::cover!(s, op == 1 && p > len as u64, "rejected seek");
}

/// growable-vector writer, concrete length LEN and cursor POS (<= LEN), symbolic contents
pub fn vec_writer_step<W: VW, S: Src, const LEN: usize, const POS: usize, const OWNED: bool>(s: &mut S) {
    let init = any_array::<W, S, 4>(s);
    let mut v: Vec<W> = Vec::with_capacity(8);
    if LEN > 0 {
        v.push(init[0]);
    }
    if LEN > 1 {
        v.push(init[1]);
    }
    if LEN > 2 {
        v.push(init[2]);
    }
    let op = s.u8();
    let p = s.u64();
    let w = W::any(s);
    s.assume(op < 4);
    if OWNED {
        let ws = MemWordWriterVec::new(v);
        let out = vec_ops::<W, S, Vec<W>, LEN, POS>(s, ws, init, op, p, w);
        core::mem::forget(out);
    } else {
        let ws = MemWordWriterVec::new(&mut v);
        let _ = vec_ops::<W, S, &mut Vec<W>, LEN, POS>(s, ws, init, op, p, w);
        core::mem::forget(v);
    }
}

fn vec_ops<W: VW, S: Src, B: AsMut<Vec<W>> + AsRef<Vec<W>>, const LEN: usize, const POS: usize>(
    s: &mut S,
    mut ws: MemWordWriterVec<W, B>,
    init: [W; 4],
    op: u8,
    p: u64,
    w: W,
) -> MemWordWriterVec<W, B> {
    assert_eq!(ws.len(), LEN, "len() is the vector length");
    assert!(is_ok_forget(ws.set_word_pos(POS as u64)).is_some(), "seek within 0..=len accepted");
    let mut c = POS;
    let mut len = LEN;
    let mut wrote = false;
    if op == 0 {
        let got = is_ok_forget(ws.read_word());
        if c < len {
            assert!(got == Some(init[c]), "read returns the word under the cursor");
            c += 1;
        } else {
            assert!(got.is_none(), "read beyond the end is an error");
        }
    } else if op == 1 {
        let ok = is_ok_forget(ws.set_word_pos(p)).is_some();
        if p <= len as u64 {
            assert!(ok, "seek within 0..=len accepted");
            c = p as usize;
        } else {
            assert!(!ok, "seek beyond the end rejected");
        }
    } else if op == 2 {
        ws.write_word(w).unwrap();
        wrote = true;
        if c == len {
            len += 1; // grows by exactly one word
        }
        c += 1;
    }
    assert_eq!(is_ok_forget(ws.word_pos()), Some(c as u64), "cursor after the operation (errors leave it unchanged)");
    assert_eq!(ws.len(), len, "length after the operation (a write at the end grows by exactly one)");
    // contents
    if wrote {
        let mut chk = is_ok_forget(ws.set_word_pos(POS as u64)).is_some();
        chk = chk && is_ok_forget(ws.read_word()) == Some(w);
        assert!(chk, "the written word is stored at the cursor");
        let _ = is_ok_forget(ws.set_word_pos(c as u64));
    }
    let probe = is_ok_forget(ws.read_word());
    if c < len {
        assert!(probe == Some(init[c]), "probe read returns the word at the reported position");
    } else {
        assert!(probe.is_none(), "probe read beyond the end is an error");
    }
    crate::cover!(s, op == 2, "write");
    crate::cover!(s, op == 1 && p > LEN as u64, "rejected seek");
    ws
}

crate::harnesses! {
    #[kani::stub(alloc::fmt::format, stub_format)]
    #[kani::stub(std::string::ToString::to_string, stub_to_string)]
    c13_strict_reader_u8 (quick, "MemWordReader<u8,&[u8],false>", "array<=4 words symbolic, any cursor, any op, any seek target") => strict_reader_step::<u8, _>;
    #[kani::stub(alloc::fmt::format, stub_format)]
    #[kani::stub(std::string::ToString::to_string, stub_to_string)]
    c13_strict_reader_u16 (thorough, "MemWordReader<u16,&[u16],false>", "array<=4 words symbolic, any cursor, any op, any seek target") => strict_reader_step::<u16, _>;
    #[kani::stub(alloc::fmt::format, stub_format)]
    #[kani::stub(std::string::ToString::to_string, stub_to_string)]
    c13_strict_reader_u32 (thorough, "MemWordReader<u32,&[u32],false>", "array<=4 words symbolic, any cursor, any op, any seek target") => strict_reader_step::<u32, _>;
    #[kani::stub(alloc::fmt::format, stub_format)]
    #[kani::stub(std::string::ToString::to_string, stub_to_string)]
    c13_strict_reader_u64 (quick, "MemWordReader<u64,&[u64],false>", "array<=4 words symbolic, any cursor, any op, any seek target") => strict_reader_step::<u64, _>;
    #[kani::stub(alloc::fmt::format, stub_format)]
    #[kani::stub(std::string::ToString::to_string, stub_to_string)]
    c13_strict_reader_u128 (quick, "MemWordReader<u128,&[u128],false>", "array<=4 words symbolic, any cursor, any op, any seek target") => strict_reader_step::<u128, _>;

    c13_zext_reader_u8 (quick, "MemWordReader<u8,&[u8],true>", "array<=4 words symbolic, any cursor < 2^64-3, any op") => zext_reader_step::<u8, _>;
    c13_zext_reader_u16 (thorough, "MemWordReader<u16,&[u16],true>", "array<=4 words symbolic, any cursor < 2^64-3, any op") => zext_reader_step::<u16, _>;
    c13_zext_reader_u32 (thorough, "MemWordReader<u32,&[u32],true>", "array<=4 words symbolic, any cursor < 2^64-3, any op") => zext_reader_step::<u32, _>;
    c13_zext_reader_u64 (quick, "MemWordReader<u64,&[u64],true>", "array<=4 words symbolic, any cursor < 2^64-3, any op") => zext_reader_step::<u64, _>;
    c13_zext_reader_u128 (quick, "MemWordReader<u128,&[u128],true>", "array<=4 words symbolic, any cursor < 2^64-3, any op") => zext_reader_step::<u128, _>;

    #[kani::stub(alloc::fmt::format, stub_format)]
    #[kani::stub(std::string::ToString::to_string, stub_to_string)]
    c13_slice_writer_u8 (quick, "MemWordWriterSlice<u8,&mut [u8]>", "array<=4 words symbolic, any cursor, any op") => slice_writer_step::<u8, _>;
    #[kani::stub(alloc::fmt::format, stub_format)]
    #[kani::stub(std::string::ToString::to_string, stub_to_string)]
    c13_slice_writer_u16 (thorough, "MemWordWriterSlice<u16,&mut [u16]>", "array<=4 words symbolic, any cursor, any op") => slice_writer_step::<u16, _>;
    #[kani::stub(alloc::fmt::format, stub_format)]
    #[kani::stub(std::string::ToString::to_string, stub_to_string)]
    c13_slice_writer_u32 (thorough, "MemWordWriterSlice<u32,&mut [u32]>", "array<=4 words symbolic, any cursor, any op") => slice_writer_step::<u32, _>;
    #[kani::stub(alloc::fmt::format, stub_format)]
    #[kani::stub(std::string::ToString::to_string, stub_to_string)]
    c13_slice_writer_u64 (quick, "MemWordWriterSlice<u64,&mut [u64]>", "array<=4 words symbolic, any cursor, any op") => slice_writer_step::<u64, _>;
    #[kani::stub(alloc::fmt::format, stub_format)]
    #[kani::stub(std::string::ToString::to_string, stub_to_string)]
    c13_slice_writer_u128 (quick, "MemWordWriterSlice<u128,&mut [u128]>", "array<=4 words symbolic, any cursor, any op") => slice_writer_step::<u128, _>;

    #[kani::stub(alloc::fmt::format, stub_format)]
    #[kani::stub(std::string::ToString::to_string, stub_to_string)]
    c13_vec_writer_u8_l0p0_borrowed (quick, "MemWordWriterVec<u8>, borrowed Vec, len=0, cursor=0 (concrete)", "symbolic contents, any op, any seek target, any written word") => vec_writer_step::<u8, _, 0, 0, false>;
    #[kani::stub(alloc::fmt::format, stub_format)]
    #[kani::stub(std::string::ToString::to_string, stub_to_string)]
    c13_vec_writer_u8_l0p0_owned (thorough, "MemWordWriterVec<u8>, owned Vec, len=0, cursor=0 (concrete)", "symbolic contents, any op, any seek target, any written word") => vec_writer_step::<u8, _, 0, 0, true>;
    #[kani::stub(alloc::fmt::format, stub_format)]
    #[kani::stub(std::string::ToString::to_string, stub_to_string)]
    c13_vec_writer_u8_l1p0_borrowed (thorough, "MemWordWriterVec<u8>, borrowed Vec, len=1, cursor=0 (concrete)", "symbolic contents, any op, any seek target, any written word") => vec_writer_step::<u8, _, 1, 0, false>;
    #[kani::stub(alloc::fmt::format, stub_format)]
    #[kani::stub(std::string::ToString::to_string, stub_to_string)]
    c13_vec_writer_u8_l1p0_owned (quick, "MemWordWriterVec<u8>, owned Vec, len=1, cursor=0 (concrete)", "symbolic contents, any op, any seek target, any written word") => vec_writer_step::<u8, _, 1, 0, true>;
    #[kani::stub(alloc::fmt::format, stub_format)]
    #[kani::stub(std::string::ToString::to_string, stub_to_string)]
    c13_vec_writer_u8_l1p1_borrowed (thorough, "MemWordWriterVec<u8>, borrowed Vec, len=1, cursor=1 (concrete)", "symbolic contents, any op, any seek target, any written word") => vec_writer_step::<u8, _, 1, 1, false>;
    #[kani::stub(alloc::fmt::format, stub_format)]
    #[kani::stub(std::string::ToString::to_string, stub_to_string)]
    c13_vec_writer_u8_l1p1_owned (thorough, "MemWordWriterVec<u8>, owned Vec, len=1, cursor=1 (concrete)", "symbolic contents, any op, any seek target, any written word") => vec_writer_step::<u8, _, 1, 1, true>;
    #[kani::stub(alloc::fmt::format, stub_format)]
    #[kani::stub(std::string::ToString::to_string, stub_to_string)]
    c13_vec_writer_u8_l2p0_borrowed (thorough, "MemWordWriterVec<u8>, borrowed Vec, len=2, cursor=0 (concrete)", "symbolic contents, any op, any seek target, any written word") => vec_writer_step::<u8, _, 2, 0, false>;
    #[kani::stub(alloc::fmt::format, stub_format)]
    #[kani::stub(std::string::ToString::to_string, stub_to_string)]
    c13_vec_writer_u8_l2p0_owned (thorough, "MemWordWriterVec<u8>, owned Vec, len=2, cursor=0 (concrete)", "symbolic contents, any op, any seek target, any written word") => vec_writer_step::<u8, _, 2, 0, true>;
    #[kani::stub(alloc::fmt::format, stub_format)]
    #[kani::stub(std::string::ToString::to_string, stub_to_string)]
    c13_vec_writer_u8_l2p1_borrowed (quick, "MemWordWriterVec<u8>, borrowed Vec, len=2, cursor=1 (concrete)", "symbolic contents, any op, any seek target, any written word") => vec_writer_step::<u8, _, 2, 1, false>;
    #[kani::stub(alloc::fmt::format, stub_format)]
    #[kani::stub(std::string::ToString::to_string, stub_to_string)]
    c13_vec_writer_u8_l2p1_owned (thorough, "MemWordWriterVec<u8>, owned Vec, len=2, cursor=1 (concrete)", "symbolic contents, any op, any seek target, any written word") => vec_writer_step::<u8, _, 2, 1, true>;
    #[kani::stub(alloc::fmt::format, stub_format)]
    #[kani::stub(std::string::ToString::to_string, stub_to_string)]
    c13_vec_writer_u8_l2p2_borrowed (thorough, "MemWordWriterVec<u8>, borrowed Vec, len=2, cursor=2 (concrete)", "symbolic contents, any op, any seek target, any written word") => vec_writer_step::<u8, _, 2, 2, false>;
    #[kani::stub(alloc::fmt::format, stub_format)]
    #[kani::stub(std::string::ToString::to_string, stub_to_string)]
    c13_vec_writer_u8_l2p2_owned (quick, "MemWordWriterVec<u8>, owned Vec, len=2, cursor=2 (concrete)", "symbolic contents, any op, any seek target, any written word") => vec_writer_step::<u8, _, 2, 2, true>;
    #[kani::stub(alloc::fmt::format, stub_format)]
    #[kani::stub(std::string::ToString::to_string, stub_to_string)]
    c13_vec_writer_u8_l3p0_borrowed (thorough, "MemWordWriterVec<u8>, borrowed Vec, len=3, cursor=0 (concrete)", "symbolic contents, any op, any seek target, any written word") => vec_writer_step::<u8, _, 3, 0, false>;
    #[kani::stub(alloc::fmt::format, stub_format)]
    #[kani::stub(std::string::ToString::to_string, stub_to_string)]
    c13_vec_writer_u8_l3p0_owned (thorough, "MemWordWriterVec<u8>, owned Vec, len=3, cursor=0 (concrete)", "symbolic contents, any op, any seek target, any written word") => vec_writer_step::<u8, _, 3, 0, true>;
    #[kani::stub(alloc::fmt::format, stub_format)]
    #[kani::stub(std::string::ToString::to_string, stub_to_string)]
    c13_vec_writer_u8_l3p1_borrowed (thorough, "MemWordWriterVec<u8>, borrowed Vec, len=3, cursor=1 (concrete)", "symbolic contents, any op, any seek target, any written word") => vec_writer_step::<u8, _, 3, 1, false>;
    #[kani::stub(alloc::fmt::format, stub_format)]
    #[kani::stub(std::string::ToString::to_string, stub_to_string)]
    c13_vec_writer_u8_l3p1_owned (thorough, "MemWordWriterVec<u8>, owned Vec, len=3, cursor=1 (concrete)", "symbolic contents, any op, any seek target, any written word") => vec_writer_step::<u8, _, 3, 1, true>;
    #[kani::stub(alloc::fmt::format, stub_format)]
    #[kani::stub(std::string::ToString::to_string, stub_to_string)]
    c13_vec_writer_u8_l3p2_borrowed (thorough, "MemWordWriterVec<u8>, borrowed Vec, len=3, cursor=2 (concrete)", "symbolic contents, any op, any seek target, any written word") => vec_writer_step::<u8, _, 3, 2, false>;
    #[kani::stub(alloc::fmt::format, stub_format)]
    #[kani::stub(std::string::ToString::to_string, stub_to_string)]
    c13_vec_writer_u8_l3p2_owned (thorough, "MemWordWriterVec<u8>, owned Vec, len=3, cursor=2 (concrete)", "symbolic contents, any op, any seek target, any written word") => vec_writer_step::<u8, _, 3, 2, true>;
    #[kani::stub(alloc::fmt::format, stub_format)]
    #[kani::stub(std::string::ToString::to_string, stub_to_string)]
    c13_vec_writer_u8_l3p3_borrowed (quick, "MemWordWriterVec<u8>, borrowed Vec, len=3, cursor=3 (concrete)", "symbolic contents, any op, any seek target, any written word") => vec_writer_step::<u8, _, 3, 3, false>;
    #[kani::stub(alloc::fmt::format, stub_format)]
    #[kani::stub(std::string::ToString::to_string, stub_to_string)]
    c13_vec_writer_u8_l3p3_owned (thorough, "MemWordWriterVec<u8>, owned Vec, len=3, cursor=3 (concrete)", "symbolic contents, any op, any seek target, any written word") => vec_writer_step::<u8, _, 3, 3, true>;
    #[kani::stub(alloc::fmt::format, stub_format)]
    #[kani::stub(std::string::ToString::to_string, stub_to_string)]
    c13_vec_writer_u16_l0p0_borrowed (thorough, "MemWordWriterVec<u16>, borrowed Vec, len=0, cursor=0 (concrete)", "symbolic contents, any op, any seek target, any written word") => vec_writer_step::<u16, _, 0, 0, false>;
    #[kani::stub(alloc::fmt::format, stub_format)]
    #[kani::stub(std::string::ToString::to_string, stub_to_string)]
    c13_vec_writer_u16_l0p0_owned (thorough, "MemWordWriterVec<u16>, owned Vec, len=0, cursor=0 (concrete)", "symbolic contents, any op, any seek target, any written word") => vec_writer_step::<u16, _, 0, 0, true>;
    #[kani::stub(alloc::fmt::format, stub_format)]
    #[kani::stub(std::string::ToString::to_string, stub_to_string)]
    c13_vec_writer_u16_l1p0_borrowed (thorough, "MemWordWriterVec<u16>, borrowed Vec, len=1, cursor=0 (concrete)", "symbolic contents, any op, any seek target, any written word") => vec_writer_step::<u16, _, 1, 0, false>;
    #[kani::stub(alloc::fmt::format, stub_format)]
    #[kani::stub(std::string::ToString::to_string, stub_to_string)]
    c13_vec_writer_u16_l1p0_owned (thorough, "MemWordWriterVec<u16>, owned Vec, len=1, cursor=0 (concrete)", "symbolic contents, any op, any seek target, any written word") => vec_writer_step::<u16, _, 1, 0, true>;
    #[kani::stub(alloc::fmt::format, stub_format)]
    #[kani::stub(std::string::ToString::to_string, stub_to_string)]
    c13_vec_writer_u16_l1p1_borrowed (thorough, "MemWordWriterVec<u16>, borrowed Vec, len=1, cursor=1 (concrete)", "symbolic contents, any op, any seek target, any written word") => vec_writer_step::<u16, _, 1, 1, false>;
    #[kani::stub(alloc::fmt::format, stub_format)]
    #[kani::stub(std::string::ToString::to_string, stub_to_string)]
    c13_vec_writer_u16_l1p1_owned (thorough, "MemWordWriterVec<u16>, owned Vec, len=1, cursor=1 (concrete)", "symbolic contents, any op, any seek target, any written word") => vec_writer_step::<u16, _, 1, 1, true>;
    #[kani::stub(alloc::fmt::format, stub_format)]
    #[kani::stub(std::string::ToString::to_string, stub_to_string)]
    c13_vec_writer_u16_l2p0_borrowed (thorough, "MemWordWriterVec<u16>, borrowed Vec, len=2, cursor=0 (concrete)", "symbolic contents, any op, any seek target, any written word") => vec_writer_step::<u16, _, 2, 0, false>;
    #[kani::stub(alloc::fmt::format, stub_format)]
    #[kani::stub(std::string::ToString::to_string, stub_to_string)]
    c13_vec_writer_u16_l2p0_owned (thorough, "MemWordWriterVec<u16>, owned Vec, len=2, cursor=0 (concrete)", "symbolic contents, any op, any seek target, any written word") => vec_writer_step::<u16, _, 2, 0, true>;
    #[kani::stub(alloc::fmt::format, stub_format)]
    #[kani::stub(std::string::ToString::to_string, stub_to_string)]
    c13_vec_writer_u16_l2p1_borrowed (thorough, "MemWordWriterVec<u16>, borrowed Vec, len=2, cursor=1 (concrete)", "symbolic contents, any op, any seek target, any written word") => vec_writer_step::<u16, _, 2, 1, false>;
    #[kani::stub(alloc::fmt::format, stub_format)]
    #[kani::stub(std::string::ToString::to_string, stub_to_string)]
    c13_vec_writer_u16_l2p1_owned (thorough, "MemWordWriterVec<u16>, owned Vec, len=2, cursor=1 (concrete)", "symbolic contents, any op, any seek target, any written word") => vec_writer_step::<u16, _, 2, 1, true>;
    #[kani::stub(alloc::fmt::format, stub_format)]
    #[kani::stub(std::string::ToString::to_string, stub_to_string)]
    c13_vec_writer_u16_l2p2_borrowed (thorough, "MemWordWriterVec<u16>, borrowed Vec, len=2, cursor=2 (concrete)", "symbolic contents, any op, any seek target, any written word") => vec_writer_step::<u16, _, 2, 2, false>;
    #[kani::stub(alloc::fmt::format, stub_format)]
    #[kani::stub(std::string::ToString::to_string, stub_to_string)]
    c13_vec_writer_u16_l2p2_owned (thorough, "MemWordWriterVec<u16>, owned Vec, len=2, cursor=2 (concrete)", "symbolic contents, any op, any seek target, any written word") => vec_writer_step::<u16, _, 2, 2, true>;
    #[kani::stub(alloc::fmt::format, stub_format)]
    #[kani::stub(std::string::ToString::to_string, stub_to_string)]
    c13_vec_writer_u16_l3p0_borrowed (thorough, "MemWordWriterVec<u16>, borrowed Vec, len=3, cursor=0 (concrete)", "symbolic contents, any op, any seek target, any written word") => vec_writer_step::<u16, _, 3, 0, false>;
    #[kani::stub(alloc::fmt::format, stub_format)]
    #[kani::stub(std::string::ToString::to_string, stub_to_string)]
    c13_vec_writer_u16_l3p0_owned (thorough, "MemWordWriterVec<u16>, owned Vec, len=3, cursor=0 (concrete)", "symbolic contents, any op, any seek target, any written word") => vec_writer_step::<u16, _, 3, 0, true>;
    #[kani::stub(alloc::fmt::format, stub_format)]
    #[kani::stub(std::string::ToString::to_string, stub_to_string)]
    c13_vec_writer_u16_l3p1_borrowed (thorough, "MemWordWriterVec<u16>, borrowed Vec, len=3, cursor=1 (concrete)", "symbolic contents, any op, any seek target, any written word") => vec_writer_step::<u16, _, 3, 1, false>;
    #[kani::stub(alloc::fmt::format, stub_format)]
    #[kani::stub(std::string::ToString::to_string, stub_to_string)]
    c13_vec_writer_u16_l3p1_owned (thorough, "MemWordWriterVec<u16>, owned Vec, len=3, cursor=1 (concrete)", "symbolic contents, any op, any seek target, any written word") => vec_writer_step::<u16, _, 3, 1, true>;
    #[kani::stub(alloc::fmt::format, stub_format)]
    #[kani::stub(std::string::ToString::to_string, stub_to_string)]
    c13_vec_writer_u16_l3p2_borrowed (thorough, "MemWordWriterVec<u16>, borrowed Vec, len=3, cursor=2 (concrete)", "symbolic contents, any op, any seek target, any written word") => vec_writer_step::<u16, _, 3, 2, false>;
    #[kani::stub(alloc::fmt::format, stub_format)]
    #[kani::stub(std::string::ToString::to_string, stub_to_string)]
    c13_vec_writer_u16_l3p2_owned (thorough, "MemWordWriterVec<u16>, owned Vec, len=3, cursor=2 (concrete)", "symbolic contents, any op, any seek target, any written word") => vec_writer_step::<u16, _, 3, 2, true>;
    #[kani::stub(alloc::fmt::format, stub_format)]
    #[kani::stub(std::string::ToString::to_string, stub_to_string)]
    c13_vec_writer_u16_l3p3_borrowed (thorough, "MemWordWriterVec<u16>, borrowed Vec, len=3, cursor=3 (concrete)", "symbolic contents, any op, any seek target, any written word") => vec_writer_step::<u16, _, 3, 3, false>;
    #[kani::stub(alloc::fmt::format, stub_format)]
    #[kani::stub(std::string::ToString::to_string, stub_to_string)]
    c13_vec_writer_u16_l3p3_owned (thorough, "MemWordWriterVec<u16>, owned Vec, len=3, cursor=3 (concrete)", "symbolic contents, any op, any seek target, any written word") => vec_writer_step::<u16, _, 3, 3, true>;
    #[kani::stub(alloc::fmt::format, stub_format)]
    #[kani::stub(std::string::ToString::to_string, stub_to_string)]
    c13_vec_writer_u32_l0p0_borrowed (thorough, "MemWordWriterVec<u32>, borrowed Vec, len=0, cursor=0 (concrete)", "symbolic contents, any op, any seek target, any written word") => vec_writer_step::<u32, _, 0, 0, false>;
    #[kani::stub(alloc::fmt::format, stub_format)]
    #[kani::stub(std::string::ToString::to_string, stub_to_string)]
    c13_vec_writer_u32_l0p0_owned (thorough, "MemWordWriterVec<u32>, owned Vec, len=0, cursor=0 (concrete)", "symbolic contents, any op, any seek target, any written word") => vec_writer_step::<u32, _, 0, 0, true>;
    #[kani::stub(alloc::fmt::format, stub_format)]
    #[kani::stub(std::string::ToString::to_string, stub_to_string)]
    c13_vec_writer_u32_l1p0_borrowed (thorough, "MemWordWriterVec<u32>, borrowed Vec, len=1, cursor=0 (concrete)", "symbolic contents, any op, any seek target, any written word") => vec_writer_step::<u32, _, 1, 0, false>;
    #[kani::stub(alloc::fmt::format, stub_format)]
    #[kani::stub(std::string::ToString::to_string, stub_to_string)]
    c13_vec_writer_u32_l1p0_owned (thorough, "MemWordWriterVec<u32>, owned Vec, len=1, cursor=0 (concrete)", "symbolic contents, any op, any seek target, any written word") => vec_writer_step::<u32, _, 1, 0, true>;
    #[kani::stub(alloc::fmt::format, stub_format)]
    #[kani::stub(std::string::ToString::to_string, stub_to_string)]
    c13_vec_writer_u32_l1p1_borrowed (thorough, "MemWordWriterVec<u32>, borrowed Vec, len=1, cursor=1 (concrete)", "symbolic contents, any op, any seek target, any written word") => vec_writer_step::<u32, _, 1, 1, false>;
    #[kani::stub(alloc::fmt::format, stub_format)]
    #[kani::stub(std::string::ToString::to_string, stub_to_string)]
    c13_vec_writer_u32_l1p1_owned (thorough, "MemWordWriterVec<u32>, owned Vec, len=1, cursor=1 (concrete)", "symbolic contents, any op, any seek target, any written word") => vec_writer_step::<u32, _, 1, 1, true>;
    #[kani::stub(alloc::fmt::format, stub_format)]
    #[kani::stub(std::string::ToString::to_string, stub_to_string)]
    c13_vec_writer_u32_l2p0_borrowed (thorough, "MemWordWriterVec<u32>, borrowed Vec, len=2, cursor=0 (concrete)", "symbolic contents, any op, any seek target, any written word") => vec_writer_step::<u32, _, 2, 0, false>;
    #[kani::stub(alloc::fmt::format, stub_format)]
    #[kani::stub(std::string::ToString::to_string, stub_to_string)]
    c13_vec_writer_u32_l2p0_owned (thorough, "MemWordWriterVec<u32>, owned Vec, len=2, cursor=0 (concrete)", "symbolic contents, any op, any seek target, any written word") => vec_writer_step::<u32, _, 2, 0, true>;
    #[kani::stub(alloc::fmt::format, stub_format)]
    #[kani::stub(std::string::ToString::to_string, stub_to_string)]
    c13_vec_writer_u32_l2p1_borrowed (thorough, "MemWordWriterVec<u32>, borrowed Vec, len=2, cursor=1 (concrete)", "symbolic contents, any op, any seek target, any written word") => vec_writer_step::<u32, _, 2, 1, false>;
    #[kani::stub(alloc::fmt::format, stub_format)]
    #[kani::stub(std::string::ToString::to_string, stub_to_string)]
    c13_vec_writer_u32_l2p1_owned (thorough, "MemWordWriterVec<u32>, owned Vec, len=2, cursor=1 (concrete)", "symbolic contents, any op, any seek target, any written word") => vec_writer_step::<u32, _, 2, 1, true>;
    #[kani::stub(alloc::fmt::format, stub_format)]
    #[kani::stub(std::string::ToString::to_string, stub_to_string)]
    c13_vec_writer_u32_l2p2_borrowed (thorough, "MemWordWriterVec<u32>, borrowed Vec, len=2, cursor=2 (concrete)", "symbolic contents, any op, any seek target, any written word") => vec_writer_step::<u32, _, 2, 2, false>;
    #[kani::stub(alloc::fmt::format, stub_format)]
    #[kani::stub(std::string::ToString::to_string, stub_to_string)]
    c13_vec_writer_u32_l2p2_owned (thorough, "MemWordWriterVec<u32>, owned Vec, len=2, cursor=2 (concrete)", "symbolic contents, any op, any seek target, any written word") => vec_writer_step::<u32, _, 2, 2, true>;
    #[kani::stub(alloc::fmt::format, stub_format)]
    #[kani::stub(std::string::ToString::to_string, stub_to_string)]
    c13_vec_writer_u32_l3p0_borrowed (thorough, "MemWordWriterVec<u32>, borrowed Vec, len=3, cursor=0 (concrete)", "symbolic contents, any op, any seek target, any written word") => vec_writer_step::<u32, _, 3, 0, false>;
    #[kani::stub(alloc::fmt::format, stub_format)]
    #[kani::stub(std::string::ToString::to_string, stub_to_string)]
    c13_vec_writer_u32_l3p0_owned (thorough, "MemWordWriterVec<u32>, owned Vec, len=3, cursor=0 (concrete)", "symbolic contents, any op, any seek target, any written word") => vec_writer_step::<u32, _, 3, 0, true>;
    #[kani::stub(alloc::fmt::format, stub_format)]
    #[kani::stub(std::string::ToString::to_string, stub_to_string)]
    c13_vec_writer_u32_l3p1_borrowed (thorough, "MemWordWriterVec<u32>, borrowed Vec, len=3, cursor=1 (concrete)", "symbolic contents, any op, any seek target, any written word") => vec_writer_step::<u32, _, 3, 1, false>;
    #[kani::stub(alloc::fmt::format, stub_format)]
    #[kani::stub(std::string::ToString::to_string, stub_to_string)]
    c13_vec_writer_u32_l3p1_owned (thorough, "MemWordWriterVec<u32>, owned Vec, len=3, cursor=1 (concrete)", "symbolic contents, any op, any seek target, any written word") => vec_writer_step::<u32, _, 3, 1, true>;
    #[kani::stub(alloc::fmt::format, stub_format)]
    #[kani::stub(std::string::ToString::to_string, stub_to_string)]
    c13_vec_writer_u32_l3p2_borrowed (thorough, "MemWordWriterVec<u32>, borrowed Vec, len=3, cursor=2 (concrete)", "symbolic contents, any op, any seek target, any written word") => vec_writer_step::<u32, _, 3, 2, false>;
    #[kani::stub(alloc::fmt::format, stub_format)]
    #[kani::stub(std::string::ToString::to_string, stub_to_string)]
    c13_vec_writer_u32_l3p2_owned (thorough, "MemWordWriterVec<u32>, owned Vec, len=3, cursor=2 (concrete)", "symbolic contents, any op, any seek target, any written word") => vec_writer_step::<u32, _, 3, 2, true>;
    #[kani::stub(alloc::fmt::format, stub_format)]
    #[kani::stub(std::string::ToString::to_string, stub_to_string)]
    c13_vec_writer_u32_l3p3_borrowed (thorough, "MemWordWriterVec<u32>, borrowed Vec, len=3, cursor=3 (concrete)", "symbolic contents, any op, any seek target, any written word") => vec_writer_step::<u32, _, 3, 3, false>;
    #[kani::stub(alloc::fmt::format, stub_format)]
    #[kani::stub(std::string::ToString::to_string, stub_to_string)]
    c13_vec_writer_u32_l3p3_owned (thorough, "MemWordWriterVec<u32>, owned Vec, len=3, cursor=3 (concrete)", "symbolic contents, any op, any seek target, any written word") => vec_writer_step::<u32, _, 3, 3, true>;
    #[kani::stub(alloc::fmt::format, stub_format)]
    #[kani::stub(std::string::ToString::to_string, stub_to_string)]
    c13_vec_writer_u64_l0p0_borrowed (quick, "MemWordWriterVec<u64>, borrowed Vec, len=0, cursor=0 (concrete)", "symbolic contents, any op, any seek target, any written word") => vec_writer_step::<u64, _, 0, 0, false>;
    #[kani::stub(alloc::fmt::format, stub_format)]
    #[kani::stub(std::string::ToString::to_string, stub_to_string)]
    c13_vec_writer_u64_l0p0_owned (thorough, "MemWordWriterVec<u64>, owned Vec, len=0, cursor=0 (concrete)", "symbolic contents, any op, any seek target, any written word") => vec_writer_step::<u64, _, 0, 0, true>;
    #[kani::stub(alloc::fmt::format, stub_format)]
    #[kani::stub(std::string::ToString::to_string, stub_to_string)]
    c13_vec_writer_u64_l1p0_borrowed (thorough, "MemWordWriterVec<u64>, borrowed Vec, len=1, cursor=0 (concrete)", "symbolic contents, any op, any seek target, any written word") => vec_writer_step::<u64, _, 1, 0, false>;
    #[kani::stub(alloc::fmt::format, stub_format)]
    #[kani::stub(std::string::ToString::to_string, stub_to_string)]
    c13_vec_writer_u64_l1p0_owned (quick, "MemWordWriterVec<u64>, owned Vec, len=1, cursor=0 (concrete)", "symbolic contents, any op, any seek target, any written word") => vec_writer_step::<u64, _, 1, 0, true>;
    #[kani::stub(alloc::fmt::format, stub_format)]
    #[kani::stub(std::string::ToString::to_string, stub_to_string)]
    c13_vec_writer_u64_l1p1_borrowed (thorough, "MemWordWriterVec<u64>, borrowed Vec, len=1, cursor=1 (concrete)", "symbolic contents, any op, any seek target, any written word") => vec_writer_step::<u64, _, 1, 1, false>;
    #[kani::stub(alloc::fmt::format, stub_format)]
    #[kani::stub(std::string::ToString::to_string, stub_to_string)]
    c13_vec_writer_u64_l1p1_owned (thorough, "MemWordWriterVec<u64>, owned Vec, len=1, cursor=1 (concrete)", "symbolic contents, any op, any seek target, any written word") => vec_writer_step::<u64, _, 1, 1, true>;
    #[kani::stub(alloc::fmt::format, stub_format)]
    #[kani::stub(std::string::ToString::to_string, stub_to_string)]
    c13_vec_writer_u64_l2p0_borrowed (thorough, "MemWordWriterVec<u64>, borrowed Vec, len=2, cursor=0 (concrete)", "symbolic contents, any op, any seek target, any written word") => vec_writer_step::<u64, _, 2, 0, false>;
    #[kani::stub(alloc::fmt::format, stub_format)]
    #[kani::stub(std::string::ToString::to_string, stub_to_string)]
    c13_vec_writer_u64_l2p0_owned (thorough, "MemWordWriterVec<u64>, owned Vec, len=2, cursor=0 (concrete)", "symbolic contents, any op, any seek target, any written word") => vec_writer_step::<u64, _, 2, 0, true>;
    #[kani::stub(alloc::fmt::format, stub_format)]
    #[kani::stub(std::string::ToString::to_string, stub_to_string)]
    c13_vec_writer_u64_l2p1_borrowed (quick, "MemWordWriterVec<u64>, borrowed Vec, len=2, cursor=1 (concrete)", "symbolic contents, any op, any seek target, any written word") => vec_writer_step::<u64, _, 2, 1, false>;
    #[kani::stub(alloc::fmt::format, stub_format)]
    #[kani::stub(std::string::ToString::to_string, stub_to_string)]
    c13_vec_writer_u64_l2p1_owned (thorough, "MemWordWriterVec<u64>, owned Vec, len=2, cursor=1 (concrete)", "symbolic contents, any op, any seek target, any written word") => vec_writer_step::<u64, _, 2, 1, true>;
    #[kani::stub(alloc::fmt::format, stub_format)]
    #[kani::stub(std::string::ToString::to_string, stub_to_string)]
    c13_vec_writer_u64_l2p2_borrowed (thorough, "MemWordWriterVec<u64>, borrowed Vec, len=2, cursor=2 (concrete)", "symbolic contents, any op, any seek target, any written word") => vec_writer_step::<u64, _, 2, 2, false>;
    #[kani::stub(alloc::fmt::format, stub_format)]
    #[kani::stub(std::string::ToString::to_string, stub_to_string)]
    c13_vec_writer_u64_l2p2_owned (quick, "MemWordWriterVec<u64>, owned Vec, len=2, cursor=2 (concrete)", "symbolic contents, any op, any seek target, any written word") => vec_writer_step::<u64, _, 2, 2, true>;
    #[kani::stub(alloc::fmt::format, stub_format)]
    #[kani::stub(std::string::ToString::to_string, stub_to_string)]
    c13_vec_writer_u64_l3p0_borrowed (thorough, "MemWordWriterVec<u64>, borrowed Vec, len=3, cursor=0 (concrete)", "symbolic contents, any op, any seek target, any written word") => vec_writer_step::<u64, _, 3, 0, false>;
    #[kani::stub(alloc::fmt::format, stub_format)]
    #[kani::stub(std::string::ToString::to_string, stub_to_string)]
    c13_vec_writer_u64_l3p0_owned (thorough, "MemWordWriterVec<u64>, owned Vec, len=3, cursor=0 (concrete)", "symbolic contents, any op, any seek target, any written word") => vec_writer_step::<u64, _, 3, 0, true>;
    #[kani::stub(alloc::fmt::format, stub_format)]
    #[kani::stub(std::string::ToString::to_string, stub_to_string)]
    c13_vec_writer_u64_l3p1_borrowed (thorough, "MemWordWriterVec<u64>, borrowed Vec, len=3, cursor=1 (concrete)", "symbolic contents, any op, any seek target, any written word") => vec_writer_step::<u64, _, 3, 1, false>;
    #[kani::stub(alloc::fmt::format, stub_format)]
    #[kani::stub(std::string::ToString::to_string, stub_to_string)]
    c13_vec_writer_u64_l3p1_owned (thorough, "MemWordWriterVec<u64>, owned Vec, len=3, cursor=1 (concrete)", "symbolic contents, any op, any seek target, any written word") => vec_writer_step::<u64, _, 3, 1, true>;
    #[kani::stub(alloc::fmt::format, stub_format)]
    #[kani::stub(std::string::ToString::to_string, stub_to_string)]
    c13_vec_writer_u64_l3p2_borrowed (thorough, "MemWordWriterVec<u64>, borrowed Vec, len=3, cursor=2 (concrete)", "symbolic contents, any op, any seek target, any written word") => vec_writer_step::<u64, _, 3, 2, false>;
    #[kani::stub(alloc::fmt::format, stub_format)]
    #[kani::stub(std::string::ToString::to_string, stub_to_string)]
    c13_vec_writer_u64_l3p2_owned (thorough, "MemWordWriterVec<u64>, owned Vec, len=3, cursor=2 (concrete)", "symbolic contents, any op, any seek target, any written word") => vec_writer_step::<u64, _, 3, 2, true>;
    #[kani::stub(alloc::fmt::format, stub_format)]
    #[kani::stub(std::string::ToString::to_string, stub_to_string)]
    c13_vec_writer_u64_l3p3_borrowed (quick, "MemWordWriterVec<u64>, borrowed Vec, len=3, cursor=3 (concrete)", "symbolic contents, any op, any seek target, any written word") => vec_writer_step::<u64, _, 3, 3, false>;
    #[kani::stub(alloc::fmt::format, stub_format)]
    #[kani::stub(std::string::ToString::to_string, stub_to_string)]
    c13_vec_writer_u64_l3p3_owned (thorough, "MemWordWriterVec<u64>, owned Vec, len=3, cursor=3 (concrete)", "symbolic contents, any op, any seek target, any written word") => vec_writer_step::<u64, _, 3, 3, true>;
    #[kani::stub(alloc::fmt::format, stub_format)]
    #[kani::stub(std::string::ToString::to_string, stub_to_string)]
    c13_vec_writer_u128_l0p0_borrowed (quick, "MemWordWriterVec<u128>, borrowed Vec, len=0, cursor=0 (concrete)", "symbolic contents, any op, any seek target, any written word") => vec_writer_step::<u128, _, 0, 0, false>;
    #[kani::stub(alloc::fmt::format, stub_format)]
    #[kani::stub(std::string::ToString::to_string, stub_to_string)]
    c13_vec_writer_u128_l0p0_owned (thorough, "MemWordWriterVec<u128>, owned Vec, len=0, cursor=0 (concrete)", "symbolic contents, any op, any seek target, any written word") => vec_writer_step::<u128, _, 0, 0, true>;
    #[kani::stub(alloc::fmt::format, stub_format)]
    #[kani::stub(std::string::ToString::to_string, stub_to_string)]
    c13_vec_writer_u128_l1p0_borrowed (thorough, "MemWordWriterVec<u128>, borrowed Vec, len=1, cursor=0 (concrete)", "symbolic contents, any op, any seek target, any written word") => vec_writer_step::<u128, _, 1, 0, false>;
    #[kani::stub(alloc::fmt::format, stub_format)]
    #[kani::stub(std::string::ToString::to_string, stub_to_string)]
    c13_vec_writer_u128_l1p0_owned (quick, "MemWordWriterVec<u128>, owned Vec, len=1, cursor=0 (concrete)", "symbolic contents, any op, any seek target, any written word") => vec_writer_step::<u128, _, 1, 0, true>;
    #[kani::stub(alloc::fmt::format, stub_format)]
    #[kani::stub(std::string::ToString::to_string, stub_to_string)]
    c13_vec_writer_u128_l1p1_borrowed (thorough, "MemWordWriterVec<u128>, borrowed Vec, len=1, cursor=1 (concrete)", "symbolic contents, any op, any seek target, any written word") => vec_writer_step::<u128, _, 1, 1, false>;
    #[kani::stub(alloc::fmt::format, stub_format)]
    #[kani::stub(std::string::ToString::to_string, stub_to_string)]
    c13_vec_writer_u128_l1p1_owned (thorough, "MemWordWriterVec<u128>, owned Vec, len=1, cursor=1 (concrete)", "symbolic contents, any op, any seek target, any written word") => vec_writer_step::<u128, _, 1, 1, true>;
    #[kani::stub(alloc::fmt::format, stub_format)]
    #[kani::stub(std::string::ToString::to_string, stub_to_string)]
    c13_vec_writer_u128_l2p0_borrowed (thorough, "MemWordWriterVec<u128>, borrowed Vec, len=2, cursor=0 (concrete)", "symbolic contents, any op, any seek target, any written word") => vec_writer_step::<u128, _, 2, 0, false>;
    #[kani::stub(alloc::fmt::format, stub_format)]
    #[kani::stub(std::string::ToString::to_string, stub_to_string)]
    c13_vec_writer_u128_l2p0_owned (thorough, "MemWordWriterVec<u128>, owned Vec, len=2, cursor=0 (concrete)", "symbolic contents, any op, any seek target, any written word") => vec_writer_step::<u128, _, 2, 0, true>;
    #[kani::stub(alloc::fmt::format, stub_format)]
    #[kani::stub(std::string::ToString::to_string, stub_to_string)]
    c13_vec_writer_u128_l2p1_borrowed (quick, "MemWordWriterVec<u128>, borrowed Vec, len=2, cursor=1 (concrete)", "symbolic contents, any op, any seek target, any written word") => vec_writer_step::<u128, _, 2, 1, false>;
    #[kani::stub(alloc::fmt::format, stub_format)]
    #[kani::stub(std::string::ToString::to_string, stub_to_string)]
    c13_vec_writer_u128_l2p1_owned (thorough, "MemWordWriterVec<u128>, owned Vec, len=2, cursor=1 (concrete)", "symbolic contents, any op, any seek target, any written word") => vec_writer_step::<u128, _, 2, 1, true>;
    #[kani::stub(alloc::fmt::format, stub_format)]
    #[kani::stub(std::string::ToString::to_string, stub_to_string)]
    c13_vec_writer_u128_l2p2_borrowed (thorough, "MemWordWriterVec<u128>, borrowed Vec, len=2, cursor=2 (concrete)", "symbolic contents, any op, any seek target, any written word") => vec_writer_step::<u128, _, 2, 2, false>;
    #[kani::stub(alloc::fmt::format, stub_format)]
    #[kani::stub(std::string::ToString::to_string, stub_to_string)]
    c13_vec_writer_u128_l2p2_owned (quick, "MemWordWriterVec<u128>, owned Vec, len=2, cursor=2 (concrete)", "symbolic contents, any op, any seek target, any written word") => vec_writer_step::<u128, _, 2, 2, true>;
    #[kani::stub(alloc::fmt::format, stub_format)]
    #[kani::stub(std::string::ToString::to_string, stub_to_string)]
    c13_vec_writer_u128_l3p0_borrowed (thorough, "MemWordWriterVec<u128>, borrowed Vec, len=3, cursor=0 (concrete)", "symbolic contents, any op, any seek target, any written word") => vec_writer_step::<u128, _, 3, 0, false>;
    #[kani::stub(alloc::fmt::format, stub_format)]
    #[kani::stub(std::string::ToString::to_string, stub_to_string)]
    c13_vec_writer_u128_l3p0_owned (thorough, "MemWordWriterVec<u128>, owned Vec, len=3, cursor=0 (concrete)", "symbolic contents, any op, any seek target, any written word") => vec_writer_step::<u128, _, 3, 0, true>;
    #[kani::stub(alloc::fmt::format, stub_format)]
    #[kani::stub(std::string::ToString::to_string, stub_to_string)]
    c13_vec_writer_u128_l3p1_borrowed (thorough, "MemWordWriterVec<u128>, borrowed Vec, len=3, cursor=1 (concrete)", "symbolic contents, any op, any seek target, any written word") => vec_writer_step::<u128, _, 3, 1, false>;
    #[kani::stub(alloc::fmt::format, stub_format)]
    #[kani::stub(std::string::ToString::to_string, stub_to_string)]
    c13_vec_writer_u128_l3p1_owned (thorough, "MemWordWriterVec<u128>, owned Vec, len=3, cursor=1 (concrete)", "symbolic contents, any op, any seek target, any written word") => vec_writer_step::<u128, _, 3, 1, true>;
    #[kani::stub(alloc::fmt::format, stub_format)]
    #[kani::stub(std::string::ToString::to_string, stub_to_string)]
    c13_vec_writer_u128_l3p2_borrowed (thorough, "MemWordWriterVec<u128>, borrowed Vec, len=3, cursor=2 (concrete)", "symbolic contents, any op, any seek target, any written word") => vec_writer_step::<u128, _, 3, 2, false>;
    #[kani::stub(alloc::fmt::format, stub_format)]
    #[kani::stub(std::string::ToString::to_string, stub_to_string)]
    c13_vec_writer_u128_l3p2_owned (thorough, "MemWordWriterVec<u128>, owned Vec, len=3, cursor=2 (concrete)", "symbolic contents, any op, any seek target, any written word") => vec_writer_step::<u128, _, 3, 2, true>;
    #[kani::stub(alloc::fmt::format, stub_format)]
    #[kani::stub(std::string::ToString::to_string, stub_to_string)]
    c13_vec_writer_u128_l3p3_borrowed (quick, "MemWordWriterVec<u128>, borrowed Vec, len=3, cursor=3 (concrete)", "symbolic contents, any op, any seek target, any written word") => vec_writer_step::<u128, _, 3, 3, false>;
    #[kani::stub(alloc::fmt::format, stub_format)]
    #[kani::stub(std::string::ToString::to_string, stub_to_string)]
    c13_vec_writer_u128_l3p3_owned (thorough, "MemWordWriterVec<u128>, owned Vec, len=3, cursor=3 (concrete)", "symbolic contents, any op, any seek target, any written word") => vec_writer_step::<u128, _, 3, 3, true>;
}

/// core's memchr is a word-at-a-time search behind `align_offset`, which symbolic execution cannot resolve for
/// texts of 16 bytes or more (> 600 s, > 10 GB for a concrete 16-byte text); replaced by its definition
/// (index of the first occurrence). Native replays run the real one.
#[cfg(kani)]
pub fn stub_memchr(x: u8, text: &[u8]) -> Option<usize> {
    let mut i = 0;
    while i < text.len() {
        if text[i] == x {
            return Some(i);
        }
        i += 1;
    }
    None
}

/// dropping an anyhow::Error goes through its vtable (object_drop) and, under Kani, costs minutes; library code
/// that discards such an error internally (`Err(_) => ...`) would make a harness run out of time. Errors are
/// leaked instead (the harnesses already `mem::forget` every error value they receive).
#[cfg(kani)]
pub fn stub_anyhow_drop(_e: &mut anyhow::Error) {}
