//! C20 — code lengths are monotone and Kraft-bounded; change-point search is exact.
//!
//!  * monotone: `len(n) <= len(n+1)` for symbolic n over the full domain, symbolic parameters;
//!  * Kraft: "the length depends only on the piece" lemma for symbolic n (solver), then the
//!    exact Kraft sum over the (concrete, <= 130) pieces with the library's own length
//!    function evaluated at the piece starts, in 2^-127 fixed point (u128, exact);
//!    unary-prefixed codes (Rice, Golomb): period lemma `len(n+b) = len(n)+1` (solver) and the
//!    exact sum over one period; the geometric series over periods is the textbook step;
//!  * change-point iterator: one `next()` from an arbitrary iterator state for a symbolic
//!    monotone step function (exactness, gap bounded), and termination without overflow when
//!    no further change point exists (full width).

use crate::ms::U256;
use crate::spec;
use crate::src::Src;

/// exact accumulator in units of 2^-255 (1.0 == 2^255); adds count * 2^-len and checks sum <= 1
struct Kraft {
    sum: U256,
}
impl Kraft {
    fn new() -> Self {
        Kraft { sum: U256::ZERO }
    }
    fn add(&mut self, count: u128, len: usize) {
        assert!(len >= 1 && len <= 255, "length beyond the fixed-point range");
        // a single piece alone must not exceed 1: count <= 2^len
        assert!(len >= 128 || count <= (1u128 << len), "Kraft sum of a prefix of the values exceeds 1");
        let term = U256 { hi: 0, lo: count }.shl(255 - len);
        // 256-bit addition
        let (lo, c) = self.sum.lo.overflowing_add(term.lo);
        let (hi1, c1) = self.sum.hi.overflowing_add(term.hi);
        let (hi, c2) = hi1.overflowing_add(c as u128);
        assert!(!c1 && !c2, "Kraft sum of a prefix of the values exceeds 1");
        self.sum = U256 { hi, lo };
        let one = U256 { hi: 1u128 << 127, lo: 0 };
        assert!(self.sum.hi < one.hi || (self.sum.hi == one.hi && self.sum.lo == 0), "Kraft sum of a prefix of the values exceeds 1");
    }
}
use dsi_bitstream::prelude::*;
use dsi_bitstream::utils::FindChangePoints;

const NMAX: u64 = u64::MAX - 2; // n+1 must still be in the domain (<= 2^64-2)

pub const C_GAMMA: u8 = 0;
pub const C_DELTA: u8 = 1;
pub const C_OMEGA: u8 = 2;
pub const C_ZETA: u8 = 3;
pub const C_PI: u8 = 4;
pub const C_EXPG: u8 = 5;
pub const C_RICE: u8 = 6;
pub const C_GOLOMB: u8 = 7;
pub const C_VBYTE: u8 = 8;
pub const C_MINBIN: u8 = 9;

#[inline(always)]
fn len_of(code: u8, n: u64, k: usize) -> usize {
    match code {
        C_GAMMA => len_gamma(n),
        C_DELTA => len_delta(n),
        C_OMEGA => len_omega(n),
        C_ZETA => len_zeta(n, k),
        C_PI => len_pi(n, k),
        C_EXPG => len_exp_golomb(n, k),
        C_RICE => len_rice(n, k),
        C_GOLOMB => len_golomb(n, k as u64),
        C_VBYTE => bit_len_vbyte(n),
        _ => len_minimal_binary(n, k as u64),
    }
}

/// len(n) <= len(n+1); parameter k symbolic in KLO..=KHI; n < 2^NB
pub fn monotone<S: Src, const CODE: u8, const KLO: usize, const KHI: usize, const NB: u32>(s: &mut S) {
    let n = s.u64();
    let k = s.usize_in(KLO, KHI);
    let nmax = if NB >= 64 { NMAX } else { (1u64 << NB) - 1 };
    s.assume(n <= nmax);
    if CODE == C_MINBIN {
        s.assume(n + 1 < k as u64);
    }
    if CODE == C_RICE {
        s.assume((n >> k) < (1 << 40));
    }
    let a = len_of(CODE, n, k);
    let b = len_of(CODE, n + 1, k);
    assert!(a <= b, "codeword length decreases");
    crate::cover!(s, a < b, "a step of the length function");
    crate::cover!(s, n > (1 << 20) || NB < 21, "large value");
}

/// piece index of n for the codes whose length depends only on floor(log2(n+1)) (gamma, delta, omega, pi_k)
/// resp. floor(log2((n>>k)+1)) (exp-Golomb_k): start of the piece containing n
#[inline(always)]
fn piece_start(code: u8, n: u64, k: usize) -> u64 {
    match code {
        C_EXPG => {
            let l = spec::ilog2((n >> k) + 1);
            ((1u64 << l) - 1) << k
        }
        _ => {
            let l = spec::ilog2(n + 1);
            (1u64 << l) - 1
        }
    }
}

/// lemma: the length is constant on each piece (symbolic n, symbolic k)
pub fn piece_lemma<S: Src, const CODE: u8, const KLO: usize, const KHI: usize>(s: &mut S) {
    let n = s.u64();
    let k = s.usize_in(KLO, KHI);
    s.assume(n <= NMAX + 1);
    let st = piece_start(CODE, n, k);
    assert!(st <= n, "piece start");
    assert_eq!(len_of(CODE, n, k), len_of(CODE, st, k), "length differs inside a piece");
    crate::cover!(s, n - st > 1000, "deep inside a piece");
}

/// exact Kraft sum over the 64 pieces [2^l - 1, 2^(l+1) - 2] (last one truncated at 2^64-2), using the
/// library's length at each piece start; 2^-127 fixed point. Concrete parameter K.
pub fn kraft_log_pieces<S: Src, const CODE: u8, const K: usize>(s: &mut S) {
    let cap = (u64::MAX - 1) as u128;
    let mut kr = Kraft::new();
    let mut l = 0usize;
    while l < 64 {
        let start: u128 = if CODE == C_EXPG { ((1u128 << l) - 1) << K } else { (1u128 << l) - 1 };
        if start > cap {
            break;
        }
        let mut count: u128 = if CODE == C_EXPG { 1u128 << (l + K) } else { 1u128 << l };
        if start + count - 1 > cap {
            count = cap - start + 1;
        }
        let len = len_of(CODE, start as u64, K);
        kr.add(count, len);
        l += 1;
    }
    crate::cover!(s, kr.sum.hi > 0, "reached");
}

/// zeta_k: pieces are (h, short codewords) and (h, long codewords); lemma for symbolic n + exact sum
#[inline(always)]
fn zeta_piece(n: u64, k: usize) -> (u64, bool) {
    // (start of the sub-piece containing n, is_long)
    let h = spec::zeta_h(n, k);
    let lo = 1u128 << (h * k);
    let u = (1u128 << ((h + 1) * k)) - lo;
    let s = spec::mb_s(u);
    let thr = if s == 0 { 0 } else { (1u128 << s) - u };
    let x = (n as u128 + 1) - lo;
    if thr == 0 || x >= thr {
        (((lo + thr) - 1) as u64, true)
    } else {
        ((lo - 1) as u64, false)
    }
}
pub fn zeta_piece_lemma<S: Src, const KLO: usize, const KHI: usize>(s: &mut S) {
    let n = s.u64();
    let k = s.usize_in(KLO, KHI);
    s.assume(n <= NMAX + 1);
    s.assume((spec::zeta_h(n, k) + 1) * k <= 64);
    let (st, _) = zeta_piece(n, k);
    assert!(st <= n, "piece start");
    assert_eq!(len_zeta(n, k), len_zeta(st, k), "length differs inside a piece");
    crate::cover!(s, n - st > 1000, "deep inside a piece");
}
pub fn kraft_zeta<S: Src, const K: usize>(s: &mut S) {
    let mut kr = Kraft::new();
    let mut h = 0usize;
    while (h + 1) * K <= 64 {
        let lo = 1u128 << (h * K);
        let u = (1u128 << ((h + 1) * K)) - lo;
        let sb = spec::mb_s(u);
        let thr = if sb == 0 { 0 } else { (1u128 << sb) - u };
        // short codewords: values lo-1 .. lo+thr-2 ; long: lo+thr-1 .. lo+u-2
        let cap = (u64::MAX - 1) as u128;
        if thr > 0 {
            let st = lo - 1;
            if st <= cap {
                let mut cnt = thr;
                if st + cnt - 1 > cap {
                    cnt = cap - st + 1;
                }
                let len = len_zeta(st as u64, K);
                kr.add(cnt, len);
            }
        }
        let st = lo + thr - 1;
        if st <= cap {
            let mut cnt = u - thr;
            if st + cnt - 1 > cap {
                cnt = cap - st + 1;
            }
            let len = len_zeta(st as u64, K);
            kr.add(cnt, len);
        }
        h += 1;
    }
    crate::cover!(s, kr.sum.hi > 0, "reached");
}

/// VByte: 10 pieces [lower(L), lower(L+1))
pub fn vbyte_pieces<S: Src>(s: &mut S) {
    let n = s.u64();
    let l = spec::vbyte_bytes(n);
    assert_eq!(bit_len_vbyte(n), bit_len_vbyte(spec::VB_LOWER[l] as u64), "length differs inside a piece");
    assert_eq!(bit_len_vbyte(n), 8 * l, "length of piece L is 8L");
    let mut kr = Kraft::new();
    let mut j = 1;
    while j <= 10 {
        let lo = spec::VB_LOWER[j];
        let mut hi = spec::VB_LOWER[j + 1];
        if hi > u64::MAX as u128 + 1 {
            hi = u64::MAX as u128 + 1;
        }
        kr.add(hi - lo, 8 * j);
        j += 1;
    }
    crate::cover!(s, l == 10, "ten bytes");
}

/// unary-prefixed codes: len(n + b) == len(n) + 1 (symbolic n, b) ...
pub fn period_lemma<S: Src, const CODE: u8, const KHI: usize, const NB: u32>(s: &mut S) {
    let n = s.u64();
    let k = s.usize_in(if CODE == C_GOLOMB { 1 } else { 0 }, KHI);
    s.assume(n < (1u64 << NB));
    let b: u64 = if CODE == C_GOLOMB { k as u64 } else { 1u64 << k };
    assert_eq!(len_of(CODE, n + b, k), len_of(CODE, n, k) + 1, "length does not grow by one per period");
    crate::cover!(s, n > 1000, "large value");
}
/// ... and the exact Kraft sum of the first period [0, b) is 1/2 (so the series sums to 1)
pub fn golomb_first_period<S: Src, const BLO: u64, const BHI: u64>(s: &mut S) {
    let mut b = BLO;
    while b <= BHI {
        let mut sum: u128 = 0;
        let mut r = 0u64;
        while r < b {
            sum += 1u128 << (127 - len_golomb(r, b));
            r += 1;
        }
        assert!(sum == 1u128 << 126, "Kraft sum of the first Golomb period is not 1/2");
        b += 1;
    }
    crate::cover!(s, true, "reached");
}
pub fn rice_first_period<S: Src>(s: &mut S) {
    let k = s.usize_in(0, 63);
    let r = s.u64();
    s.assume(k == 0 || r < (1u64 << k));
    s.assume(k > 0 || r == 0);
    // every value of the first period has length k+1, there are 2^k of them: sum = 1/2
    assert_eq!(len_rice(r, k), k + 1, "first Rice period: length k+1");
    crate::cover!(s, k == 63, "largest parameter");
}

// ---------------------------------------------------------------- change-point iterator

/// first call yields (0, f(0))
pub fn fcp_first<S: Src>(s: &mut S) {
    let v0 = s.usize();
    s.assume(v0 < usize::MAX);
    let mut it = FindChangePoints::new(|_x: u64| v0);
    let r = it.next();
    assert!(r == Some((0, v0)), "the iterator must start with (0, f(0))");
    crate::cover!(s, true, "reached");
}

/// exactness of one next(): symbolic step function with change points b1 < b2, iterator at an
/// arbitrary state (current, f(current)) below b1, gap b1 - current < 2^GAP
pub fn fcp_exact<S: Src, const GAP: u32, const CURBITS: u32>(s: &mut S) {
    let b1 = s.u64();
    let b2 = s.u64();
    let v0 = s.usize();
    let v1 = s.usize();
    let v2 = s.usize();
    let cur = s.u64();
    s.assume(v0 < v1 && v1 < v2 && v2 < usize::MAX);
    s.assume(b1 < b2 && cur < b1 && b1 - cur < (1u64 << GAP));
    s.assume(CURBITS >= 64 || cur < (1u64 << CURBITS));
    s.assume(b1 <= (1u64 << 63));
    let f = move |x: u64| {
        if x < b1 {
            v0
        } else if x < b2 {
            v1
        } else {
            v2
        }
    };
    let mut it = FindChangePoints::verif_from_parts(f, cur, v0);
    let r = it.next();
    assert!(r == Some((b1, v1)), "next() must return the next change point with the new value (none skipped, none invented)");
    let (c, p) = it.verif_parts();
    assert!(c == b1 && p == v1, "iterator state after next()");
    crate::cover!(s, b1 - cur > (1u64 << (GAP - 1)), "distant change point");
    crate::cover!(s, b1 - cur == 1, "adjacent change point");
    crate::cover!(s, b2 - b1 == 1, "two adjacent change points");
}

/// termination: no further change point (function constant from `current` on) => next() returns
/// None, without arithmetic overflow, for every `current`
pub fn fcp_terminates<S: Src>(s: &mut S) {
    let cur = s.u64();
    let v = s.usize();
    s.assume(v < usize::MAX);
    s.assume(cur > 0);
    let mut it = FindChangePoints::verif_from_parts(move |_x: u64| v, cur, v);
    let r = it.next();
    assert!(r.is_none(), "no further change point exists: next() must return None");
    crate::cover!(s, cur < (1u64 << 62), "far from the end of the domain");
    crate::cover!(s, cur > (1u64 << 63), "close to the end of the domain");
}

/// near the top of the domain (steps beyond 2^63): next() must neither overflow nor loop, and may only
/// return a real change point (or None: beyond 2^63 change points may be missed)
pub fn fcp_high<S: Src, const BASE: u64>(s: &mut S) {
    let d = s.u64();
    let c = s.u64();
    let v0 = s.usize();
    let v1 = s.usize();
    s.assume(v0 < v1 && v1 < usize::MAX);
    s.assume(c < 1024 && d >= 1 && d < 64);
    let cur = BASE + c;
    s.assume(cur < u64::MAX - 64);
    let b1 = cur + d;
    let f = move |x: u64| if x < b1 { v0 } else { v1 };
    let mut it = FindChangePoints::verif_from_parts(f, cur, v0);
    let r = it.next();
    assert!(r.is_none() || r == Some((b1, v1)), "next() returned something that is not the next change point");
    assert!(r.is_some() || b1 > (1u64 << 63) || u64::MAX - cur <= 64, "a change point below 2^63 was missed");
    crate::cover!(s, r.is_some(), "change point found");
}

crate::harnesses! {
    c20_mono_gamma (quick, "len_gamma", "n<=2^64-3") => monotone::<_, {C_GAMMA}, 0, 0, 64>;
    c20_mono_delta (quick, "len_delta", "n<=2^64-3") => monotone::<_, {C_DELTA}, 0, 0, 64>;
    #[kani::unwind(8)]
    c20_mono_omega (quick, "len_omega", "n<=2^64-3") => monotone::<_, {C_OMEGA}, 0, 0, 64>;
    #[kani::unwind(13)]
    c20_mono_vbyte (quick, "bit_len_vbyte", "n<=2^64-3") => monotone::<_, {C_VBYTE}, 0, 0, 64>;
    c20_mono_zeta (quick, "len_zeta", "k in 1..=63 symbolic, n<=2^64-3") => monotone::<_, {C_ZETA}, 1, 63, 64>;
    c20_mono_pi (quick, "len_pi", "k in 0..=63 symbolic, n<=2^64-3") => monotone::<_, {C_PI}, 0, 63, 64>;
    c20_mono_expgolomb (quick, "len_exp_golomb", "k in 0..=63 symbolic, n<=2^64-3") => monotone::<_, {C_EXPG}, 0, 63, 64>;
    c20_mono_rice (quick, "len_rice", "k in 0..=63 symbolic, n>>k < 2^40") => monotone::<_, {C_RICE}, 0, 63, 64>;
    c20_mono_golomb (quick, "len_golomb", "b in 1..=16 symbolic, n<2^16") => monotone::<_, {C_GOLOMB}, 1, 16, 16>;
    c20_mono_golomb_b64 (thorough, "len_golomb", "b in 1..=64 symbolic, n<2^32") => monotone::<_, {C_GOLOMB}, 1, 64, 32>;
    c20_mono_minbin (quick, "len_minimal_binary", "u symbolic (any u64>=2), n+1<u") => monotone::<_, {C_MINBIN}, 2, {usize::MAX}, 64>;
    #[kani::unwind(8)]
    c20_piece_gamma (quick, "len of gamma", "length constant on each piece; n<=2^64-2, parameter 0..=0 symbolic") => piece_lemma::<_, {C_GAMMA}, 0, 0>;
    #[kani::unwind(8)]
    c20_piece_delta (quick, "len of delta", "length constant on each piece; n<=2^64-2, parameter 0..=0 symbolic") => piece_lemma::<_, {C_DELTA}, 0, 0>;
    #[kani::unwind(8)]
    c20_piece_omega (quick, "len of omega", "length constant on each piece; n<=2^64-2, parameter 0..=0 symbolic") => piece_lemma::<_, {C_OMEGA}, 0, 0>;
    #[kani::unwind(8)]
    c20_piece_pi (quick, "len of pi", "length constant on each piece; n<=2^64-2, parameter 0..=63 symbolic") => piece_lemma::<_, {C_PI}, 0, 63>;
    #[kani::unwind(8)]
    c20_piece_expgolomb (quick, "len of expgolomb", "length constant on each piece; n<=2^64-2, parameter 0..=63 symbolic") => piece_lemma::<_, {C_EXPG}, 0, 63>;
    #[kani::unwind(66)]
    c20_kraft_gamma0 (quick, "gamma parameter 0", "exact Kraft sum over all pieces of the 64-bit domain (library length at each piece start, 2^-127 fixed point)") => kraft_log_pieces::<_, {C_GAMMA}, 0>;
    #[kani::unwind(66)]
    c20_kraft_delta0 (quick, "delta parameter 0", "exact Kraft sum over all pieces of the 64-bit domain (library length at each piece start, 2^-127 fixed point)") => kraft_log_pieces::<_, {C_DELTA}, 0>;
    #[kani::unwind(66)]
    c20_kraft_omega0 (quick, "omega parameter 0", "exact Kraft sum over all pieces of the 64-bit domain (library length at each piece start, 2^-127 fixed point)") => kraft_log_pieces::<_, {C_OMEGA}, 0>;
    #[kani::unwind(66)]
    c20_kraft_pi0 (quick, "pi parameter 0", "exact Kraft sum over all pieces of the 64-bit domain (library length at each piece start, 2^-127 fixed point)") => kraft_log_pieces::<_, {C_PI}, 0>;
    #[kani::unwind(66)]
    c20_kraft_pi1 (quick, "pi parameter 1", "exact Kraft sum over all pieces of the 64-bit domain (library length at each piece start, 2^-127 fixed point)") => kraft_log_pieces::<_, {C_PI}, 1>;
    #[kani::unwind(66)]
    c20_kraft_pi2 (quick, "pi parameter 2", "exact Kraft sum over all pieces of the 64-bit domain (library length at each piece start, 2^-127 fixed point)") => kraft_log_pieces::<_, {C_PI}, 2>;
    #[kani::unwind(66)]
    c20_kraft_pi3 (quick, "pi parameter 3", "exact Kraft sum over all pieces of the 64-bit domain (library length at each piece start, 2^-127 fixed point)") => kraft_log_pieces::<_, {C_PI}, 3>;
    #[kani::unwind(66)]
    c20_kraft_pi8 (thorough, "pi parameter 8", "exact Kraft sum over all pieces of the 64-bit domain (library length at each piece start, 2^-127 fixed point)") => kraft_log_pieces::<_, {C_PI}, 8>;
    #[kani::unwind(66)]
    c20_kraft_pi16 (thorough, "pi parameter 16", "exact Kraft sum over all pieces of the 64-bit domain (library length at each piece start, 2^-127 fixed point)") => kraft_log_pieces::<_, {C_PI}, 16>;
    #[kani::unwind(66)]
    c20_kraft_expgolomb0 (quick, "expgolomb parameter 0", "exact Kraft sum over all pieces of the 64-bit domain (library length at each piece start, 2^-127 fixed point)") => kraft_log_pieces::<_, {C_EXPG}, 0>;
    #[kani::unwind(66)]
    c20_kraft_expgolomb1 (quick, "expgolomb parameter 1", "exact Kraft sum over all pieces of the 64-bit domain (library length at each piece start, 2^-127 fixed point)") => kraft_log_pieces::<_, {C_EXPG}, 1>;
    #[kani::unwind(66)]
    c20_kraft_expgolomb3 (quick, "expgolomb parameter 3", "exact Kraft sum over all pieces of the 64-bit domain (library length at each piece start, 2^-127 fixed point)") => kraft_log_pieces::<_, {C_EXPG}, 3>;
    #[kani::unwind(66)]
    c20_kraft_expgolomb8 (thorough, "expgolomb parameter 8", "exact Kraft sum over all pieces of the 64-bit domain (library length at each piece start, 2^-127 fixed point)") => kraft_log_pieces::<_, {C_EXPG}, 8>;
    #[kani::unwind(66)]
    c20_kraft_expgolomb16 (thorough, "expgolomb parameter 16", "exact Kraft sum over all pieces of the 64-bit domain (library length at each piece start, 2^-127 fixed point)") => kraft_log_pieces::<_, {C_EXPG}, 16>;
    c20_piece_zeta (quick, "len_zeta", "k in 1..=16 symbolic, where (h+1)k<=64") => zeta_piece_lemma::<_, 1, 16>;
    c20_piece_zeta_wide (thorough, "len_zeta", "k in 17..=63 symbolic, where (h+1)k<=64") => zeta_piece_lemma::<_, 17, 63>;
    #[kani::unwind(66)]
    c20_kraft_zeta1 (quick, "zeta_1", "exact Kraft sum over all (h, short/long) pieces with (h+1)k<=64") => kraft_zeta::<_, 1>;
    #[kani::unwind(66)]
    c20_kraft_zeta2 (quick, "zeta_2", "exact Kraft sum over all (h, short/long) pieces with (h+1)k<=64") => kraft_zeta::<_, 2>;
    #[kani::unwind(66)]
    c20_kraft_zeta3 (quick, "zeta_3", "exact Kraft sum over all (h, short/long) pieces with (h+1)k<=64") => kraft_zeta::<_, 3>;
    #[kani::unwind(66)]
    c20_kraft_zeta4 (quick, "zeta_4", "exact Kraft sum over all (h, short/long) pieces with (h+1)k<=64") => kraft_zeta::<_, 4>;
    #[kani::unwind(66)]
    c20_kraft_zeta5 (thorough, "zeta_5", "exact Kraft sum over all (h, short/long) pieces with (h+1)k<=64") => kraft_zeta::<_, 5>;
    #[kani::unwind(66)]
    c20_kraft_zeta6 (thorough, "zeta_6", "exact Kraft sum over all (h, short/long) pieces with (h+1)k<=64") => kraft_zeta::<_, 6>;
    #[kani::unwind(66)]
    c20_kraft_zeta7 (quick, "zeta_7", "exact Kraft sum over all (h, short/long) pieces with (h+1)k<=64") => kraft_zeta::<_, 7>;
    #[kani::unwind(66)]
    c20_kraft_zeta8 (thorough, "zeta_8", "exact Kraft sum over all (h, short/long) pieces with (h+1)k<=64") => kraft_zeta::<_, 8>;
    #[kani::unwind(66)]
    c20_kraft_zeta10 (thorough, "zeta_10", "exact Kraft sum over all (h, short/long) pieces with (h+1)k<=64") => kraft_zeta::<_, 10>;
    #[kani::unwind(66)]
    c20_kraft_zeta16 (thorough, "zeta_16", "exact Kraft sum over all (h, short/long) pieces with (h+1)k<=64") => kraft_zeta::<_, 16>;
    #[kani::unwind(13)]
    c20_vbyte_pieces (quick, "bit_len_vbyte", "length constant on each of the 10 pieces (symbolic n) and exact Kraft sum") => vbyte_pieces;
    c20_period_rice (quick, "len_rice", "len(n+2^k)=len(n)+1, k in 0..=20 symbolic, n<2^40") => period_lemma::<_, {C_RICE}, 20, 40>;
    c20_period_golomb (quick, "len_golomb", "len(n+b)=len(n)+1, b in 1..=16 symbolic, n<2^16") => period_lemma::<_, {C_GOLOMB}, 16, 16>;
    c20_period_golomb_b64 (thorough, "len_golomb", "len(n+b)=len(n)+1, b in 1..=64 symbolic, n<2^32") => period_lemma::<_, {C_GOLOMB}, 64, 32>;
    c20_rice_first_period (quick, "len_rice", "first period has 2^k values of length k+1 (k symbolic 0..=63)") => rice_first_period;
    #[kani::unwind(27)]
    c20_golomb_first_period_1_24 (quick, "len_golomb", "exact Kraft sum of the first period == 1/2 for b in 1..=24 (concrete loops)") => golomb_first_period::<_, 1, 24>;
    #[kani::unwind(67)]
    c20_golomb_first_period_25_64 (thorough, "len_golomb", "exact Kraft sum of the first period == 1/2 for b in 25..=64 (concrete loops)") => golomb_first_period::<_, 25, 64>;
    c20_fcp_first (quick, "FindChangePoints::next (first call)", "any constant function") => fcp_first;
    #[kani::unwind(9)]
    c20_fcp_exact_5 (thorough, "FindChangePoints::next from an arbitrary state", "symbolic step function (2 change points, symbolic values), gap to the next change point < 2^5") => fcp_exact::<_, 5, 64>;
    #[kani::unwind(67)]
    c20_fcp_terminates (quick, "FindChangePoints::next from an arbitrary state", "function constant from current on, any current > 0 (full width)") => fcp_terminates;
    #[kani::unwind(12)]
    c20_fcp_exact_8_cur0 (quick, "FindChangePoints::next from the state after the first item", "symbolic step function, current = 0, first change point < 2^8") => fcp_exact::<_, 8, 0>;
    #[kani::unwind(12)]
    c20_fcp_exact_8_cur16 (thorough, "FindChangePoints::next from an arbitrary state", "symbolic step function, current < 2^16, gap < 2^8") => fcp_exact::<_, 8, 16>;
    #[kani::unwind(10)]
    c20_fcp_high_62 (quick, "FindChangePoints::next from a state just above 2^62", "current = 2^62 + c, c < 1024; one change point at distance < 64: found, no overflow") => fcp_high::<_, {1u64 << 62}>;
    #[kani::unwind(10)]
    c20_fcp_high_63 (quick, "FindChangePoints::next from a state around 2^63", "current = 2^63 - 512 + c, c < 1024; one change point at distance < 64: no overflow, no invented point") => fcp_high::<_, {(1u64 << 63) - 512}>;
    #[kani::unwind(10)]
    c20_fcp_high_64 (quick, "FindChangePoints::next from a state next to 2^64", "current = 2^64 - 2048 + c, c < 1024; one change point at distance < 64: no overflow, no invented point") => fcp_high::<_, {u64::MAX - 2047}>;
    #[kani::unwind(16)]
    c20_fcp_exact_12_cur0 (thorough, "FindChangePoints::next from the state after the first item", "symbolic step function, current = 0, first change point < 2^12") => fcp_exact::<_, 12, 0>;
}
