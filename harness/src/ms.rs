//! `MS<E, T>` — the model stream (DESIGN §2.2): a 256-bit bit string with a
//! write length and a read cursor implementing the library's own
//! `BitWrite<E>` / `BitRead<E>` in the most direct way (mask, shift, append),
//! so that the REAL generic codec code of `src/codes/*.rs` runs on it
//! unmodified. `T` selects the table option used by the parameterless traits.
//!
//! Preconditions of the bit-stream traits are asserted at every call
//! (`n <= 64`, `1 <= n <= 64` for peeks), so a caller that violates them is
//! caught at the call.

use crate::model::En;
use core::convert::Infallible;
use dsi_bitstream::prelude::*;

#[derive(Clone, Copy, PartialEq, Eq, Debug)]
pub struct U256 {
    pub hi: u128,
    pub lo: u128,
}

impl U256 {
    pub const ZERO: U256 = U256 { hi: 0, lo: 0 };
    #[inline(always)]
    pub fn from_u64(v: u64) -> Self {
        U256 { hi: 0, lo: v as u128 }
    }
    #[inline(always)]
    pub fn shl(self, s: usize) -> Self {
        if s == 0 {
            self
        } else if s >= 256 {
            U256::ZERO
        } else if s >= 128 {
            U256 { hi: self.lo << (s - 128), lo: 0 }
        } else {
            U256 { hi: (self.hi << s) | (self.lo >> (128 - s)), lo: self.lo << s }
        }
    }
    #[inline(always)]
    pub fn shr(self, s: usize) -> Self {
        if s == 0 {
            self
        } else if s >= 256 {
            U256::ZERO
        } else if s >= 128 {
            U256 { hi: 0, lo: self.hi >> (s - 128) }
        } else {
            U256 { hi: self.hi >> s, lo: (self.lo >> s) | (self.hi << (128 - s)) }
        }
    }
    #[inline(always)]
    pub fn or(self, o: Self) -> Self {
        U256 { hi: self.hi | o.hi, lo: self.lo | o.lo }
    }
    #[inline(always)]
    pub fn bit(self, i: usize) -> bool {
        if i >= 128 {
            (self.hi >> (i - 128)) & 1 == 1
        } else {
            (self.lo >> i) & 1 == 1
        }
    }
    #[inline(always)]
    pub fn low64(self) -> u64 {
        self.lo as u64
    }
    #[inline(always)]
    pub fn leading_zeros(self) -> usize {
        if self.hi != 0 {
            self.hi.leading_zeros() as usize
        } else {
            128 + self.lo.leading_zeros() as usize
        }
    }
    #[inline(always)]
    pub fn trailing_zeros(self) -> usize {
        if self.lo != 0 {
            self.lo.trailing_zeros() as usize
        } else {
            128 + self.hi.trailing_zeros() as usize
        }
    }
}

#[inline(always)]
pub fn mask64(n: usize) -> u64 {
    if n >= 64 {
        u64::MAX
    } else {
        (1u64 << n) - 1
    }
}

/// Model stream. BE streams keep stream bit `i` at U256 bit `255-i`, LE
/// streams at U256 bit `i`, so that a field is one shift in both cases.
#[derive(Clone, Debug)]
pub struct MS<E: En, const T: bool> {
    pub bits: U256,
    pub wlen: usize,
    pub rpos: usize,
    pub flushes: usize,
    /// when set, `write_bits` asserts that the argument has no bits at or above `n`
    /// (what the library's `checks` feature enforces on the real writers)
    pub require_clean: bool,
    _m: core::marker::PhantomData<E>,
}

pub const CAP: usize = 256;

impl<E: En, const T: bool> MS<E, T> {
    pub fn new() -> Self {
        Self {
            bits: U256::ZERO,
            wlen: 0,
            rpos: 0,
            flushes: 0,
            require_clean: false,
            _m: core::marker::PhantomData,
        }
    }
    /// stream bit `i`
    #[inline(always)]
    pub fn bit(&self, i: usize) -> bool {
        if i >= CAP {
            return false;
        }
        if E::BE {
            self.bits.bit(255 - i)
        } else {
            self.bits.bit(i)
        }
    }
    /// The same stream seen from bit `off`: content shifted so that stream bit `off` becomes bit 0.
    /// Reading `self` at cursor `off` and reading the rebased stream at cursor 0 are the same thing
    /// by construction of `look`/`read_unary` (lemma checked by c03_ms_rebase_*).
    pub fn rebased(&self, off: usize) -> Self {
        assert!(off <= self.wlen);
        let mut r = Self::new();
        r.bits = if E::BE { self.bits.shl(off) } else { self.bits.shr(off) };
        r.wlen = self.wlen - off;
        r.rpos = 0;
        r.require_clean = self.require_clean;
        r
    }
    #[inline(always)]
    fn put(&mut self, v: u64, n: usize) {
        assert!(n <= 64, "BitWrite::write_bits precondition n <= 64 violated by the caller");
        assert!(self.wlen + n <= CAP, "model stream capacity (256 bits) exceeded: harness bound too small");
        if self.require_clean {
            assert!(n == 64 || v >> n == 0, "write_bits called with bits set at or above n (would panic with feature `checks`)");
        }
        if n == 0 {
            return;
        }
        let m = U256::from_u64(v & mask64(n));
        if E::BE {
            self.bits = self.bits.or(m.shl(CAP - self.wlen - n));
        } else {
            self.bits = self.bits.or(m.shl(self.wlen));
        }
        self.wlen += n;
    }
    #[inline(always)]
    fn look(&self, n: usize) -> u64 {
        // next n bits (n <= 64) from rpos as a field; bits beyond CAP read as zero
        if n == 0 {
            return 0;
        }
        if E::BE {
            self.bits.shl(self.rpos).shr(CAP - n).low64() & mask64(n)
        } else {
            self.bits.shr(self.rpos).low64() & mask64(n)
        }
    }
}

impl<E: En, const T: bool> BitWrite<E> for MS<E, T> {
    type Error = Infallible;
    #[inline(always)]
    fn write_bits(&mut self, value: u64, n: usize) -> Result<usize, Infallible> {
        self.put(value, n);
        Ok(n)
    }
    #[inline(always)]
    fn write_unary(&mut self, value: u64) -> Result<usize, Infallible> {
        assert!(value < (CAP - self.wlen) as u64, "model stream capacity (256 bits) exceeded by a unary code: harness bound too small");
        self.wlen += value as usize;
        self.put(1, 1);
        Ok(value as usize + 1)
    }
    #[inline(always)]
    fn flush(&mut self) -> Result<usize, Infallible> {
        self.flushes += 1;
        Ok(0)
    }
}

impl<E: En, const T: bool> BitRead<E> for MS<E, T> {
    type Error = Infallible;
    type PeekWord = u64;
    #[inline(always)]
    fn read_bits(&mut self, n: usize) -> Result<u64, Infallible> {
        assert!(n <= 64, "BitRead::read_bits precondition n <= 64 violated by the caller");
        assert!(self.rpos + n <= self.wlen, "read beyond the end of the model stream");
        let v = self.look(n);
        self.rpos += n;
        Ok(v)
    }
    #[inline(always)]
    fn peek_bits(&mut self, n: usize) -> Result<u64, Infallible> {
        assert!(n >= 1 && n <= 64, "BitRead::peek_bits precondition 1 <= n <= PeekWord::BITS violated by the caller");
        assert!(self.rpos <= self.wlen, "cursor beyond the end of the model stream");
        Ok(self.look(n))
    }
    #[inline(always)]
    fn skip_bits(&mut self, n: usize) -> Result<(), Infallible> {
        assert!(self.rpos + n <= self.wlen, "skip beyond the end of the model stream");
        self.rpos += n;
        Ok(())
    }
    #[inline(always)]
    fn skip_bits_after_peek(&mut self, n: usize) {
        assert!(self.rpos + n <= self.wlen, "skip_bits_after_peek beyond the end of the model stream");
        self.rpos += n;
    }
    #[inline(always)]
    fn read_unary(&mut self) -> Result<u64, Infallible> {
        let z = if E::BE {
            self.bits.shl(self.rpos).leading_zeros()
        } else {
            self.bits.shr(self.rpos).trailing_zeros()
        };
        assert!(self.rpos + z < self.wlen, "read_unary: no terminating one inside the model stream");
        self.rpos += z + 1;
        Ok(z as u64)
    }
}

impl<E: En, const T: bool> BitSeek for MS<E, T> {
    type Error = Infallible;
    fn bit_pos(&mut self) -> Result<u64, Infallible> {
        Ok(self.rpos as u64)
    }
    fn set_bit_pos(&mut self, p: u64) -> Result<(), Infallible> {
        assert!(p as usize <= self.wlen);
        self.rpos = p as usize;
        Ok(())
    }
}

macro_rules! impl_paramless {
    ($e:ty) => {
        impl<const T: bool> GammaRead<$e> for MS<$e, T> {
            #[inline(always)]
            fn read_gamma(&mut self) -> Result<u64, Infallible> {
                self.read_gamma_param::<T>()
            }
        }
        impl<const T: bool> GammaWrite<$e> for MS<$e, T> {
            #[inline(always)]
            fn write_gamma(&mut self, n: u64) -> Result<usize, Infallible> {
                self.write_gamma_param::<T>(n)
            }
        }
        impl<const T: bool> DeltaRead<$e> for MS<$e, T> {
            #[inline(always)]
            fn read_delta(&mut self) -> Result<u64, Infallible> {
                self.read_delta_param::<T, T>()
            }
        }
        impl<const T: bool> DeltaWrite<$e> for MS<$e, T> {
            #[inline(always)]
            fn write_delta(&mut self, n: u64) -> Result<usize, Infallible> {
                self.write_delta_param::<T, T>(n)
            }
        }
        impl<const T: bool> ZetaRead<$e> for MS<$e, T> {
            #[inline(always)]
            fn read_zeta(&mut self, k: usize) -> Result<u64, Infallible> {
                self.read_zeta_param(k)
            }
            #[inline(always)]
            fn read_zeta3(&mut self) -> Result<u64, Infallible> {
                self.read_zeta3_param::<T>()
            }
        }
        impl<const T: bool> ZetaWrite<$e> for MS<$e, T> {
            #[inline(always)]
            fn write_zeta(&mut self, n: u64, k: usize) -> Result<usize, Infallible> {
                self.write_zeta_param::<T>(n, k)
            }
            #[inline(always)]
            fn write_zeta3(&mut self, n: u64) -> Result<usize, Infallible> {
                self.write_zeta3_param::<T>(n)
            }
        }
    };
}
impl_paramless!(BE);
impl_paramless!(LE);
