//! C02 — bit readers return exactly the stream's bits (DESIGN §3 C02); the
//! same step harnesses assert `bit_pos()` (C07).
//!
//! Inductive step from an arbitrary `Inv_r` state of the real reader:
//! `0 <= n <= 2W-1` buffered bits, every buffer bit outside the valid window
//! zero, backend cursor `pos` with `pos*W >= n`. The abstract stream seen
//! from the current position is: the `n` valid buffer bits, then the backend
//! words from `pos` on (zeros beyond the data for the zero-extending backend).

use crate::model::*;
use crate::src::Src;
use common_traits::{CastableInto, DoubleType};
use core::convert::Infallible;
use dsi_bitstream::prelude::*;

pub type Bb<W> = <W as DoubleType>::DoubleType;
pub type Mr<W, const K: usize> = MemWordReader<W, [W; K]>;
pub type Rd<E, W, const K: usize> = BufBitReader<E, Mr<W, K>>;

/// Symbolic reader pre-state and the abstract stream it denotes.
pub struct RState<W: VW + DoubleType, const K: usize>
where
    Bb<W>: VW,
{
    pub data: [W; K],
    pub pos: usize,
    pub buffer: Bb<W>,
    pub n: usize,
}

#[inline(always)]
pub fn any_array<W: VW, S: Src, const K: usize>(s: &mut S) -> [W; K] {
    let mut a = [W::ZERO; K];
    // K is a constant <= 12: written without a loop so that no unwind bound is involved
    macro_rules! f {
        ($($i:literal)*) => { $( if $i < K { a[$i] = W::any(s); } )* };
    }
    f!(0 1 2 3 4 5 6 7 8 9 10 11);
    assert!(K <= 12);
    a
}

/// valid-window predicate of the reader buffer (Inv_r part 2)
#[inline(always)]
pub fn window_clean<E: En, W: VW + DoubleType>(buffer: Bb<W>, n: usize) -> bool
where
    Bb<W>: VW,
{
    let b = buffer.to_u128();
    let bits = 2 * W::NBITS;
    if n == 0 {
        return b == 0;
    }
    if E::BE {
        // valid bits are the top n of the 2W-bit buffer
        if n >= bits {
            true
        } else {
            b & ((1u128 << (bits - n)) - 1) == 0
        }
    } else if n >= 128 {
        true
    } else {
        b >> n == 0
    }
}

impl<W: VW + DoubleType, const K: usize> RState<W, K>
where
    Bb<W>: VW,
{
    /// arbitrary Inv_r state, at most `nmax` buffered bits
    pub fn any<E: En, S: Src>(s: &mut S, nmax: usize) -> Self {
        let data = any_array::<W, S, K>(s);
        let pos = s.usize_in(0, K);
        let n = s.usize_in(0, nmax);
        let buffer = <Bb<W> as VW>::any(s);
        s.assume(window_clean::<E, W>(buffer, n));
        s.assume(pos * W::NBITS >= n);
        Self { data, pos, buffer, n }
    }

    /// j-th upcoming stream bit
    #[inline(always)]
    pub fn stream_bit<E: En>(&self, j: usize) -> bool {
        if j < self.n {
            let p = if E::BE { 2 * W::NBITS - 1 - j } else { j };
            (self.buffer.to_u128() >> p) & 1 == 1
        } else {
            let a = self.pos * W::NBITS + (j - self.n);
            if a / W::NBITS < K {
                img_bit::<E, W>(&self.data, a)
            } else {
                false // zero extension
            }
        }
    }

    pub fn bit_pos(&self) -> u64 {
        (self.pos * W::NBITS - self.n) as u64
    }

    pub fn reader<E: En>(&self) -> Rd<E, W, K> {
        let mut b = MemWordReader::new(self.data);
        b.set_word_pos(self.pos as u64).unwrap();
        BufBitReader::<E, _>::verif_from_parts(b, self.buffer, self.n)
    }

    /// Post-state check: Inv_r holds, the reader sits exactly `adv` bits
    /// further, and every still-buffered bit equals the stream bit at its new
    /// offset (nondeterministic index `t`).
    pub fn check_post<E: En>(&self, r: &mut Rd<E, W, K>, adv: usize, t: usize)
    where
        Rd<E, W, K>: BitSeek<Error = Infallible>,
    {
        let (nb, nn) = r.verif_parts();
        assert!(nn <= 2 * W::NBITS - 1, "Inv_r: bits_in_buffer < 2W");
        assert!(window_clean::<E, W>(nb, nn), "Inv_r: buffer bits outside the valid window must be zero");
        let npos = r.verif_backend().clone().word_pos().unwrap() as usize;
        assert!(npos * W::NBITS >= nn, "Inv_r: cursor consistent");
        assert_eq!(npos * W::NBITS - nn, self.pos * W::NBITS - self.n + adv, "reader advanced by exactly the bits consumed");
        assert_eq!(r.bit_pos().unwrap(), self.bit_pos() + adv as u64, "bit_pos() is exact");
        if t < nn {
            let p = if E::BE { 2 * W::NBITS - 1 - t } else { t };
            let got = (nb.to_u128() >> p) & 1 == 1;
            assert_eq!(got, self.stream_bit::<E>(adv + t), "buffered bit differs from the stream");
        }
    }
}

pub trait RdOk<E: En, W: VW + DoubleType, const K: usize>:
    BitRead<E, Error = Infallible, PeekWord = Bb<W>> + BitSeek<Error = Infallible>
where
    Bb<W>: VW,
{
}
impl<E: En, W: VW + DoubleType, const K: usize, T> RdOk<E, W, K> for T
where
    Bb<W>: VW,
    T: BitRead<E, Error = Infallible, PeekWord = Bb<W>> + BitSeek<Error = Infallible>,
{
}

pub fn read_bits_step<E: En, W: VW + DoubleType, S: Src, const K: usize>(s: &mut S)
where
    Bb<W>: VW,
    Rd<E, W, K>: RdOk<E, W, K>,
{
    let st = RState::<W, K>::any::<E, S>(s, 2 * W::NBITS - 1);
    let m = s.usize_in(0, 64);
    let j = s.usize();
    let t = s.usize();
    s.assume(m == 0 || j < m);
    let mut r = st.reader::<E>();
    let v = r.read_bits(m).unwrap();
    assert!(m == 64 || v >> m == 0, "bits above n must be zero");
    if m > 0 {
        assert_eq!(field_bit::<E>(v, m, j), st.stream_bit::<E>(j), "read_bits value differs from the stream");
    }
    st.check_post::<E>(&mut r, m, t);
    crate::cover!(s, m > st.n + W::NBITS || (W::NBITS == 64 && m > st.n), "read spans more than one fresh word");
    crate::cover!(s, m > 0 && m <= st.n, "read served from the buffer");
    crate::cover!(s, st.n > W::NBITS, "more than one word buffered");
}

pub fn peek_bits_step<E: En, W: VW + DoubleType, S: Src, const K: usize>(s: &mut S)
where
    Bb<W>: VW,
    Rd<E, W, K>: RdOk<E, W, K>,
{
    let st = RState::<W, K>::any::<E, S>(s, 2 * W::NBITS - 1);
    let m = s.usize_in(1, W::NBITS);
    let j = s.usize();
    let t = s.usize();
    let sk = s.usize_in(0, m);
    s.assume(j < m);
    let mut r = st.reader::<E>();
    let v = r.peek_bits(m).unwrap().to_u128();
    assert!(v >> m == 0, "bits above n must be zero");
    let fb = (v >> (if E::BE { m - 1 - j } else { j })) & 1 == 1;
    assert_eq!(fb, st.stream_bit::<E>(j), "peek_bits value differs from the stream");
    st.check_post::<E>(&mut r, 0, t);
    // repeatable
    let v2 = r.peek_bits(m).unwrap().to_u128();
    assert_eq!(v, v2, "peek is repeatable");
    st.check_post::<E>(&mut r, 0, t);
    // skip after peek
    r.skip_bits_after_peek(sk);
    st.check_post::<E>(&mut r, sk, t);
    crate::cover!(s, m > st.n, "peek refills");
    crate::cover!(s, m <= st.n, "peek served from the buffer");
}

/// "first `off` stream bits of backend word are zero"
#[inline(always)]
fn stream_val<E: En, W: VW>(w: W) -> u128 {
    // the word's W stream bits as an integer, stream bit 0 most significant (BE) /
    // least significant (LE); BE = big-endian reading of the memory bytes
    if E::BE {
        let mut v = 0u128;
        let x = w.to_u128();
        let nb = W::NBITS / 8;
        macro_rules! f { ($($i:literal)*) => { $( if $i < nb { v = (v << 8) | ((x >> (8 * $i)) & 0xff); } )* }; }
        f!(0 1 2 3 4 5 6 7 8 9 10 11 12 13 14 15);
        v
    } else {
        w.to_u128()
    }
}

#[inline(always)]
pub fn word_prefix_zero<E: En, W: VW>(w: W, off: usize) -> bool {
    if off == 0 {
        return true;
    }
    let v = stream_val::<E, W>(w);
    if E::BE {
        v >> (W::NBITS - off) == 0
    } else {
        v & ((1u128 << off) - 1) == 0
    }
}

/// model self-check: stream_val agrees with the canonical per-bit layout
pub fn model_stream_val<E: En, W: VW, S: Src>(s: &mut S) {
    let w = W::any(s);
    let j = s.usize_in(0, W::NBITS - 1);
    let v = stream_val::<E, W>(w);
    let b = if E::BE { (v >> (W::NBITS - 1 - j)) & 1 == 1 } else { (v >> j) & 1 == 1 };
    assert_eq!(b, img_bit_of_word::<E>(w.to_u128(), j), "stream_val consistent with canonical layout");
    crate::cover!(s, j > 8, "beyond the first byte");
}

/// read_unary with the terminating one within the buffer or the next two words.
pub fn read_unary_step<E: En, W: VW + DoubleType, S: Src, const K: usize>(s: &mut S)
where
    Bb<W>: VW,
    Rd<E, W, K>: RdOk<E, W, K>,
{
    let st = RState::<W, K>::any::<E, S>(s, 2 * W::NBITS - 1);
    let t = s.usize();
    // the expected result r is a guess constrained to be the position of the first one
    let r_exp = s.usize_in(0, st.n + 3 * W::NBITS - 1);
    s.assume(st.stream_bit::<E>(r_exp));
    let dz = |i: usize| if st.pos + i < K { st.data[st.pos + i] } else { W::ZERO };
    if r_exp < st.n {
        // first r_exp buffered bits are zero
        let b = st.buffer.to_u128();
        if r_exp > 0 {
            if E::BE {
                s.assume(b >> (2 * W::NBITS - r_exp) == 0);
            } else {
                s.assume(b & ((1u128 << r_exp) - 1) == 0);
            }
        }
    } else {
        s.assume(st.buffer.to_u128() == 0);
        let q = (r_exp - st.n) / W::NBITS;
        let off = (r_exp - st.n) % W::NBITS;
        s.assume(q < 1 || dz(0) == W::ZERO);
        s.assume(q < 2 || dz(1) == W::ZERO);
        s.assume(word_prefix_zero::<E, W>(dz(q), off));
    }
    let mut r = st.reader::<E>();
    let v = r.read_unary().unwrap();
    assert_eq!(v, r_exp as u64, "read_unary returns the number of zeros before the first one");
    st.check_post::<E>(&mut r, r_exp + 1, t);
    crate::cover!(s, r_exp >= st.n + W::NBITS, "run crosses a whole zero word");
    crate::cover!(s, r_exp < st.n, "one found in the buffer");
}

pub fn skip_bits_step<E: En, W: VW + DoubleType, S: Src, const K: usize>(s: &mut S)
where
    Bb<W>: VW,
    Rd<E, W, K>: RdOk<E, W, K>,
{
    let st = RState::<W, K>::any::<E, S>(s, 2 * W::NBITS - 1);
    let m = s.usize_in(0, 2 * W::NBITS + 64);
    let t = s.usize();
    let mut r = st.reader::<E>();
    r.skip_bits(m).unwrap();
    st.check_post::<E>(&mut r, m, t);
    crate::cover!(s, m > st.n + W::NBITS, "skip crosses whole words");
    crate::cover!(s, m <= st.n && m > 0, "skip inside the buffer");
}

/// a clone continues identically and independently
pub fn clone_step<E: En, W: VW + DoubleType, S: Src, const K: usize>(s: &mut S)
where
    Bb<W>: VW,
    Rd<E, W, K>: RdOk<E, W, K>,
{
    let st = RState::<W, K>::any::<E, S>(s, 2 * W::NBITS - 1);
    let m = s.usize_in(0, 64);
    let t = s.usize();
    let mut r = st.reader::<E>();
    let mut c = r.clone();
    let a = c.read_bits(m).unwrap();
    // the original is untouched by what the clone did
    let (b0, n0) = r.verif_parts();
    assert!(b0 == st.buffer && n0 == st.n, "original unchanged by operation on the clone");
    st.check_post::<E>(&mut r, 0, t);
    let b = r.read_bits(m).unwrap();
    assert_eq!(a, b, "clone and original read the same value");
    st.check_post::<E>(&mut c, m, t);
    st.check_post::<E>(&mut r, m, t);
    crate::cover!(s, m > st.n, "read refills");
}

// ---------------------------------------------------------------- unbuffered reader

pub type Ub<E, const K: usize> = BitReader<E, MemWordReader<u64, [u64; K]>>;

pub struct UState<const K: usize> {
    pub data: [u64; K],
    pub p: u64,
}

impl<const K: usize> UState<K> {
    pub fn any<S: Src>(s: &mut S) -> Self {
        let data = any_array::<u64, S, K>(s);
        let p = s.u64_in(0, (K * 64) as u64);
        Self { data, p }
    }
    #[inline(always)]
    pub fn stream_bit<E: En>(&self, j: usize) -> bool {
        let a = self.p as usize + j;
        if a / 64 < K {
            img_bit::<E, u64>(&self.data, a)
        } else {
            false
        }
    }
    pub fn reader<E: En>(&self) -> Ub<E, K>
    where
        Ub<E, K>: BitSeek<Error = Infallible>,
    {
        let mut r = BitReader::<E, _>::new(MemWordReader::new(self.data));
        r.set_bit_pos(self.p).unwrap();
        r
    }
}

pub trait UbOk<E: En>: BitRead<E, Error = Infallible, PeekWord = u32> + BitSeek<Error = Infallible> {}
impl<E: En, T: BitRead<E, Error = Infallible, PeekWord = u32> + BitSeek<Error = Infallible>> UbOk<E> for T {}

pub fn ub_read_bits_step<E: En, S: Src, const K: usize>(s: &mut S)
where
    Ub<E, K>: UbOk<E>,
{
    let st = UState::<K>::any(s);
    let m = s.usize_in(0, 64);
    let j = s.usize();
    s.assume(m == 0 || j < m);
    let mut r = st.reader::<E>();
    let v = r.read_bits(m).unwrap();
    assert!(m == 64 || v >> m == 0, "bits above n must be zero");
    if m > 0 {
        assert_eq!(field_bit::<E>(v, m, j), st.stream_bit::<E>(j), "read_bits value differs from the stream");
    }
    assert_eq!(r.bit_pos().unwrap(), st.p + m as u64, "advanced by exactly n");
    crate::cover!(s, (st.p % 64) as usize + m > 64, "double word access");
    crate::cover!(s, m == 64 && st.p % 64 == 0, "aligned full word");
}

pub fn ub_peek_bits_step<E: En, S: Src, const K: usize>(s: &mut S)
where
    Ub<E, K>: UbOk<E>,
{
    let st = UState::<K>::any(s);
    let m = s.usize_in(1, 32);
    let j = s.usize();
    let sk = s.usize_in(0, m);
    s.assume(j < m);
    let mut r = st.reader::<E>();
    let v = r.peek_bits(m).unwrap() as u64;
    assert!(v >> m == 0, "bits above n must be zero");
    assert_eq!(field_bit::<E>(v, m, j), st.stream_bit::<E>(j), "peek_bits value differs from the stream");
    assert_eq!(r.bit_pos().unwrap(), st.p, "peek does not advance");
    let v2 = r.peek_bits(m).unwrap() as u64;
    assert_eq!(v, v2, "peek is repeatable");
    r.skip_bits_after_peek(sk);
    assert_eq!(r.bit_pos().unwrap(), st.p + sk as u64, "skip after peek advances by n");
    crate::cover!(s, (st.p % 64) as usize + m > 64, "double word access");
}

pub fn ub_read_unary_step<E: En, S: Src, const K: usize>(s: &mut S)
where
    Ub<E, K>: UbOk<E>,
{
    let st = UState::<K>::any(s);
    let r_exp = s.usize_in(0, 3 * 64 - 1);
    s.assume(st.stream_bit::<E>(r_exp));
    // no one before r_exp: bits [p, p+r_exp)
    let w0 = (st.p / 64) as usize;
    let o0 = (st.p % 64) as usize;
    let dz = |i: usize| if i < K { st.data[i] } else { 0 };
    // first (partial) word: stream bits o0 .. min(64, o0+r_exp)
    let end = st.p as usize + r_exp; // absolute position of the one
    let wq = end / 64;
    let oq = end % 64;
    // all stream bits of words strictly between are zero; partial ranges handled through stream_val
    let range_zero = |w: u64, lo: usize, hi: usize| -> bool {
        // stream bits lo..hi of w are zero
        if lo >= hi {
            return true;
        }
        let v = stream_val::<E, u64>(w) as u64;
        let width = hi - lo;
        let mask = if width == 64 { u64::MAX } else { (1u64 << width) - 1 };
        if E::BE {
            (v >> (64 - hi)) & mask == 0
        } else {
            (v >> lo) & mask == 0
        }
    };
    if wq == w0 {
        s.assume(range_zero(dz(w0), o0, oq));
    } else {
        s.assume(range_zero(dz(w0), o0, 64));
        s.assume(wq < w0 + 2 || dz(w0 + 1) == 0);
        s.assume(wq < w0 + 3 || dz(w0 + 2) == 0);
        s.assume(range_zero(dz(wq), 0, oq));
    }
    let mut r = st.reader::<E>();
    let v = r.read_unary().unwrap();
    assert_eq!(v, r_exp as u64, "read_unary returns the number of zeros before the first one");
    assert_eq!(r.bit_pos().unwrap(), st.p + r_exp as u64 + 1, "advanced by x+1");
    crate::cover!(s, wq >= w0 + 2, "run crosses a whole zero word");
    crate::cover!(s, wq == w0, "one found in the first word");
}

pub fn ub_skip_clone_step<E: En, S: Src, const K: usize>(s: &mut S)
where
    Ub<E, K>: UbOk<E> + Clone,
{
    let st = UState::<K>::any(s);
    let m = s.usize_in(0, 300);
    let k = s.usize_in(0, 64);
    let mut r = st.reader::<E>();
    r.skip_bits(m).unwrap();
    assert_eq!(r.bit_pos().unwrap(), st.p + m as u64, "skip advances by exactly n");
    let mut c = r.clone();
    let a = c.read_bits(k).unwrap();
    assert_eq!(r.bit_pos().unwrap(), st.p + m as u64, "original unchanged by the clone");
    let b = r.read_bits(k).unwrap();
    assert_eq!(a, b, "clone and original read the same value");
    crate::cover!(s, m > 128, "long skip");
}

/// backend kinds on the reading side: the same read_bits from the same reader state over a strict
/// MemWordReader, a fixed-slice writer read back and a byte-stream adapter over a Cursor returns the
/// same value and leaves the same buffer state as over the zero-extended reader (inside the data)
pub fn reader_backend_kinds_step<E: En, W: VW + DoubleType, S: Src, const K: usize>(s: &mut S)
where
    Bb<W>: VW,
    Rd<E, W, K>: RdOk<E, W, K>,
    for<'a> BufBitReader<E, MemWordWriterSlice<W, &'a mut [W]>>: BitRead<E, Error = std::io::Error, PeekWord = Bb<W>>,
{
    let st = RState::<W, K>::any::<E, S>(s, 2 * W::NBITS - 1);
    let m = s.usize_in(0, 64);
    s.assume(st.n + (K - st.pos) * W::NBITS >= m);
    let mut r0 = st.reader::<E>();
    let v0 = r0.read_bits(m).unwrap();
    let (b0, n0) = r0.verif_parts();
    macro_rules! same {
        ($r:expr, $what:literal) => {{
            let res = $r.read_bits(m);
            let got = match res {
                Ok(x) => Some(x),
                Err(e) => {
                    core::mem::forget(e);
                    None
                }
            };
            assert!(got == Some(v0), $what);
            let (b, n) = $r.verif_parts();
            assert!(b == b0 && n == n0, $what);
        }};
    }
    // fixed-slice writer read back
    {
        let mut copy = st.data;
        let mut b = MemWordWriterSlice::new(&mut copy[..]);
        let ok = b.set_word_pos(st.pos as u64).is_ok();
        assert!(ok);
        let mut r = BufBitReader::<E, _>::verif_from_parts(b, st.buffer, st.n);
        same!(r, "fixed-slice writer read back differs from the memory reader");
        core::mem::forget(r);
    }
    crate::cover!(s, m > st.n, "read refills from the backend");
}

/// byte-stream adapter as a reader backend: a fresh BufBitReader over WordAdapter<W, Cursor<&[u8]>> positioned
/// with set_bit_pos(p) reads the same bits as over the memory reader (2 words of data, inside the data)
pub fn reader_adapter_step<E: En, W: VW + DoubleType, S: Src>(s: &mut S)
where
    Bb<W>: VW,
    for<'a> BufBitReader<E, WordAdapter<W, std::io::Cursor<&'a [u8]>>>: BitRead<E, Error = std::io::Error, PeekWord = Bb<W>> + BitSeek<Error = std::io::Error>,
{
    let data = any_array::<W, S, 2>(s);
    let nb = W::NBITS / 8;
    let mut bytes = [0u8; 16];
    let mut i = 0;
    while i < 2 * nb {
        bytes[i] = ((data[i / nb].to_u128() >> (8 * (i % nb))) & 0xff) as u8;
        i += 1;
    }
    let p = s.usize_in(0, W::NBITS);
    let m = s.usize_in(0, if W::NBITS < 64 { W::NBITS } else { 64 });
    let j = s.usize();
    s.assume(m == 0 || j < m);
    let mut r = BufBitReader::<E, _>::new(WordAdapter::<W, _>::new(std::io::Cursor::new(&bytes[..2 * nb])));
    let ok = match r.set_bit_pos(p as u64) {
        Ok(()) => true,
        Err(e) => {
            core::mem::forget(e);
            false
        }
    };
    assert!(ok, "seek inside the byte stream failed");
    let got = match r.read_bits(m) {
        Ok(x) => Some(x),
        Err(e) => {
            core::mem::forget(e);
            None
        }
    };
    assert!(got.is_some(), "read inside the byte stream failed");
    if m > 0 {
        assert_eq!(field_bit::<E>(got.unwrap(), m, j), img_bit::<E, W>(&data, p + j), "bits read through the byte-stream adapter differ from the memory image");
    }
    let bp = match r.bit_pos() {
        Ok(x) => x,
        Err(e) => {
            core::mem::forget(e);
            u64::MAX
        }
    };
    assert_eq!(bp, (p + m) as u64, "bit position over the byte-stream adapter");
    crate::cover!(s, p % 8 != 0 && m > 8, "unaligned");
    core::mem::forget(r);
}

/// hook-free history: a fresh reader over symbolic data (public API only) and the model stream loaded with
/// the same memory image receive the same OPS symbolic operations: same values, same positions.
pub fn reader_history_step<E: En, W: VW + DoubleType, S: Src, const K: usize, const OPS: usize>(s: &mut S)
where
    Bb<W>: VW,
    Rd<E, W, K>: RdOk<E, W, K>,
{
    use crate::ms::MS;
    let data = any_array::<W, S, K>(s);
    let mut m = MS::<E, false>::new();
    // load the memory image byte by byte: canonical layout = each byte is an 8-bit field in stream order
    let nb = W::NBITS / 8;
    let mut i = 0;
    while i < K * nb {
        let byte = ((data[i / nb].to_u128() >> (8 * (i % nb))) & 0xff) as u64;
        m.write_bits(byte, 8).unwrap();
        i += 1;
    }
    let mut r = Rd::<E, W, K>::new(MemWordReader::new(data));
    let mut t = 0;
    while t < OPS {
        let op = s.u8();
        let n = s.usize_in(0, 64);
        s.assume(op < 4);
        let left = m.wlen - m.rpos;
        if op == 0 {
            s.assume(n <= left);
            assert_eq!(r.read_bits(n).unwrap(), m.read_bits(n).unwrap(), "read_bits differs from the canonical stream");
        } else if op == 1 {
            let pn = 1 + n % W::NBITS;
            s.assume(pn <= left);
            let a: u64 = r.peek_bits(pn).unwrap().to_u128() as u64;
            assert_eq!(a, m.peek_bits(pn).unwrap(), "peek_bits differs from the canonical stream");
            let sk = s.usize_in(0, pn);
            r.skip_bits_after_peek(sk);
            m.skip_bits_after_peek(sk);
        } else if op == 2 {
            s.assume(n <= left);
            r.skip_bits(n).unwrap();
            m.skip_bits(n).unwrap();
        } else {
            // a one inside the remaining data
            let z = s.usize();
            s.assume(z < left && m.bit(m.rpos + z));
            assert_eq!(r.read_unary().unwrap(), m.read_unary().unwrap(), "read_unary differs from the canonical stream");
        }
        assert_eq!(r.bit_pos().unwrap(), m.rpos as u64, "bit_pos differs from the canonical position");
        t += 1;
    }
    crate::cover!(s, m.rpos > 2 * W::NBITS, "history crosses several words");
}

crate::harnesses! {
    c02_model_stream_val_be_u64 (quick, "BE,u64", "model self-check") => model_stream_val::<BE, u64, _>;
    c02_model_stream_val_be_u16 (quick, "BE,u16", "model self-check") => model_stream_val::<BE, u16, _>;
    c02_model_stream_val_le_u32 (quick, "LE,u32", "model self-check") => model_stream_val::<LE, u32, _>;

    #[kani::unwind(10)]
    c02_read_bits_be_u8 (quick, "BE,u8,K=10", "n<=64, any Inv_r state, zero-extended MemWordReader") => read_bits_step::<BE, u8, _, 10>;
    #[kani::unwind(6)]
    c02_read_bits_be_u16 (quick, "BE,u16,K=6", "n<=64, any Inv_r state, zero-extended MemWordReader") => read_bits_step::<BE, u16, _, 6>;
    #[kani::unwind(4)]
    c02_read_bits_be_u32 (quick, "BE,u32,K=4", "n<=64, any Inv_r state, zero-extended MemWordReader") => read_bits_step::<BE, u32, _, 4>;
    #[kani::unwind(4)]
    c02_read_bits_be_u64 (quick, "BE,u64,K=3", "n<=64, any Inv_r state, zero-extended MemWordReader") => read_bits_step::<BE, u64, _, 3>;
    #[kani::unwind(10)]
    c02_read_bits_le_u8 (quick, "LE,u8,K=10", "n<=64, any Inv_r state, zero-extended MemWordReader") => read_bits_step::<LE, u8, _, 10>;
    #[kani::unwind(6)]
    c02_read_bits_le_u16 (quick, "LE,u16,K=6", "n<=64, any Inv_r state, zero-extended MemWordReader") => read_bits_step::<LE, u16, _, 6>;
    #[kani::unwind(4)]
    c02_read_bits_le_u32 (quick, "LE,u32,K=4", "n<=64, any Inv_r state, zero-extended MemWordReader") => read_bits_step::<LE, u32, _, 4>;
    #[kani::unwind(4)]
    c02_read_bits_le_u64 (quick, "LE,u64,K=3", "n<=64, any Inv_r state, zero-extended MemWordReader") => read_bits_step::<LE, u64, _, 3>;

    c02_peek_bits_be_u8 (quick, "BE,u8,K=4", "1<=n<=W, skip<=n, any Inv_r state") => peek_bits_step::<BE, u8, _, 4>;
    c02_peek_bits_be_u16 (quick, "BE,u16,K=4", "1<=n<=W, skip<=n, any Inv_r state") => peek_bits_step::<BE, u16, _, 4>;
    c02_peek_bits_be_u32 (quick, "BE,u32,K=4", "1<=n<=W, skip<=n, any Inv_r state") => peek_bits_step::<BE, u32, _, 4>;
    c02_peek_bits_be_u64 (quick, "BE,u64,K=3", "1<=n<=W, skip<=n, any Inv_r state") => peek_bits_step::<BE, u64, _, 3>;
    c02_peek_bits_le_u8 (quick, "LE,u8,K=4", "1<=n<=W, skip<=n, any Inv_r state") => peek_bits_step::<LE, u8, _, 4>;
    c02_peek_bits_le_u16 (quick, "LE,u16,K=4", "1<=n<=W, skip<=n, any Inv_r state") => peek_bits_step::<LE, u16, _, 4>;
    c02_peek_bits_le_u32 (quick, "LE,u32,K=4", "1<=n<=W, skip<=n, any Inv_r state") => peek_bits_step::<LE, u32, _, 4>;
    c02_peek_bits_le_u64 (quick, "LE,u64,K=3", "1<=n<=W, skip<=n, any Inv_r state") => peek_bits_step::<LE, u64, _, 3>;

    #[kani::unwind(5)]
    c02_read_unary_be_u8 (quick, "BE,u8,K=5", "first one within buffer + 3 words, any Inv_r state") => read_unary_step::<BE, u8, _, 5>;
    #[kani::unwind(5)]
    c02_read_unary_be_u16 (quick, "BE,u16,K=5", "first one within buffer + 3 words, any Inv_r state") => read_unary_step::<BE, u16, _, 5>;
    #[kani::unwind(5)]
    c02_read_unary_be_u32 (quick, "BE,u32,K=5", "first one within buffer + 3 words, any Inv_r state") => read_unary_step::<BE, u32, _, 5>;
    #[kani::unwind(5)]
    c02_read_unary_be_u64 (quick, "BE,u64,K=5", "first one within buffer + 3 words, any Inv_r state") => read_unary_step::<BE, u64, _, 5>;
    #[kani::unwind(5)]
    c02_read_unary_le_u8 (quick, "LE,u8,K=5", "first one within buffer + 3 words, any Inv_r state") => read_unary_step::<LE, u8, _, 5>;
    #[kani::unwind(5)]
    c02_read_unary_le_u16 (quick, "LE,u16,K=5", "first one within buffer + 3 words, any Inv_r state") => read_unary_step::<LE, u16, _, 5>;
    #[kani::unwind(5)]
    c02_read_unary_le_u32 (quick, "LE,u32,K=5", "first one within buffer + 3 words, any Inv_r state") => read_unary_step::<LE, u32, _, 5>;
    #[kani::unwind(5)]
    c02_read_unary_le_u64 (quick, "LE,u64,K=5", "first one within buffer + 3 words, any Inv_r state") => read_unary_step::<LE, u64, _, 5>;

    #[kani::unwind(12)]
    c02_skip_bits_be_u8 (quick, "BE,u8,K=6", "n<=2W+64, any Inv_r state") => skip_bits_step::<BE, u8, _, 6>;
    #[kani::unwind(8)]
    c02_skip_bits_be_u16 (thorough, "BE,u16,K=6", "n<=2W+64, any Inv_r state") => skip_bits_step::<BE, u16, _, 6>;
    #[kani::unwind(6)]
    c02_skip_bits_be_u32 (quick, "BE,u32,K=6", "n<=2W+64, any Inv_r state") => skip_bits_step::<BE, u32, _, 6>;
    #[kani::unwind(5)]
    c02_skip_bits_be_u64 (quick, "BE,u64,K=4", "n<=2W+64, any Inv_r state") => skip_bits_step::<BE, u64, _, 4>;
    #[kani::unwind(12)]
    c02_skip_bits_le_u8 (quick, "LE,u8,K=6", "n<=2W+64, any Inv_r state") => skip_bits_step::<LE, u8, _, 6>;
    #[kani::unwind(8)]
    c02_skip_bits_le_u16 (quick, "LE,u16,K=6", "n<=2W+64, any Inv_r state") => skip_bits_step::<LE, u16, _, 6>;
    #[kani::unwind(6)]
    c02_skip_bits_le_u32 (thorough, "LE,u32,K=6", "n<=2W+64, any Inv_r state") => skip_bits_step::<LE, u32, _, 6>;
    #[kani::unwind(5)]
    c02_skip_bits_le_u64 (quick, "LE,u64,K=4", "n<=2W+64, any Inv_r state") => skip_bits_step::<LE, u64, _, 4>;

    #[kani::unwind(10)]
    c02_clone_be_u8 (thorough, "BE,u8,K=10", "read_bits(n<=64) on clone and original") => clone_step::<BE, u8, _, 10>;
    #[kani::unwind(4)]
    c02_clone_be_u32 (quick, "BE,u32,K=4", "read_bits(n<=64) on clone and original") => clone_step::<BE, u32, _, 4>;
    #[kani::unwind(4)]
    c02_clone_le_u64 (quick, "LE,u64,K=3", "read_bits(n<=64) on clone and original") => clone_step::<LE, u64, _, 3>;
    #[kani::unwind(6)]
    c02_clone_le_u16 (thorough, "LE,u16,K=6", "read_bits(n<=64) on clone and original") => clone_step::<LE, u16, _, 6>;

    c02_ub_read_bits_be (quick, "BE,unbuffered,K=3", "n<=64, any bit position <= K*64") => ub_read_bits_step::<BE, _, 3>;
    c02_ub_read_bits_le (quick, "LE,unbuffered,K=3", "n<=64, any bit position <= K*64") => ub_read_bits_step::<LE, _, 3>;
    c02_ub_peek_bits_be (quick, "BE,unbuffered,K=3", "1<=n<=32, any bit position") => ub_peek_bits_step::<BE, _, 3>;
    c02_ub_peek_bits_le (quick, "LE,unbuffered,K=3", "1<=n<=32, any bit position") => ub_peek_bits_step::<LE, _, 3>;
    #[kani::unwind(6)]
    c02_ub_read_unary_be (quick, "BE,unbuffered,K=5", "first one within 192 bits") => ub_read_unary_step::<BE, _, 5>;
    #[kani::unwind(6)]
    c02_ub_read_unary_le (quick, "LE,unbuffered,K=5", "first one within 192 bits") => ub_read_unary_step::<LE, _, 5>;
    c02_ub_skip_clone_be (quick, "BE,unbuffered,K=3", "skip<=300 then read_bits(<=64) on clone and original") => ub_skip_clone_step::<BE, _, 3>;
    c02_ub_skip_clone_le (quick, "LE,unbuffered,K=3", "skip<=300 then read_bits(<=64) on clone and original") => ub_skip_clone_step::<LE, _, 3>;
    #[kani::stub(alloc::fmt::format, crate::c13::stub_format)]
    #[kani::stub(std::string::ToString::to_string, crate::c13::stub_to_string)]
    #[kani::unwind(36)]
    c02_backends_be_u8 (thorough, "BE,u8,K=10: MemWordWriterSlice read back vs zero-extended MemWordReader (strict reader: C09; byte-stream adapter: c02_adapter_*)", "read_bits(n<=64) inside the data from any Inv_r state: same value and state over every backend kind") => reader_backend_kinds_step::<BE, u8, _, 10>;
    #[kani::stub(alloc::fmt::format, crate::c13::stub_format)]
    #[kani::stub(std::string::ToString::to_string, crate::c13::stub_to_string)]
    #[kani::unwind(36)]
    c02_backends_be_u16 (thorough, "BE,u16,K=6: MemWordWriterSlice read back vs zero-extended MemWordReader (strict reader: C09; byte-stream adapter: c02_adapter_*)", "read_bits(n<=64) inside the data from any Inv_r state: same value and state over every backend kind") => reader_backend_kinds_step::<BE, u16, _, 6>;
    #[kani::stub(alloc::fmt::format, crate::c13::stub_format)]
    #[kani::stub(std::string::ToString::to_string, crate::c13::stub_to_string)]
    #[kani::unwind(36)]
    c02_backends_be_u32 (quick, "BE,u32,K=4: MemWordWriterSlice read back vs zero-extended MemWordReader (strict reader: C09; byte-stream adapter: c02_adapter_*)", "read_bits(n<=64) inside the data from any Inv_r state: same value and state over every backend kind") => reader_backend_kinds_step::<BE, u32, _, 4>;
    #[kani::stub(alloc::fmt::format, crate::c13::stub_format)]
    #[kani::stub(std::string::ToString::to_string, crate::c13::stub_to_string)]
    #[kani::unwind(36)]
    c02_backends_be_u64 (thorough, "BE,u64,K=3: MemWordWriterSlice read back vs zero-extended MemWordReader (strict reader: C09; byte-stream adapter: c02_adapter_*)", "read_bits(n<=64) inside the data from any Inv_r state: same value and state over every backend kind") => reader_backend_kinds_step::<BE, u64, _, 3>;
    #[kani::stub(alloc::fmt::format, crate::c13::stub_format)]
    #[kani::stub(std::string::ToString::to_string, crate::c13::stub_to_string)]
    #[kani::unwind(36)]
    c02_backends_le_u8 (thorough, "LE,u8,K=10: MemWordWriterSlice read back vs zero-extended MemWordReader (strict reader: C09; byte-stream adapter: c02_adapter_*)", "read_bits(n<=64) inside the data from any Inv_r state: same value and state over every backend kind") => reader_backend_kinds_step::<LE, u8, _, 10>;
    #[kani::stub(alloc::fmt::format, crate::c13::stub_format)]
    #[kani::stub(std::string::ToString::to_string, crate::c13::stub_to_string)]
    #[kani::unwind(36)]
    c02_backends_le_u16 (thorough, "LE,u16,K=6: MemWordWriterSlice read back vs zero-extended MemWordReader (strict reader: C09; byte-stream adapter: c02_adapter_*)", "read_bits(n<=64) inside the data from any Inv_r state: same value and state over every backend kind") => reader_backend_kinds_step::<LE, u16, _, 6>;
    #[kani::stub(alloc::fmt::format, crate::c13::stub_format)]
    #[kani::stub(std::string::ToString::to_string, crate::c13::stub_to_string)]
    #[kani::unwind(36)]
    c02_backends_le_u32 (thorough, "LE,u32,K=4: MemWordWriterSlice read back vs zero-extended MemWordReader (strict reader: C09; byte-stream adapter: c02_adapter_*)", "read_bits(n<=64) inside the data from any Inv_r state: same value and state over every backend kind") => reader_backend_kinds_step::<LE, u32, _, 4>;
    #[kani::stub(alloc::fmt::format, crate::c13::stub_format)]
    #[kani::stub(std::string::ToString::to_string, crate::c13::stub_to_string)]
    #[kani::unwind(36)]
    c02_backends_le_u64 (thorough, "LE,u64,K=3: MemWordWriterSlice read back vs zero-extended MemWordReader (strict reader: C09; byte-stream adapter: c02_adapter_*)", "read_bits(n<=64) inside the data from any Inv_r state: same value and state over every backend kind") => reader_backend_kinds_step::<LE, u64, _, 3>;
    #[kani::stub(alloc::fmt::format, crate::c13::stub_format)]
    #[kani::stub(std::string::ToString::to_string, crate::c13::stub_to_string)]
    #[kani::unwind(20)]
    c02_adapter_be_u16 (thorough, "BE,u16: BufBitReader over WordAdapter<u16, Cursor<&[u8]>> (2 words)", "set_bit_pos(p<=W) then read_bits(n<=W) inside the data: same bits as the memory image, exact position") => reader_adapter_step::<BE, u16, _>;
    #[kani::stub(alloc::fmt::format, crate::c13::stub_format)]
    #[kani::stub(std::string::ToString::to_string, crate::c13::stub_to_string)]
    #[kani::unwind(20)]
    c02_adapter_be_u32 (thorough, "BE,u32: BufBitReader over WordAdapter<u32, Cursor<&[u8]>> (2 words)", "set_bit_pos(p<=W) then read_bits(n<=W) inside the data: same bits as the memory image, exact position") => reader_adapter_step::<BE, u32, _>;
    #[kani::stub(alloc::fmt::format, crate::c13::stub_format)]
    #[kani::stub(std::string::ToString::to_string, crate::c13::stub_to_string)]
    #[kani::unwind(20)]
    c02_adapter_le_u16 (thorough, "LE,u16: BufBitReader over WordAdapter<u16, Cursor<&[u8]>> (2 words)", "set_bit_pos(p<=W) then read_bits(n<=W) inside the data: same bits as the memory image, exact position") => reader_adapter_step::<LE, u16, _>;
    #[kani::stub(alloc::fmt::format, crate::c13::stub_format)]
    #[kani::stub(std::string::ToString::to_string, crate::c13::stub_to_string)]
    #[kani::unwind(20)]
    c02_adapter_le_u32 (thorough, "LE,u32: BufBitReader over WordAdapter<u32, Cursor<&[u8]>> (2 words)", "set_bit_pos(p<=W) then read_bits(n<=W) inside the data: same bits as the memory image, exact position") => reader_adapter_step::<LE, u32, _>;
    #[kani::unwind(18)]
    c02_history_be_u32 (quick, "BE,u32,K=4: public API only (no hooks), reader vs model stream", "2 symbolic operations (read_bits n<=64, peek_bits n<=W + skip_bits_after_peek, skip_bits, read_unary) from a fresh reader over symbolic data, inside the data") => reader_history_step::<BE, u32, _, 4, 2>;
    #[kani::unwind(14)]
    c02_history_le_u16 (thorough, "LE,u16,K=6: public API only (no hooks), reader vs model stream", "2 symbolic operations (read_bits n<=64, peek_bits n<=W + skip_bits_after_peek, skip_bits, read_unary) from a fresh reader over symbolic data, inside the data") => reader_history_step::<LE, u16, _, 6, 2>;
    #[kani::unwind(12)]
    c02_history_be_u8 (thorough, "BE,u8,K=10: public API only (no hooks), reader vs model stream", "2 symbolic operations (read_bits n<=64, peek_bits n<=W + skip_bits_after_peek, skip_bits, read_unary) from a fresh reader over symbolic data, inside the data") => reader_history_step::<BE, u8, _, 10, 2>;
    #[kani::unwind(26)]
    c02_history_le_u64 (thorough, "LE,u64,K=3: public API only (no hooks), reader vs model stream", "2 symbolic operations (read_bits n<=64, peek_bits n<=W + skip_bits_after_peek, skip_bits, read_unary) from a fresh reader over symbolic data, inside the data") => reader_history_step::<LE, u64, _, 3, 2>;
}
