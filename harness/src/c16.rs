//! C16 — code names and identifiers round-trip.
//!  * identifiers: every constant 0..=50 maps to a code that maps back to the same
//!    identifier; out-of-range identifiers are rejected; code -> identifier -> code gives
//!    identical codewords (model stream, symbolic value);
//!  * equality: `a == b` only inside the classes of codes that have identical codewords
//!    (class membership symbolic over the full parameter range; codeword equality of the
//!    members of each class by separate harnesses with symbolic values);
//!  * parsing: `Name(d1 d2)` with symbolic digits parses to that variant and value; the
//!    literal names parse to their variants; malformed texts are rejected.
//! `Display` itself is not executed symbolically (core::fmt is out of reach for CBMC); the
//! driver runs the real `Display` natively (bin `display_check`) and checks that it prints
//! exactly the templates parsed here.

use crate::c10::*;
use crate::c13::*;
use crate::model::*;
use crate::ms::*;
use crate::src::Src;
use dsi_bitstream::prelude::*;

#[inline(always)]
fn ok_or_forget<T, E>(r: Result<T, E>) -> Option<T> {
    match r {
        Ok(v) => Some(v),
        Err(e) => {
            core::mem::forget(e);
            None
        }
    }
}

/// every identifier constant maps to a code that maps back to the same identifier
pub fn ids_roundtrip<S: Src>(s: &mut S) {
    let mut id = 0usize;
    while id <= 50 {
        let c = ok_or_forget(Codes::from_code_const(id));
        assert!(c.is_some(), "identifier constant rejected");
        let back = ok_or_forget(c.unwrap().to_code_const());
        assert!(back == Some(id), "identifier does not map back to itself");
        id += 1;
    }
    crate::cover!(s, true, "reached");
}

/// out-of-range identifiers are rejected
pub fn ids_out_of_range<S: Src, const ID: usize>(s: &mut S) {
    // identifiers beyond the documented constants: rejected, or (should constants be added) consistent
    let c = ok_or_forget(Codes::from_code_const(ID));
    if let Some(c) = c {
        let back = ok_or_forget(c.to_code_const());
        assert!(back == Some(ID), "identifier does not map back to itself");
    }
    crate::cover!(s, true, "reached");
}

/// does (family, parameter) have a compile-time constant? (from the names in code_consts)
pub fn has_const(fam: u8, k: usize) -> bool {
    match fam {
        ZETA | GOLOMB => k >= 1 && k <= 10,
        PI | EXP_GOLOMB | RICE => k <= 10,
        _ => true,
    }
}

macro_rules! c16_bodies {
    ($e:ty, $code_id_code:ident, $eq_pair:ident) => {
        /// code -> identifier -> code yields identical codewords; codes without a constant are rejected
        pub fn $code_id_code<S: Src, const FAM: u8, const K: usize>(s: &mut S) {
            let c = codes_from(FAM, K);
            let id = ok_or_forget(c.to_code_const());
            assert!(id.is_some() || !has_const(FAM, K), "a code that has a compile-time constant is rejected by to_code_const");
            if let Some(id) = id {
                let c2 = ok_or_forget(Codes::from_code_const(id));
                assert!(c2.is_some(), "identifier returned by to_code_const rejected by from_code_const");
                let c2 = c2.unwrap();
                let v = s.u64();
                s.assume(dom(FAM, K, v));
                let mut a = MS::<$e, true>::new();
                let mut b = MS::<$e, true>::new();
                let ra = c.write(&mut a, v).unwrap();
                let rb = c2.write(&mut b, v).unwrap();
                assert!(ra == rb && a.bits == b.bits && a.wlen == b.wlen, "code -> identifier -> code changes the codewords");
                assert!(c.len(v) == c2.len(v), "code -> identifier -> code changes the lengths");
                crate::cover!(s, v > 100, "large value");
            }
            crate::cover!(s, has_const(FAM, K) || id.is_none(), "reached");
        }
        /// lemma behind `canon`: the two codes have identical codewords and lengths (whether or not `==` says so)
        pub fn $eq_pair<S: Src, const F1: u8, const K1: usize, const F2: u8, const K2: usize>(s: &mut S) {
            let (c1, c2) = (codes_from(F1, K1), codes_from(F2, K2));
            let v = s.u64();
            s.assume(dom(F1, K1, v) && dom(F2, K2, v));
            let mut a = MS::<$e, true>::new();
            let mut b = MS::<$e, true>::new();
            let ra = c1.write(&mut a, v).unwrap();
            let rb = c2.write(&mut b, v).unwrap();
            assert!(ra == rb && a.bits == b.bits && a.wlen == b.wlen, "codes of one canonical class have different codewords");
            assert!(c1.len(v) == c2.len(v), "codes of one canonical class have different lengths");
            // and if the library says they are equal, that is consistent
            assert!(!(c1 == c2) || (ra == rb && a.bits == b.bits), "codes that compare equal have different codewords");
            crate::cover!(s, v > 100, "large value");
        }
    };
}
c16_bodies!(BE, code_id_code_be, eq_pair_be);
c16_bodies!(LE, code_id_code_le, eq_pair_le);

/// canonical representative of the class of codes with identical codewords, restated from the docs
/// (Unary = Rice_0 = Golomb_1; Gamma = Zeta_1 = Pi_0 = ExpGolomb_0; Golomb_{2^k} = Rice_k); the identities
/// themselves are checked on the model stream by the c16_canon_* harnesses
fn canon(fam: u8, k: usize) -> (u8, usize) {
    match (fam, k) {
        (UNARY, _) => (UNARY, 0),
        (GAMMA, _) => (GAMMA, 0),
        (DELTA, _) => (DELTA, 0),
        (OMEGA, _) => (OMEGA, 0),
        (VBYTE_BE, _) => (VBYTE_BE, 0),
        (VBYTE_LE, _) => (VBYTE_LE, 0),
        (RICE, 0) => (UNARY, 0),
        (ZETA, 1) | (EXP_GOLOMB, 0) | (PI, 0) => (GAMMA, 0),
        (GOLOMB, b) if b >= 1 && b.is_power_of_two() => {
            let l = b.trailing_zeros() as usize;
            if l == 0 {
                (UNARY, 0)
            } else {
                (RICE, l)
            }
        }
        (f, k) => (f, k),
    }
}

/// `a == b` only for codes of one class of identical codewords (the property's direction: equal codes must
/// have identical codewords; codes with identical codewords are free to compare unequal); Eq laws
pub fn eq_classes<S: Src>(s: &mut S) {
    let (f1, f2) = (s.u8(), s.u8());
    let (k1, k2) = (s.usize(), s.usize());
    s.assume(f1 <= RICE && f2 <= RICE);
    let (a, b) = (codes_from(f1, k1), codes_from(f2, k2));
    let same_class = canon(f1, k1) == canon(f2, k2);
    assert!(!(a == b) || same_class, "two codes compare equal although their codewords differ");
    assert_eq!(a == b, b == a, "== must be symmetric");
    assert!(a == a, "== must be reflexive");
    crate::cover!(s, a == b && f1 != f2, "equal codes of different variants");
    crate::cover!(s, a == b && f1 == f2 && k1 > 100, "equal parameterised codes");
}

/// Golomb with a power-of-two modulus has the codewords of Rice (symbolic k), the general case of `canon`
pub fn canon_golomb_pow2<E: En, S: Src>(s: &mut S)
where
    MS<E, true>: CodesWrite<E> + BitWrite<E, Error = core::convert::Infallible>,
{
    let k = s.usize_in(0, 10);
    let v = s.u64();
    s.assume((v >> k) <= 100);
    let (c1, c2) = (Codes::Golomb { b: 1usize << k }, Codes::Rice { log2_b: k });
    let mut a = MS::<E, true>::new();
    let mut b = MS::<E, true>::new();
    let ra = c1.write(&mut a, v).unwrap();
    let rb = c2.write(&mut b, v).unwrap();
    assert!(ra == rb && a.bits == b.bits && a.wlen == b.wlen, "Golomb with modulus 2^k and Rice_k have different codewords");
    crate::cover!(s, k == 10 && v > 5000, "large parameter");
}

// ---------------------------------------------------------------- parsing

/// what the real Display prints for the family (generated natively, see gen_display.rs)
fn name_str(fam: u8) -> &'static str {
    crate::gen_display::DISPLAY[fam as usize].0
}
fn suffix_str(fam: u8) -> &'static str {
    crate::gen_display::DISPLAY[fam as usize].1
}
fn name_bytes(fam: u8) -> &'static [u8] {
    name_str(fam).as_bytes()
}

/// `prefix + NDIG decimal digits + suffix` (what Display prints for an NDIG-digit parameter, first digit
/// non-zero unless NDIG == 1) parses to that variant with that parameter
pub fn parse_digits<S: Src, const FAM: u8, const NDIG: usize>(s: &mut S) {
    let name = name_bytes(FAM);
    let mut buf = [0u8; 40];
    let mut n = 0;
    while n < name.len() {
        buf[n] = name[n];
        n += 1;
    }
    let mut val: usize = 0;
    let mut i = 0;
    while i < NDIG {
        let d = s.u8();
        s.assume(d <= 9 && (i > 0 || NDIG == 1 || d >= 1));
        buf[n] = b'0' + d;
        n += 1;
        val = val * 10 + d as usize;
        i += 1;
    }
    let suf = suffix_str(FAM).as_bytes();
    let mut q = 0;
    while q < suf.len() {
        buf[n] = suf[q];
        n += 1;
        q += 1;
    }
    // all bytes are ASCII by construction
    let text = unsafe { core::str::from_utf8_unchecked(&buf[..n]) };
    let parsed = ok_or_forget(text.parse::<Codes>());
    let ok = match parsed {
        Some(Codes::Zeta { k }) => FAM == ZETA && k == val,
        Some(Codes::Pi { k }) => FAM == PI && k == val,
        Some(Codes::Golomb { b }) => FAM == GOLOMB && b == val,
        Some(Codes::ExpGolomb { k }) => FAM == EXP_GOLOMB && k == val,
        Some(Codes::Rice { log2_b }) => FAM == RICE && log2_b == val,
        _ => false,
    };
    assert!(ok, "printed form Name(k) does not parse back to the same variant and parameter");
    crate::cover!(s, val % 10 == 9, "last digit nine");
}

/// the parameterless names parse to their variants
pub fn parse_literal<S: Src, const FAM: u8>(s: &mut S) {
    let text = name_str(FAM);
    let parsed = ok_or_forget(text.parse::<Codes>());
    let ok = match parsed {
        Some(Codes::Unary) => FAM == UNARY,
        Some(Codes::Gamma) => FAM == GAMMA,
        Some(Codes::Delta) => FAM == DELTA,
        Some(Codes::Omega) => FAM == OMEGA,
        Some(Codes::VByteBe) => FAM == VBYTE_BE,
        Some(Codes::VByteLe) => FAM == VBYTE_LE,
        _ => false,
    };
    assert!(ok, "printed name of a parameterless code does not parse back to it");
    crate::cover!(s, true, "reached");
}

/// malformed texts are rejected
pub fn parse_malformed<S: Src, const WHICH: u8>(s: &mut S) {
    let text: &str = match WHICH {
        0 => "",
        1 => "Foo",
        2 => "Foo(3)",
        3 => "Zeta",
        4 => "Zeta()",
        5 => "Zeta(-1)",
        6 => "Zeta(x)",
        7 => "Golomb(99999999999999999999)",
        8 => "Gamma(3)",
        9 => "Unary(1)",
        10 => "zeta(3)",
        _ => "Rice(",
    };
    let parsed = ok_or_forget(text.parse::<Codes>());
    assert!(parsed.is_none(), "malformed text mapped to some code");
    crate::cover!(s, true, "reached");
}

/// a symbolic 4-letter name that is not a code name, with a valid parameter, is rejected
pub fn parse_unknown_name<S: Src>(s: &mut S) {
    let mut buf = [0u8; 8];
    buf[0] = s.u8();
    buf[1] = s.u8();
    buf[2] = s.u8();
    buf[3] = s.u8();
    s.assume(buf[0].is_ascii_alphabetic() && buf[1].is_ascii_alphabetic() && buf[2].is_ascii_alphabetic() && buf[3].is_ascii_alphabetic());
    s.assume(!(buf[0] == b'Z' && buf[1] == b'e' && buf[2] == b't' && buf[3] == b'a'));
    s.assume(!(buf[0] == b'R' && buf[1] == b'i' && buf[2] == b'c' && buf[3] == b'e'));
    buf[4] = b'(';
    buf[5] = b'7';
    buf[6] = b')';
    let text = unsafe { core::str::from_utf8_unchecked(&buf[..7]) };
    let parsed = ok_or_forget(text.parse::<Codes>());
    assert!(parsed.is_none(), "unknown name mapped to some code");
    crate::cover!(s, true, "reached");
}

/// concrete parameter VAL: the text is built from the Display template and the decimal digits of VAL
/// (the symbolic three-digit form does not fit in memory: > 30 GB; concrete texts cost seconds)
pub fn parse_concrete<S: Src, const FAM: u8, const VAL: usize>(s: &mut S) {
    let name = name_bytes(FAM);
    let mut buf = [0u8; 48];
    let mut n = 0;
    while n < name.len() {
        buf[n] = name[n];
        n += 1;
    }
    // decimal digits of VAL, most significant first
    let mut digits = [0u8; 20];
    let mut nd = 0;
    let mut v = VAL;
    loop {
        digits[nd] = b'0' + (v % 10) as u8;
        nd += 1;
        v /= 10;
        if v == 0 {
            break;
        }
    }
    while nd > 0 {
        nd -= 1;
        buf[n] = digits[nd];
        n += 1;
    }
    let suf = suffix_str(FAM).as_bytes();
    let mut q = 0;
    while q < suf.len() {
        buf[n] = suf[q];
        n += 1;
        q += 1;
    }
    let text = unsafe { core::str::from_utf8_unchecked(&buf[..n]) };
    let parsed = ok_or_forget(text.parse::<Codes>());
    let ok = match parsed {
        Some(Codes::Zeta { k }) => FAM == ZETA && k == VAL,
        Some(Codes::Pi { k }) => FAM == PI && k == VAL,
        Some(Codes::Golomb { b }) => FAM == GOLOMB && b == VAL,
        Some(Codes::ExpGolomb { k }) => FAM == EXP_GOLOMB && k == VAL,
        Some(Codes::Rice { log2_b }) => FAM == RICE && log2_b == VAL,
        _ => false,
    };
    assert!(ok, "printed form Name(k) does not parse back to the same variant and parameter");
    crate::cover!(s, true, "reached");
}

crate::harnesses! {
    #[kani::unwind(53)]
    c16_ids_roundtrip (quick, "Codes::from_code_const / to_code_const", "all identifiers 0..=50 (concrete loop)") => ids_roundtrip;
    #[kani::stub(alloc::fmt::format, stub_format)]
    #[kani::stub(std::string::ToString::to_string, stub_to_string)]
    #[kani::stub(std::backtrace::Backtrace::capture, stub_backtrace_capture)]
    #[kani::stub(<anyhow::Error as core::ops::Drop>::drop, stub_anyhow_drop)]
    #[kani::stub(core::slice::memchr::memchr, stub_memchr)]
    c16_ids_out_of_range_0 (quick, "Codes::from_code_const", "identifier 51") => ids_out_of_range::<_, 51>;
    #[kani::stub(alloc::fmt::format, stub_format)]
    #[kani::stub(std::string::ToString::to_string, stub_to_string)]
    #[kani::stub(std::backtrace::Backtrace::capture, stub_backtrace_capture)]
    #[kani::stub(<anyhow::Error as core::ops::Drop>::drop, stub_anyhow_drop)]
    #[kani::stub(core::slice::memchr::memchr, stub_memchr)]
    c16_ids_out_of_range_1 (quick, "Codes::from_code_const", "identifier 1000") => ids_out_of_range::<_, 1000>;
    #[kani::stub(alloc::fmt::format, stub_format)]
    #[kani::stub(std::string::ToString::to_string, stub_to_string)]
    #[kani::stub(std::backtrace::Backtrace::capture, stub_backtrace_capture)]
    #[kani::stub(<anyhow::Error as core::ops::Drop>::drop, stub_anyhow_drop)]
    #[kani::stub(core::slice::memchr::memchr, stub_memchr)]
    c16_ids_out_of_range_2 (quick, "Codes::from_code_const", "identifier {usize::MAX}") => ids_out_of_range::<_, {usize::MAX}>;
    #[kani::stub(alloc::fmt::format, stub_format)]
    #[kani::stub(std::string::ToString::to_string, stub_to_string)]
    #[kani::stub(std::backtrace::Backtrace::capture, stub_backtrace_capture)]
    #[kani::stub(<anyhow::Error as core::ops::Drop>::drop, stub_anyhow_drop)]
    #[kani::stub(core::slice::memchr::memchr, stub_memchr)]
    #[kani::unwind(12)]
    c16_code_id_code_unary0_be (quick, "Codes::Unary param 0, BE stream", "to_code_const then from_code_const: same codewords (symbolic value) / rejected when no constant exists") => code_id_code_be::<_, {UNARY}, 0>;
    #[kani::stub(alloc::fmt::format, stub_format)]
    #[kani::stub(std::string::ToString::to_string, stub_to_string)]
    #[kani::stub(std::backtrace::Backtrace::capture, stub_backtrace_capture)]
    #[kani::stub(<anyhow::Error as core::ops::Drop>::drop, stub_anyhow_drop)]
    #[kani::stub(core::slice::memchr::memchr, stub_memchr)]
    #[kani::unwind(12)]
    c16_code_id_code_unary0_le (thorough, "Codes::Unary param 0, LE stream", "to_code_const then from_code_const: same codewords (symbolic value) / rejected when no constant exists") => code_id_code_le::<_, {UNARY}, 0>;
    #[kani::stub(alloc::fmt::format, stub_format)]
    #[kani::stub(std::string::ToString::to_string, stub_to_string)]
    #[kani::stub(std::backtrace::Backtrace::capture, stub_backtrace_capture)]
    #[kani::stub(<anyhow::Error as core::ops::Drop>::drop, stub_anyhow_drop)]
    #[kani::stub(core::slice::memchr::memchr, stub_memchr)]
    #[kani::unwind(12)]
    c16_code_id_code_gamma0_be (quick, "Codes::Gamma param 0, BE stream", "to_code_const then from_code_const: same codewords (symbolic value) / rejected when no constant exists") => code_id_code_be::<_, {GAMMA}, 0>;
    #[kani::stub(alloc::fmt::format, stub_format)]
    #[kani::stub(std::string::ToString::to_string, stub_to_string)]
    #[kani::stub(std::backtrace::Backtrace::capture, stub_backtrace_capture)]
    #[kani::stub(<anyhow::Error as core::ops::Drop>::drop, stub_anyhow_drop)]
    #[kani::stub(core::slice::memchr::memchr, stub_memchr)]
    #[kani::unwind(12)]
    c16_code_id_code_gamma0_le (thorough, "Codes::Gamma param 0, LE stream", "to_code_const then from_code_const: same codewords (symbolic value) / rejected when no constant exists") => code_id_code_le::<_, {GAMMA}, 0>;
    #[kani::stub(alloc::fmt::format, stub_format)]
    #[kani::stub(std::string::ToString::to_string, stub_to_string)]
    #[kani::stub(std::backtrace::Backtrace::capture, stub_backtrace_capture)]
    #[kani::stub(<anyhow::Error as core::ops::Drop>::drop, stub_anyhow_drop)]
    #[kani::stub(core::slice::memchr::memchr, stub_memchr)]
    #[kani::unwind(12)]
    c16_code_id_code_delta0_be (quick, "Codes::Delta param 0, BE stream", "to_code_const then from_code_const: same codewords (symbolic value) / rejected when no constant exists") => code_id_code_be::<_, {DELTA}, 0>;
    #[kani::stub(alloc::fmt::format, stub_format)]
    #[kani::stub(std::string::ToString::to_string, stub_to_string)]
    #[kani::stub(std::backtrace::Backtrace::capture, stub_backtrace_capture)]
    #[kani::stub(<anyhow::Error as core::ops::Drop>::drop, stub_anyhow_drop)]
    #[kani::stub(core::slice::memchr::memchr, stub_memchr)]
    #[kani::unwind(12)]
    c16_code_id_code_delta0_le (thorough, "Codes::Delta param 0, LE stream", "to_code_const then from_code_const: same codewords (symbolic value) / rejected when no constant exists") => code_id_code_le::<_, {DELTA}, 0>;
    #[kani::stub(alloc::fmt::format, stub_format)]
    #[kani::stub(std::string::ToString::to_string, stub_to_string)]
    #[kani::stub(std::backtrace::Backtrace::capture, stub_backtrace_capture)]
    #[kani::stub(<anyhow::Error as core::ops::Drop>::drop, stub_anyhow_drop)]
    #[kani::stub(core::slice::memchr::memchr, stub_memchr)]
    #[kani::unwind(12)]
    c16_code_id_code_omega0_be (quick, "Codes::Omega param 0, BE stream", "to_code_const then from_code_const: same codewords (symbolic value) / rejected when no constant exists") => code_id_code_be::<_, {OMEGA}, 0>;
    #[kani::stub(alloc::fmt::format, stub_format)]
    #[kani::stub(std::string::ToString::to_string, stub_to_string)]
    #[kani::stub(std::backtrace::Backtrace::capture, stub_backtrace_capture)]
    #[kani::stub(<anyhow::Error as core::ops::Drop>::drop, stub_anyhow_drop)]
    #[kani::stub(core::slice::memchr::memchr, stub_memchr)]
    #[kani::unwind(12)]
    c16_code_id_code_omega0_le (thorough, "Codes::Omega param 0, LE stream", "to_code_const then from_code_const: same codewords (symbolic value) / rejected when no constant exists") => code_id_code_le::<_, {OMEGA}, 0>;
    #[kani::stub(alloc::fmt::format, stub_format)]
    #[kani::stub(std::string::ToString::to_string, stub_to_string)]
    #[kani::stub(std::backtrace::Backtrace::capture, stub_backtrace_capture)]
    #[kani::stub(<anyhow::Error as core::ops::Drop>::drop, stub_anyhow_drop)]
    #[kani::stub(core::slice::memchr::memchr, stub_memchr)]
    #[kani::unwind(12)]
    c16_code_id_code_vbyte_be0_be (quick, "Codes::VbyteBe param 0, BE stream", "to_code_const then from_code_const: same codewords (symbolic value) / rejected when no constant exists") => code_id_code_be::<_, {VBYTE_BE}, 0>;
    #[kani::stub(alloc::fmt::format, stub_format)]
    #[kani::stub(std::string::ToString::to_string, stub_to_string)]
    #[kani::stub(std::backtrace::Backtrace::capture, stub_backtrace_capture)]
    #[kani::stub(<anyhow::Error as core::ops::Drop>::drop, stub_anyhow_drop)]
    #[kani::stub(core::slice::memchr::memchr, stub_memchr)]
    #[kani::unwind(12)]
    c16_code_id_code_vbyte_be0_le (thorough, "Codes::VbyteBe param 0, LE stream", "to_code_const then from_code_const: same codewords (symbolic value) / rejected when no constant exists") => code_id_code_le::<_, {VBYTE_BE}, 0>;
    #[kani::stub(alloc::fmt::format, stub_format)]
    #[kani::stub(std::string::ToString::to_string, stub_to_string)]
    #[kani::stub(std::backtrace::Backtrace::capture, stub_backtrace_capture)]
    #[kani::stub(<anyhow::Error as core::ops::Drop>::drop, stub_anyhow_drop)]
    #[kani::stub(core::slice::memchr::memchr, stub_memchr)]
    #[kani::unwind(12)]
    c16_code_id_code_vbyte_le0_be (quick, "Codes::VbyteLe param 0, BE stream", "to_code_const then from_code_const: same codewords (symbolic value) / rejected when no constant exists") => code_id_code_be::<_, {VBYTE_LE}, 0>;
    #[kani::stub(alloc::fmt::format, stub_format)]
    #[kani::stub(std::string::ToString::to_string, stub_to_string)]
    #[kani::stub(std::backtrace::Backtrace::capture, stub_backtrace_capture)]
    #[kani::stub(<anyhow::Error as core::ops::Drop>::drop, stub_anyhow_drop)]
    #[kani::stub(core::slice::memchr::memchr, stub_memchr)]
    #[kani::unwind(12)]
    c16_code_id_code_vbyte_le0_le (thorough, "Codes::VbyteLe param 0, LE stream", "to_code_const then from_code_const: same codewords (symbolic value) / rejected when no constant exists") => code_id_code_le::<_, {VBYTE_LE}, 0>;
    #[kani::stub(alloc::fmt::format, stub_format)]
    #[kani::stub(std::string::ToString::to_string, stub_to_string)]
    #[kani::stub(std::backtrace::Backtrace::capture, stub_backtrace_capture)]
    #[kani::stub(<anyhow::Error as core::ops::Drop>::drop, stub_anyhow_drop)]
    #[kani::stub(core::slice::memchr::memchr, stub_memchr)]
    #[kani::unwind(12)]
    c16_code_id_code_zeta1_be (quick, "Codes::Zeta param 1, BE stream", "to_code_const then from_code_const: same codewords (symbolic value) / rejected when no constant exists") => code_id_code_be::<_, {ZETA}, 1>;
    #[kani::stub(alloc::fmt::format, stub_format)]
    #[kani::stub(std::string::ToString::to_string, stub_to_string)]
    #[kani::stub(std::backtrace::Backtrace::capture, stub_backtrace_capture)]
    #[kani::stub(<anyhow::Error as core::ops::Drop>::drop, stub_anyhow_drop)]
    #[kani::stub(core::slice::memchr::memchr, stub_memchr)]
    #[kani::unwind(12)]
    c16_code_id_code_zeta1_le (thorough, "Codes::Zeta param 1, LE stream", "to_code_const then from_code_const: same codewords (symbolic value) / rejected when no constant exists") => code_id_code_le::<_, {ZETA}, 1>;
    #[kani::stub(alloc::fmt::format, stub_format)]
    #[kani::stub(std::string::ToString::to_string, stub_to_string)]
    #[kani::stub(std::backtrace::Backtrace::capture, stub_backtrace_capture)]
    #[kani::stub(<anyhow::Error as core::ops::Drop>::drop, stub_anyhow_drop)]
    #[kani::stub(core::slice::memchr::memchr, stub_memchr)]
    #[kani::unwind(12)]
    c16_code_id_code_zeta2_be (thorough, "Codes::Zeta param 2, BE stream", "to_code_const then from_code_const: same codewords (symbolic value) / rejected when no constant exists") => code_id_code_be::<_, {ZETA}, 2>;
    #[kani::stub(alloc::fmt::format, stub_format)]
    #[kani::stub(std::string::ToString::to_string, stub_to_string)]
    #[kani::stub(std::backtrace::Backtrace::capture, stub_backtrace_capture)]
    #[kani::stub(<anyhow::Error as core::ops::Drop>::drop, stub_anyhow_drop)]
    #[kani::stub(core::slice::memchr::memchr, stub_memchr)]
    #[kani::unwind(12)]
    c16_code_id_code_zeta2_le (thorough, "Codes::Zeta param 2, LE stream", "to_code_const then from_code_const: same codewords (symbolic value) / rejected when no constant exists") => code_id_code_le::<_, {ZETA}, 2>;
    #[kani::stub(alloc::fmt::format, stub_format)]
    #[kani::stub(std::string::ToString::to_string, stub_to_string)]
    #[kani::stub(std::backtrace::Backtrace::capture, stub_backtrace_capture)]
    #[kani::stub(<anyhow::Error as core::ops::Drop>::drop, stub_anyhow_drop)]
    #[kani::stub(core::slice::memchr::memchr, stub_memchr)]
    #[kani::unwind(12)]
    c16_code_id_code_zeta3_be (quick, "Codes::Zeta param 3, BE stream", "to_code_const then from_code_const: same codewords (symbolic value) / rejected when no constant exists") => code_id_code_be::<_, {ZETA}, 3>;
    #[kani::stub(alloc::fmt::format, stub_format)]
    #[kani::stub(std::string::ToString::to_string, stub_to_string)]
    #[kani::stub(std::backtrace::Backtrace::capture, stub_backtrace_capture)]
    #[kani::stub(<anyhow::Error as core::ops::Drop>::drop, stub_anyhow_drop)]
    #[kani::stub(core::slice::memchr::memchr, stub_memchr)]
    #[kani::unwind(12)]
    c16_code_id_code_zeta3_le (thorough, "Codes::Zeta param 3, LE stream", "to_code_const then from_code_const: same codewords (symbolic value) / rejected when no constant exists") => code_id_code_le::<_, {ZETA}, 3>;
    #[kani::stub(alloc::fmt::format, stub_format)]
    #[kani::stub(std::string::ToString::to_string, stub_to_string)]
    #[kani::stub(std::backtrace::Backtrace::capture, stub_backtrace_capture)]
    #[kani::stub(<anyhow::Error as core::ops::Drop>::drop, stub_anyhow_drop)]
    #[kani::stub(core::slice::memchr::memchr, stub_memchr)]
    #[kani::unwind(12)]
    c16_code_id_code_zeta4_be (thorough, "Codes::Zeta param 4, BE stream", "to_code_const then from_code_const: same codewords (symbolic value) / rejected when no constant exists") => code_id_code_be::<_, {ZETA}, 4>;
    #[kani::stub(alloc::fmt::format, stub_format)]
    #[kani::stub(std::string::ToString::to_string, stub_to_string)]
    #[kani::stub(std::backtrace::Backtrace::capture, stub_backtrace_capture)]
    #[kani::stub(<anyhow::Error as core::ops::Drop>::drop, stub_anyhow_drop)]
    #[kani::stub(core::slice::memchr::memchr, stub_memchr)]
    #[kani::unwind(12)]
    c16_code_id_code_zeta4_le (thorough, "Codes::Zeta param 4, LE stream", "to_code_const then from_code_const: same codewords (symbolic value) / rejected when no constant exists") => code_id_code_le::<_, {ZETA}, 4>;
    #[kani::stub(alloc::fmt::format, stub_format)]
    #[kani::stub(std::string::ToString::to_string, stub_to_string)]
    #[kani::stub(std::backtrace::Backtrace::capture, stub_backtrace_capture)]
    #[kani::stub(<anyhow::Error as core::ops::Drop>::drop, stub_anyhow_drop)]
    #[kani::stub(core::slice::memchr::memchr, stub_memchr)]
    #[kani::unwind(12)]
    c16_code_id_code_zeta5_be (thorough, "Codes::Zeta param 5, BE stream", "to_code_const then from_code_const: same codewords (symbolic value) / rejected when no constant exists") => code_id_code_be::<_, {ZETA}, 5>;
    #[kani::stub(alloc::fmt::format, stub_format)]
    #[kani::stub(std::string::ToString::to_string, stub_to_string)]
    #[kani::stub(std::backtrace::Backtrace::capture, stub_backtrace_capture)]
    #[kani::stub(<anyhow::Error as core::ops::Drop>::drop, stub_anyhow_drop)]
    #[kani::stub(core::slice::memchr::memchr, stub_memchr)]
    #[kani::unwind(12)]
    c16_code_id_code_zeta5_le (thorough, "Codes::Zeta param 5, LE stream", "to_code_const then from_code_const: same codewords (symbolic value) / rejected when no constant exists") => code_id_code_le::<_, {ZETA}, 5>;
    #[kani::stub(alloc::fmt::format, stub_format)]
    #[kani::stub(std::string::ToString::to_string, stub_to_string)]
    #[kani::stub(std::backtrace::Backtrace::capture, stub_backtrace_capture)]
    #[kani::stub(<anyhow::Error as core::ops::Drop>::drop, stub_anyhow_drop)]
    #[kani::stub(core::slice::memchr::memchr, stub_memchr)]
    #[kani::unwind(12)]
    c16_code_id_code_zeta6_be (thorough, "Codes::Zeta param 6, BE stream", "to_code_const then from_code_const: same codewords (symbolic value) / rejected when no constant exists") => code_id_code_be::<_, {ZETA}, 6>;
    #[kani::stub(alloc::fmt::format, stub_format)]
    #[kani::stub(std::string::ToString::to_string, stub_to_string)]
    #[kani::stub(std::backtrace::Backtrace::capture, stub_backtrace_capture)]
    #[kani::stub(<anyhow::Error as core::ops::Drop>::drop, stub_anyhow_drop)]
    #[kani::stub(core::slice::memchr::memchr, stub_memchr)]
    #[kani::unwind(12)]
    c16_code_id_code_zeta6_le (thorough, "Codes::Zeta param 6, LE stream", "to_code_const then from_code_const: same codewords (symbolic value) / rejected when no constant exists") => code_id_code_le::<_, {ZETA}, 6>;
    #[kani::stub(alloc::fmt::format, stub_format)]
    #[kani::stub(std::string::ToString::to_string, stub_to_string)]
    #[kani::stub(std::backtrace::Backtrace::capture, stub_backtrace_capture)]
    #[kani::stub(<anyhow::Error as core::ops::Drop>::drop, stub_anyhow_drop)]
    #[kani::stub(core::slice::memchr::memchr, stub_memchr)]
    #[kani::unwind(12)]
    c16_code_id_code_zeta7_be (thorough, "Codes::Zeta param 7, BE stream", "to_code_const then from_code_const: same codewords (symbolic value) / rejected when no constant exists") => code_id_code_be::<_, {ZETA}, 7>;
    #[kani::stub(alloc::fmt::format, stub_format)]
    #[kani::stub(std::string::ToString::to_string, stub_to_string)]
    #[kani::stub(std::backtrace::Backtrace::capture, stub_backtrace_capture)]
    #[kani::stub(<anyhow::Error as core::ops::Drop>::drop, stub_anyhow_drop)]
    #[kani::stub(core::slice::memchr::memchr, stub_memchr)]
    #[kani::unwind(12)]
    c16_code_id_code_zeta7_le (thorough, "Codes::Zeta param 7, LE stream", "to_code_const then from_code_const: same codewords (symbolic value) / rejected when no constant exists") => code_id_code_le::<_, {ZETA}, 7>;
    #[kani::stub(alloc::fmt::format, stub_format)]
    #[kani::stub(std::string::ToString::to_string, stub_to_string)]
    #[kani::stub(std::backtrace::Backtrace::capture, stub_backtrace_capture)]
    #[kani::stub(<anyhow::Error as core::ops::Drop>::drop, stub_anyhow_drop)]
    #[kani::stub(core::slice::memchr::memchr, stub_memchr)]
    #[kani::unwind(12)]
    c16_code_id_code_zeta8_be (thorough, "Codes::Zeta param 8, BE stream", "to_code_const then from_code_const: same codewords (symbolic value) / rejected when no constant exists") => code_id_code_be::<_, {ZETA}, 8>;
    #[kani::stub(alloc::fmt::format, stub_format)]
    #[kani::stub(std::string::ToString::to_string, stub_to_string)]
    #[kani::stub(std::backtrace::Backtrace::capture, stub_backtrace_capture)]
    #[kani::stub(<anyhow::Error as core::ops::Drop>::drop, stub_anyhow_drop)]
    #[kani::stub(core::slice::memchr::memchr, stub_memchr)]
    #[kani::unwind(12)]
    c16_code_id_code_zeta8_le (thorough, "Codes::Zeta param 8, LE stream", "to_code_const then from_code_const: same codewords (symbolic value) / rejected when no constant exists") => code_id_code_le::<_, {ZETA}, 8>;
    #[kani::stub(alloc::fmt::format, stub_format)]
    #[kani::stub(std::string::ToString::to_string, stub_to_string)]
    #[kani::stub(std::backtrace::Backtrace::capture, stub_backtrace_capture)]
    #[kani::stub(<anyhow::Error as core::ops::Drop>::drop, stub_anyhow_drop)]
    #[kani::stub(core::slice::memchr::memchr, stub_memchr)]
    #[kani::unwind(12)]
    c16_code_id_code_zeta9_be (thorough, "Codes::Zeta param 9, BE stream", "to_code_const then from_code_const: same codewords (symbolic value) / rejected when no constant exists") => code_id_code_be::<_, {ZETA}, 9>;
    #[kani::stub(alloc::fmt::format, stub_format)]
    #[kani::stub(std::string::ToString::to_string, stub_to_string)]
    #[kani::stub(std::backtrace::Backtrace::capture, stub_backtrace_capture)]
    #[kani::stub(<anyhow::Error as core::ops::Drop>::drop, stub_anyhow_drop)]
    #[kani::stub(core::slice::memchr::memchr, stub_memchr)]
    #[kani::unwind(12)]
    c16_code_id_code_zeta9_le (thorough, "Codes::Zeta param 9, LE stream", "to_code_const then from_code_const: same codewords (symbolic value) / rejected when no constant exists") => code_id_code_le::<_, {ZETA}, 9>;
    #[kani::stub(alloc::fmt::format, stub_format)]
    #[kani::stub(std::string::ToString::to_string, stub_to_string)]
    #[kani::stub(std::backtrace::Backtrace::capture, stub_backtrace_capture)]
    #[kani::stub(<anyhow::Error as core::ops::Drop>::drop, stub_anyhow_drop)]
    #[kani::stub(core::slice::memchr::memchr, stub_memchr)]
    #[kani::unwind(12)]
    c16_code_id_code_zeta10_be (quick, "Codes::Zeta param 10, BE stream", "to_code_const then from_code_const: same codewords (symbolic value) / rejected when no constant exists") => code_id_code_be::<_, {ZETA}, 10>;
    #[kani::stub(alloc::fmt::format, stub_format)]
    #[kani::stub(std::string::ToString::to_string, stub_to_string)]
    #[kani::stub(std::backtrace::Backtrace::capture, stub_backtrace_capture)]
    #[kani::stub(<anyhow::Error as core::ops::Drop>::drop, stub_anyhow_drop)]
    #[kani::stub(core::slice::memchr::memchr, stub_memchr)]
    #[kani::unwind(12)]
    c16_code_id_code_zeta10_le (thorough, "Codes::Zeta param 10, LE stream", "to_code_const then from_code_const: same codewords (symbolic value) / rejected when no constant exists") => code_id_code_le::<_, {ZETA}, 10>;
    #[kani::stub(alloc::fmt::format, stub_format)]
    #[kani::stub(std::string::ToString::to_string, stub_to_string)]
    #[kani::stub(std::backtrace::Backtrace::capture, stub_backtrace_capture)]
    #[kani::stub(<anyhow::Error as core::ops::Drop>::drop, stub_anyhow_drop)]
    #[kani::stub(core::slice::memchr::memchr, stub_memchr)]
    #[kani::unwind(12)]
    c16_code_id_code_zeta11_be (quick, "Codes::Zeta param 11, BE stream", "to_code_const then from_code_const: same codewords (symbolic value) / rejected when no constant exists") => code_id_code_be::<_, {ZETA}, 11>;
    #[kani::stub(alloc::fmt::format, stub_format)]
    #[kani::stub(std::string::ToString::to_string, stub_to_string)]
    #[kani::stub(std::backtrace::Backtrace::capture, stub_backtrace_capture)]
    #[kani::stub(<anyhow::Error as core::ops::Drop>::drop, stub_anyhow_drop)]
    #[kani::stub(core::slice::memchr::memchr, stub_memchr)]
    #[kani::unwind(12)]
    c16_code_id_code_zeta11_le (thorough, "Codes::Zeta param 11, LE stream", "to_code_const then from_code_const: same codewords (symbolic value) / rejected when no constant exists") => code_id_code_le::<_, {ZETA}, 11>;
    #[kani::stub(alloc::fmt::format, stub_format)]
    #[kani::stub(std::string::ToString::to_string, stub_to_string)]
    #[kani::stub(std::backtrace::Backtrace::capture, stub_backtrace_capture)]
    #[kani::stub(<anyhow::Error as core::ops::Drop>::drop, stub_anyhow_drop)]
    #[kani::stub(core::slice::memchr::memchr, stub_memchr)]
    #[kani::unwind(12)]
    c16_code_id_code_zeta12_be (thorough, "Codes::Zeta param 12, BE stream", "to_code_const then from_code_const: same codewords (symbolic value) / rejected when no constant exists") => code_id_code_be::<_, {ZETA}, 12>;
    #[kani::stub(alloc::fmt::format, stub_format)]
    #[kani::stub(std::string::ToString::to_string, stub_to_string)]
    #[kani::stub(std::backtrace::Backtrace::capture, stub_backtrace_capture)]
    #[kani::stub(<anyhow::Error as core::ops::Drop>::drop, stub_anyhow_drop)]
    #[kani::stub(core::slice::memchr::memchr, stub_memchr)]
    #[kani::unwind(12)]
    c16_code_id_code_zeta12_le (thorough, "Codes::Zeta param 12, LE stream", "to_code_const then from_code_const: same codewords (symbolic value) / rejected when no constant exists") => code_id_code_le::<_, {ZETA}, 12>;
    #[kani::stub(alloc::fmt::format, stub_format)]
    #[kani::stub(std::string::ToString::to_string, stub_to_string)]
    #[kani::stub(std::backtrace::Backtrace::capture, stub_backtrace_capture)]
    #[kani::stub(<anyhow::Error as core::ops::Drop>::drop, stub_anyhow_drop)]
    #[kani::stub(core::slice::memchr::memchr, stub_memchr)]
    #[kani::unwind(12)]
    c16_code_id_code_pi0_be (quick, "Codes::Pi param 0, BE stream", "to_code_const then from_code_const: same codewords (symbolic value) / rejected when no constant exists") => code_id_code_be::<_, {PI}, 0>;
    #[kani::stub(alloc::fmt::format, stub_format)]
    #[kani::stub(std::string::ToString::to_string, stub_to_string)]
    #[kani::stub(std::backtrace::Backtrace::capture, stub_backtrace_capture)]
    #[kani::stub(<anyhow::Error as core::ops::Drop>::drop, stub_anyhow_drop)]
    #[kani::stub(core::slice::memchr::memchr, stub_memchr)]
    #[kani::unwind(12)]
    c16_code_id_code_pi0_le (thorough, "Codes::Pi param 0, LE stream", "to_code_const then from_code_const: same codewords (symbolic value) / rejected when no constant exists") => code_id_code_le::<_, {PI}, 0>;
    #[kani::stub(alloc::fmt::format, stub_format)]
    #[kani::stub(std::string::ToString::to_string, stub_to_string)]
    #[kani::stub(std::backtrace::Backtrace::capture, stub_backtrace_capture)]
    #[kani::stub(<anyhow::Error as core::ops::Drop>::drop, stub_anyhow_drop)]
    #[kani::stub(core::slice::memchr::memchr, stub_memchr)]
    #[kani::unwind(12)]
    c16_code_id_code_pi1_be (quick, "Codes::Pi param 1, BE stream", "to_code_const then from_code_const: same codewords (symbolic value) / rejected when no constant exists") => code_id_code_be::<_, {PI}, 1>;
    #[kani::stub(alloc::fmt::format, stub_format)]
    #[kani::stub(std::string::ToString::to_string, stub_to_string)]
    #[kani::stub(std::backtrace::Backtrace::capture, stub_backtrace_capture)]
    #[kani::stub(<anyhow::Error as core::ops::Drop>::drop, stub_anyhow_drop)]
    #[kani::stub(core::slice::memchr::memchr, stub_memchr)]
    #[kani::unwind(12)]
    c16_code_id_code_pi1_le (thorough, "Codes::Pi param 1, LE stream", "to_code_const then from_code_const: same codewords (symbolic value) / rejected when no constant exists") => code_id_code_le::<_, {PI}, 1>;
    #[kani::stub(alloc::fmt::format, stub_format)]
    #[kani::stub(std::string::ToString::to_string, stub_to_string)]
    #[kani::stub(std::backtrace::Backtrace::capture, stub_backtrace_capture)]
    #[kani::stub(<anyhow::Error as core::ops::Drop>::drop, stub_anyhow_drop)]
    #[kani::stub(core::slice::memchr::memchr, stub_memchr)]
    #[kani::unwind(12)]
    c16_code_id_code_pi2_be (thorough, "Codes::Pi param 2, BE stream", "to_code_const then from_code_const: same codewords (symbolic value) / rejected when no constant exists") => code_id_code_be::<_, {PI}, 2>;
    #[kani::stub(alloc::fmt::format, stub_format)]
    #[kani::stub(std::string::ToString::to_string, stub_to_string)]
    #[kani::stub(std::backtrace::Backtrace::capture, stub_backtrace_capture)]
    #[kani::stub(<anyhow::Error as core::ops::Drop>::drop, stub_anyhow_drop)]
    #[kani::stub(core::slice::memchr::memchr, stub_memchr)]
    #[kani::unwind(12)]
    c16_code_id_code_pi2_le (thorough, "Codes::Pi param 2, LE stream", "to_code_const then from_code_const: same codewords (symbolic value) / rejected when no constant exists") => code_id_code_le::<_, {PI}, 2>;
    #[kani::stub(alloc::fmt::format, stub_format)]
    #[kani::stub(std::string::ToString::to_string, stub_to_string)]
    #[kani::stub(std::backtrace::Backtrace::capture, stub_backtrace_capture)]
    #[kani::stub(<anyhow::Error as core::ops::Drop>::drop, stub_anyhow_drop)]
    #[kani::stub(core::slice::memchr::memchr, stub_memchr)]
    #[kani::unwind(12)]
    c16_code_id_code_pi3_be (thorough, "Codes::Pi param 3, BE stream", "to_code_const then from_code_const: same codewords (symbolic value) / rejected when no constant exists") => code_id_code_be::<_, {PI}, 3>;
    #[kani::stub(alloc::fmt::format, stub_format)]
    #[kani::stub(std::string::ToString::to_string, stub_to_string)]
    #[kani::stub(std::backtrace::Backtrace::capture, stub_backtrace_capture)]
    #[kani::stub(<anyhow::Error as core::ops::Drop>::drop, stub_anyhow_drop)]
    #[kani::stub(core::slice::memchr::memchr, stub_memchr)]
    #[kani::unwind(12)]
    c16_code_id_code_pi3_le (thorough, "Codes::Pi param 3, LE stream", "to_code_const then from_code_const: same codewords (symbolic value) / rejected when no constant exists") => code_id_code_le::<_, {PI}, 3>;
    #[kani::stub(alloc::fmt::format, stub_format)]
    #[kani::stub(std::string::ToString::to_string, stub_to_string)]
    #[kani::stub(std::backtrace::Backtrace::capture, stub_backtrace_capture)]
    #[kani::stub(<anyhow::Error as core::ops::Drop>::drop, stub_anyhow_drop)]
    #[kani::stub(core::slice::memchr::memchr, stub_memchr)]
    #[kani::unwind(12)]
    c16_code_id_code_pi4_be (thorough, "Codes::Pi param 4, BE stream", "to_code_const then from_code_const: same codewords (symbolic value) / rejected when no constant exists") => code_id_code_be::<_, {PI}, 4>;
    #[kani::stub(alloc::fmt::format, stub_format)]
    #[kani::stub(std::string::ToString::to_string, stub_to_string)]
    #[kani::stub(std::backtrace::Backtrace::capture, stub_backtrace_capture)]
    #[kani::stub(<anyhow::Error as core::ops::Drop>::drop, stub_anyhow_drop)]
    #[kani::stub(core::slice::memchr::memchr, stub_memchr)]
    #[kani::unwind(12)]
    c16_code_id_code_pi4_le (thorough, "Codes::Pi param 4, LE stream", "to_code_const then from_code_const: same codewords (symbolic value) / rejected when no constant exists") => code_id_code_le::<_, {PI}, 4>;
    #[kani::stub(alloc::fmt::format, stub_format)]
    #[kani::stub(std::string::ToString::to_string, stub_to_string)]
    #[kani::stub(std::backtrace::Backtrace::capture, stub_backtrace_capture)]
    #[kani::stub(<anyhow::Error as core::ops::Drop>::drop, stub_anyhow_drop)]
    #[kani::stub(core::slice::memchr::memchr, stub_memchr)]
    #[kani::unwind(12)]
    c16_code_id_code_pi5_be (thorough, "Codes::Pi param 5, BE stream", "to_code_const then from_code_const: same codewords (symbolic value) / rejected when no constant exists") => code_id_code_be::<_, {PI}, 5>;
    #[kani::stub(alloc::fmt::format, stub_format)]
    #[kani::stub(std::string::ToString::to_string, stub_to_string)]
    #[kani::stub(std::backtrace::Backtrace::capture, stub_backtrace_capture)]
    #[kani::stub(<anyhow::Error as core::ops::Drop>::drop, stub_anyhow_drop)]
    #[kani::stub(core::slice::memchr::memchr, stub_memchr)]
    #[kani::unwind(12)]
    c16_code_id_code_pi5_le (thorough, "Codes::Pi param 5, LE stream", "to_code_const then from_code_const: same codewords (symbolic value) / rejected when no constant exists") => code_id_code_le::<_, {PI}, 5>;
    #[kani::stub(alloc::fmt::format, stub_format)]
    #[kani::stub(std::string::ToString::to_string, stub_to_string)]
    #[kani::stub(std::backtrace::Backtrace::capture, stub_backtrace_capture)]
    #[kani::stub(<anyhow::Error as core::ops::Drop>::drop, stub_anyhow_drop)]
    #[kani::stub(core::slice::memchr::memchr, stub_memchr)]
    #[kani::unwind(12)]
    c16_code_id_code_pi6_be (thorough, "Codes::Pi param 6, BE stream", "to_code_const then from_code_const: same codewords (symbolic value) / rejected when no constant exists") => code_id_code_be::<_, {PI}, 6>;
    #[kani::stub(alloc::fmt::format, stub_format)]
    #[kani::stub(std::string::ToString::to_string, stub_to_string)]
    #[kani::stub(std::backtrace::Backtrace::capture, stub_backtrace_capture)]
    #[kani::stub(<anyhow::Error as core::ops::Drop>::drop, stub_anyhow_drop)]
    #[kani::stub(core::slice::memchr::memchr, stub_memchr)]
    #[kani::unwind(12)]
    c16_code_id_code_pi6_le (thorough, "Codes::Pi param 6, LE stream", "to_code_const then from_code_const: same codewords (symbolic value) / rejected when no constant exists") => code_id_code_le::<_, {PI}, 6>;
    #[kani::stub(alloc::fmt::format, stub_format)]
    #[kani::stub(std::string::ToString::to_string, stub_to_string)]
    #[kani::stub(std::backtrace::Backtrace::capture, stub_backtrace_capture)]
    #[kani::stub(<anyhow::Error as core::ops::Drop>::drop, stub_anyhow_drop)]
    #[kani::stub(core::slice::memchr::memchr, stub_memchr)]
    #[kani::unwind(12)]
    c16_code_id_code_pi7_be (thorough, "Codes::Pi param 7, BE stream", "to_code_const then from_code_const: same codewords (symbolic value) / rejected when no constant exists") => code_id_code_be::<_, {PI}, 7>;
    #[kani::stub(alloc::fmt::format, stub_format)]
    #[kani::stub(std::string::ToString::to_string, stub_to_string)]
    #[kani::stub(std::backtrace::Backtrace::capture, stub_backtrace_capture)]
    #[kani::stub(<anyhow::Error as core::ops::Drop>::drop, stub_anyhow_drop)]
    #[kani::stub(core::slice::memchr::memchr, stub_memchr)]
    #[kani::unwind(12)]
    c16_code_id_code_pi7_le (thorough, "Codes::Pi param 7, LE stream", "to_code_const then from_code_const: same codewords (symbolic value) / rejected when no constant exists") => code_id_code_le::<_, {PI}, 7>;
    #[kani::stub(alloc::fmt::format, stub_format)]
    #[kani::stub(std::string::ToString::to_string, stub_to_string)]
    #[kani::stub(std::backtrace::Backtrace::capture, stub_backtrace_capture)]
    #[kani::stub(<anyhow::Error as core::ops::Drop>::drop, stub_anyhow_drop)]
    #[kani::stub(core::slice::memchr::memchr, stub_memchr)]
    #[kani::unwind(12)]
    c16_code_id_code_pi8_be (thorough, "Codes::Pi param 8, BE stream", "to_code_const then from_code_const: same codewords (symbolic value) / rejected when no constant exists") => code_id_code_be::<_, {PI}, 8>;
    #[kani::stub(alloc::fmt::format, stub_format)]
    #[kani::stub(std::string::ToString::to_string, stub_to_string)]
    #[kani::stub(std::backtrace::Backtrace::capture, stub_backtrace_capture)]
    #[kani::stub(<anyhow::Error as core::ops::Drop>::drop, stub_anyhow_drop)]
    #[kani::stub(core::slice::memchr::memchr, stub_memchr)]
    #[kani::unwind(12)]
    c16_code_id_code_pi8_le (thorough, "Codes::Pi param 8, LE stream", "to_code_const then from_code_const: same codewords (symbolic value) / rejected when no constant exists") => code_id_code_le::<_, {PI}, 8>;
    #[kani::stub(alloc::fmt::format, stub_format)]
    #[kani::stub(std::string::ToString::to_string, stub_to_string)]
    #[kani::stub(std::backtrace::Backtrace::capture, stub_backtrace_capture)]
    #[kani::stub(<anyhow::Error as core::ops::Drop>::drop, stub_anyhow_drop)]
    #[kani::stub(core::slice::memchr::memchr, stub_memchr)]
    #[kani::unwind(12)]
    c16_code_id_code_pi9_be (thorough, "Codes::Pi param 9, BE stream", "to_code_const then from_code_const: same codewords (symbolic value) / rejected when no constant exists") => code_id_code_be::<_, {PI}, 9>;
    #[kani::stub(alloc::fmt::format, stub_format)]
    #[kani::stub(std::string::ToString::to_string, stub_to_string)]
    #[kani::stub(std::backtrace::Backtrace::capture, stub_backtrace_capture)]
    #[kani::stub(<anyhow::Error as core::ops::Drop>::drop, stub_anyhow_drop)]
    #[kani::stub(core::slice::memchr::memchr, stub_memchr)]
    #[kani::unwind(12)]
    c16_code_id_code_pi9_le (thorough, "Codes::Pi param 9, LE stream", "to_code_const then from_code_const: same codewords (symbolic value) / rejected when no constant exists") => code_id_code_le::<_, {PI}, 9>;
    #[kani::stub(alloc::fmt::format, stub_format)]
    #[kani::stub(std::string::ToString::to_string, stub_to_string)]
    #[kani::stub(std::backtrace::Backtrace::capture, stub_backtrace_capture)]
    #[kani::stub(<anyhow::Error as core::ops::Drop>::drop, stub_anyhow_drop)]
    #[kani::stub(core::slice::memchr::memchr, stub_memchr)]
    #[kani::unwind(12)]
    c16_code_id_code_pi10_be (thorough, "Codes::Pi param 10, BE stream", "to_code_const then from_code_const: same codewords (symbolic value) / rejected when no constant exists") => code_id_code_be::<_, {PI}, 10>;
    #[kani::stub(alloc::fmt::format, stub_format)]
    #[kani::stub(std::string::ToString::to_string, stub_to_string)]
    #[kani::stub(std::backtrace::Backtrace::capture, stub_backtrace_capture)]
    #[kani::stub(<anyhow::Error as core::ops::Drop>::drop, stub_anyhow_drop)]
    #[kani::stub(core::slice::memchr::memchr, stub_memchr)]
    #[kani::unwind(12)]
    c16_code_id_code_pi10_le (thorough, "Codes::Pi param 10, LE stream", "to_code_const then from_code_const: same codewords (symbolic value) / rejected when no constant exists") => code_id_code_le::<_, {PI}, 10>;
    #[kani::stub(alloc::fmt::format, stub_format)]
    #[kani::stub(std::string::ToString::to_string, stub_to_string)]
    #[kani::stub(std::backtrace::Backtrace::capture, stub_backtrace_capture)]
    #[kani::stub(<anyhow::Error as core::ops::Drop>::drop, stub_anyhow_drop)]
    #[kani::stub(core::slice::memchr::memchr, stub_memchr)]
    #[kani::unwind(12)]
    c16_code_id_code_pi11_be (quick, "Codes::Pi param 11, BE stream", "to_code_const then from_code_const: same codewords (symbolic value) / rejected when no constant exists") => code_id_code_be::<_, {PI}, 11>;
    #[kani::stub(alloc::fmt::format, stub_format)]
    #[kani::stub(std::string::ToString::to_string, stub_to_string)]
    #[kani::stub(std::backtrace::Backtrace::capture, stub_backtrace_capture)]
    #[kani::stub(<anyhow::Error as core::ops::Drop>::drop, stub_anyhow_drop)]
    #[kani::stub(core::slice::memchr::memchr, stub_memchr)]
    #[kani::unwind(12)]
    c16_code_id_code_pi11_le (thorough, "Codes::Pi param 11, LE stream", "to_code_const then from_code_const: same codewords (symbolic value) / rejected when no constant exists") => code_id_code_le::<_, {PI}, 11>;
    #[kani::stub(alloc::fmt::format, stub_format)]
    #[kani::stub(std::string::ToString::to_string, stub_to_string)]
    #[kani::stub(std::backtrace::Backtrace::capture, stub_backtrace_capture)]
    #[kani::stub(<anyhow::Error as core::ops::Drop>::drop, stub_anyhow_drop)]
    #[kani::stub(core::slice::memchr::memchr, stub_memchr)]
    #[kani::unwind(12)]
    c16_code_id_code_pi12_be (thorough, "Codes::Pi param 12, BE stream", "to_code_const then from_code_const: same codewords (symbolic value) / rejected when no constant exists") => code_id_code_be::<_, {PI}, 12>;
    #[kani::stub(alloc::fmt::format, stub_format)]
    #[kani::stub(std::string::ToString::to_string, stub_to_string)]
    #[kani::stub(std::backtrace::Backtrace::capture, stub_backtrace_capture)]
    #[kani::stub(<anyhow::Error as core::ops::Drop>::drop, stub_anyhow_drop)]
    #[kani::stub(core::slice::memchr::memchr, stub_memchr)]
    #[kani::unwind(12)]
    c16_code_id_code_pi12_le (thorough, "Codes::Pi param 12, LE stream", "to_code_const then from_code_const: same codewords (symbolic value) / rejected when no constant exists") => code_id_code_le::<_, {PI}, 12>;
    #[kani::stub(alloc::fmt::format, stub_format)]
    #[kani::stub(std::string::ToString::to_string, stub_to_string)]
    #[kani::stub(std::backtrace::Backtrace::capture, stub_backtrace_capture)]
    #[kani::stub(<anyhow::Error as core::ops::Drop>::drop, stub_anyhow_drop)]
    #[kani::stub(core::slice::memchr::memchr, stub_memchr)]
    #[kani::unwind(12)]
    c16_code_id_code_golomb1_be (quick, "Codes::Golomb param 1, BE stream", "to_code_const then from_code_const: same codewords (symbolic value) / rejected when no constant exists") => code_id_code_be::<_, {GOLOMB}, 1>;
    #[kani::stub(alloc::fmt::format, stub_format)]
    #[kani::stub(std::string::ToString::to_string, stub_to_string)]
    #[kani::stub(std::backtrace::Backtrace::capture, stub_backtrace_capture)]
    #[kani::stub(<anyhow::Error as core::ops::Drop>::drop, stub_anyhow_drop)]
    #[kani::stub(core::slice::memchr::memchr, stub_memchr)]
    #[kani::unwind(12)]
    c16_code_id_code_golomb1_le (thorough, "Codes::Golomb param 1, LE stream", "to_code_const then from_code_const: same codewords (symbolic value) / rejected when no constant exists") => code_id_code_le::<_, {GOLOMB}, 1>;
    #[kani::stub(alloc::fmt::format, stub_format)]
    #[kani::stub(std::string::ToString::to_string, stub_to_string)]
    #[kani::stub(std::backtrace::Backtrace::capture, stub_backtrace_capture)]
    #[kani::stub(<anyhow::Error as core::ops::Drop>::drop, stub_anyhow_drop)]
    #[kani::stub(core::slice::memchr::memchr, stub_memchr)]
    #[kani::unwind(12)]
    c16_code_id_code_golomb2_be (quick, "Codes::Golomb param 2, BE stream", "to_code_const then from_code_const: same codewords (symbolic value) / rejected when no constant exists") => code_id_code_be::<_, {GOLOMB}, 2>;
    #[kani::stub(alloc::fmt::format, stub_format)]
    #[kani::stub(std::string::ToString::to_string, stub_to_string)]
    #[kani::stub(std::backtrace::Backtrace::capture, stub_backtrace_capture)]
    #[kani::stub(<anyhow::Error as core::ops::Drop>::drop, stub_anyhow_drop)]
    #[kani::stub(core::slice::memchr::memchr, stub_memchr)]
    #[kani::unwind(12)]
    c16_code_id_code_golomb2_le (thorough, "Codes::Golomb param 2, LE stream", "to_code_const then from_code_const: same codewords (symbolic value) / rejected when no constant exists") => code_id_code_le::<_, {GOLOMB}, 2>;
    #[kani::stub(alloc::fmt::format, stub_format)]
    #[kani::stub(std::string::ToString::to_string, stub_to_string)]
    #[kani::stub(std::backtrace::Backtrace::capture, stub_backtrace_capture)]
    #[kani::stub(<anyhow::Error as core::ops::Drop>::drop, stub_anyhow_drop)]
    #[kani::stub(core::slice::memchr::memchr, stub_memchr)]
    #[kani::unwind(12)]
    c16_code_id_code_golomb3_be (thorough, "Codes::Golomb param 3, BE stream", "to_code_const then from_code_const: same codewords (symbolic value) / rejected when no constant exists") => code_id_code_be::<_, {GOLOMB}, 3>;
    #[kani::stub(alloc::fmt::format, stub_format)]
    #[kani::stub(std::string::ToString::to_string, stub_to_string)]
    #[kani::stub(std::backtrace::Backtrace::capture, stub_backtrace_capture)]
    #[kani::stub(<anyhow::Error as core::ops::Drop>::drop, stub_anyhow_drop)]
    #[kani::stub(core::slice::memchr::memchr, stub_memchr)]
    #[kani::unwind(12)]
    c16_code_id_code_golomb3_le (thorough, "Codes::Golomb param 3, LE stream", "to_code_const then from_code_const: same codewords (symbolic value) / rejected when no constant exists") => code_id_code_le::<_, {GOLOMB}, 3>;
    #[kani::stub(alloc::fmt::format, stub_format)]
    #[kani::stub(std::string::ToString::to_string, stub_to_string)]
    #[kani::stub(std::backtrace::Backtrace::capture, stub_backtrace_capture)]
    #[kani::stub(<anyhow::Error as core::ops::Drop>::drop, stub_anyhow_drop)]
    #[kani::stub(core::slice::memchr::memchr, stub_memchr)]
    #[kani::unwind(12)]
    c16_code_id_code_golomb4_be (thorough, "Codes::Golomb param 4, BE stream", "to_code_const then from_code_const: same codewords (symbolic value) / rejected when no constant exists") => code_id_code_be::<_, {GOLOMB}, 4>;
    #[kani::stub(alloc::fmt::format, stub_format)]
    #[kani::stub(std::string::ToString::to_string, stub_to_string)]
    #[kani::stub(std::backtrace::Backtrace::capture, stub_backtrace_capture)]
    #[kani::stub(<anyhow::Error as core::ops::Drop>::drop, stub_anyhow_drop)]
    #[kani::stub(core::slice::memchr::memchr, stub_memchr)]
    #[kani::unwind(12)]
    c16_code_id_code_golomb4_le (thorough, "Codes::Golomb param 4, LE stream", "to_code_const then from_code_const: same codewords (symbolic value) / rejected when no constant exists") => code_id_code_le::<_, {GOLOMB}, 4>;
    #[kani::stub(alloc::fmt::format, stub_format)]
    #[kani::stub(std::string::ToString::to_string, stub_to_string)]
    #[kani::stub(std::backtrace::Backtrace::capture, stub_backtrace_capture)]
    #[kani::stub(<anyhow::Error as core::ops::Drop>::drop, stub_anyhow_drop)]
    #[kani::stub(core::slice::memchr::memchr, stub_memchr)]
    #[kani::unwind(12)]
    c16_code_id_code_golomb5_be (thorough, "Codes::Golomb param 5, BE stream", "to_code_const then from_code_const: same codewords (symbolic value) / rejected when no constant exists") => code_id_code_be::<_, {GOLOMB}, 5>;
    #[kani::stub(alloc::fmt::format, stub_format)]
    #[kani::stub(std::string::ToString::to_string, stub_to_string)]
    #[kani::stub(std::backtrace::Backtrace::capture, stub_backtrace_capture)]
    #[kani::stub(<anyhow::Error as core::ops::Drop>::drop, stub_anyhow_drop)]
    #[kani::stub(core::slice::memchr::memchr, stub_memchr)]
    #[kani::unwind(12)]
    c16_code_id_code_golomb5_le (thorough, "Codes::Golomb param 5, LE stream", "to_code_const then from_code_const: same codewords (symbolic value) / rejected when no constant exists") => code_id_code_le::<_, {GOLOMB}, 5>;
    #[kani::stub(alloc::fmt::format, stub_format)]
    #[kani::stub(std::string::ToString::to_string, stub_to_string)]
    #[kani::stub(std::backtrace::Backtrace::capture, stub_backtrace_capture)]
    #[kani::stub(<anyhow::Error as core::ops::Drop>::drop, stub_anyhow_drop)]
    #[kani::stub(core::slice::memchr::memchr, stub_memchr)]
    #[kani::unwind(12)]
    c16_code_id_code_golomb6_be (thorough, "Codes::Golomb param 6, BE stream", "to_code_const then from_code_const: same codewords (symbolic value) / rejected when no constant exists") => code_id_code_be::<_, {GOLOMB}, 6>;
    #[kani::stub(alloc::fmt::format, stub_format)]
    #[kani::stub(std::string::ToString::to_string, stub_to_string)]
    #[kani::stub(std::backtrace::Backtrace::capture, stub_backtrace_capture)]
    #[kani::stub(<anyhow::Error as core::ops::Drop>::drop, stub_anyhow_drop)]
    #[kani::stub(core::slice::memchr::memchr, stub_memchr)]
    #[kani::unwind(12)]
    c16_code_id_code_golomb6_le (thorough, "Codes::Golomb param 6, LE stream", "to_code_const then from_code_const: same codewords (symbolic value) / rejected when no constant exists") => code_id_code_le::<_, {GOLOMB}, 6>;
    #[kani::stub(alloc::fmt::format, stub_format)]
    #[kani::stub(std::string::ToString::to_string, stub_to_string)]
    #[kani::stub(std::backtrace::Backtrace::capture, stub_backtrace_capture)]
    #[kani::stub(<anyhow::Error as core::ops::Drop>::drop, stub_anyhow_drop)]
    #[kani::stub(core::slice::memchr::memchr, stub_memchr)]
    #[kani::unwind(12)]
    c16_code_id_code_golomb7_be (thorough, "Codes::Golomb param 7, BE stream", "to_code_const then from_code_const: same codewords (symbolic value) / rejected when no constant exists") => code_id_code_be::<_, {GOLOMB}, 7>;
    #[kani::stub(alloc::fmt::format, stub_format)]
    #[kani::stub(std::string::ToString::to_string, stub_to_string)]
    #[kani::stub(std::backtrace::Backtrace::capture, stub_backtrace_capture)]
    #[kani::stub(<anyhow::Error as core::ops::Drop>::drop, stub_anyhow_drop)]
    #[kani::stub(core::slice::memchr::memchr, stub_memchr)]
    #[kani::unwind(12)]
    c16_code_id_code_golomb7_le (thorough, "Codes::Golomb param 7, LE stream", "to_code_const then from_code_const: same codewords (symbolic value) / rejected when no constant exists") => code_id_code_le::<_, {GOLOMB}, 7>;
    #[kani::stub(alloc::fmt::format, stub_format)]
    #[kani::stub(std::string::ToString::to_string, stub_to_string)]
    #[kani::stub(std::backtrace::Backtrace::capture, stub_backtrace_capture)]
    #[kani::stub(<anyhow::Error as core::ops::Drop>::drop, stub_anyhow_drop)]
    #[kani::stub(core::slice::memchr::memchr, stub_memchr)]
    #[kani::unwind(12)]
    c16_code_id_code_golomb8_be (quick, "Codes::Golomb param 8, BE stream", "to_code_const then from_code_const: same codewords (symbolic value) / rejected when no constant exists") => code_id_code_be::<_, {GOLOMB}, 8>;
    #[kani::stub(alloc::fmt::format, stub_format)]
    #[kani::stub(std::string::ToString::to_string, stub_to_string)]
    #[kani::stub(std::backtrace::Backtrace::capture, stub_backtrace_capture)]
    #[kani::stub(<anyhow::Error as core::ops::Drop>::drop, stub_anyhow_drop)]
    #[kani::stub(core::slice::memchr::memchr, stub_memchr)]
    #[kani::unwind(12)]
    c16_code_id_code_golomb8_le (thorough, "Codes::Golomb param 8, LE stream", "to_code_const then from_code_const: same codewords (symbolic value) / rejected when no constant exists") => code_id_code_le::<_, {GOLOMB}, 8>;
    #[kani::stub(alloc::fmt::format, stub_format)]
    #[kani::stub(std::string::ToString::to_string, stub_to_string)]
    #[kani::stub(std::backtrace::Backtrace::capture, stub_backtrace_capture)]
    #[kani::stub(<anyhow::Error as core::ops::Drop>::drop, stub_anyhow_drop)]
    #[kani::stub(core::slice::memchr::memchr, stub_memchr)]
    #[kani::unwind(12)]
    c16_code_id_code_golomb9_be (thorough, "Codes::Golomb param 9, BE stream", "to_code_const then from_code_const: same codewords (symbolic value) / rejected when no constant exists") => code_id_code_be::<_, {GOLOMB}, 9>;
    #[kani::stub(alloc::fmt::format, stub_format)]
    #[kani::stub(std::string::ToString::to_string, stub_to_string)]
    #[kani::stub(std::backtrace::Backtrace::capture, stub_backtrace_capture)]
    #[kani::stub(<anyhow::Error as core::ops::Drop>::drop, stub_anyhow_drop)]
    #[kani::stub(core::slice::memchr::memchr, stub_memchr)]
    #[kani::unwind(12)]
    c16_code_id_code_golomb9_le (thorough, "Codes::Golomb param 9, LE stream", "to_code_const then from_code_const: same codewords (symbolic value) / rejected when no constant exists") => code_id_code_le::<_, {GOLOMB}, 9>;
    #[kani::stub(alloc::fmt::format, stub_format)]
    #[kani::stub(std::string::ToString::to_string, stub_to_string)]
    #[kani::stub(std::backtrace::Backtrace::capture, stub_backtrace_capture)]
    #[kani::stub(<anyhow::Error as core::ops::Drop>::drop, stub_anyhow_drop)]
    #[kani::stub(core::slice::memchr::memchr, stub_memchr)]
    #[kani::unwind(12)]
    c16_code_id_code_golomb10_be (thorough, "Codes::Golomb param 10, BE stream", "to_code_const then from_code_const: same codewords (symbolic value) / rejected when no constant exists") => code_id_code_be::<_, {GOLOMB}, 10>;
    #[kani::stub(alloc::fmt::format, stub_format)]
    #[kani::stub(std::string::ToString::to_string, stub_to_string)]
    #[kani::stub(std::backtrace::Backtrace::capture, stub_backtrace_capture)]
    #[kani::stub(<anyhow::Error as core::ops::Drop>::drop, stub_anyhow_drop)]
    #[kani::stub(core::slice::memchr::memchr, stub_memchr)]
    #[kani::unwind(12)]
    c16_code_id_code_golomb10_le (thorough, "Codes::Golomb param 10, LE stream", "to_code_const then from_code_const: same codewords (symbolic value) / rejected when no constant exists") => code_id_code_le::<_, {GOLOMB}, 10>;
    #[kani::stub(alloc::fmt::format, stub_format)]
    #[kani::stub(std::string::ToString::to_string, stub_to_string)]
    #[kani::stub(std::backtrace::Backtrace::capture, stub_backtrace_capture)]
    #[kani::stub(<anyhow::Error as core::ops::Drop>::drop, stub_anyhow_drop)]
    #[kani::stub(core::slice::memchr::memchr, stub_memchr)]
    #[kani::unwind(12)]
    c16_code_id_code_golomb11_be (quick, "Codes::Golomb param 11, BE stream", "to_code_const then from_code_const: same codewords (symbolic value) / rejected when no constant exists") => code_id_code_be::<_, {GOLOMB}, 11>;
    #[kani::stub(alloc::fmt::format, stub_format)]
    #[kani::stub(std::string::ToString::to_string, stub_to_string)]
    #[kani::stub(std::backtrace::Backtrace::capture, stub_backtrace_capture)]
    #[kani::stub(<anyhow::Error as core::ops::Drop>::drop, stub_anyhow_drop)]
    #[kani::stub(core::slice::memchr::memchr, stub_memchr)]
    #[kani::unwind(12)]
    c16_code_id_code_golomb11_le (thorough, "Codes::Golomb param 11, LE stream", "to_code_const then from_code_const: same codewords (symbolic value) / rejected when no constant exists") => code_id_code_le::<_, {GOLOMB}, 11>;
    #[kani::stub(alloc::fmt::format, stub_format)]
    #[kani::stub(std::string::ToString::to_string, stub_to_string)]
    #[kani::stub(std::backtrace::Backtrace::capture, stub_backtrace_capture)]
    #[kani::stub(<anyhow::Error as core::ops::Drop>::drop, stub_anyhow_drop)]
    #[kani::stub(core::slice::memchr::memchr, stub_memchr)]
    #[kani::unwind(12)]
    c16_code_id_code_golomb12_be (thorough, "Codes::Golomb param 12, BE stream", "to_code_const then from_code_const: same codewords (symbolic value) / rejected when no constant exists") => code_id_code_be::<_, {GOLOMB}, 12>;
    #[kani::stub(alloc::fmt::format, stub_format)]
    #[kani::stub(std::string::ToString::to_string, stub_to_string)]
    #[kani::stub(std::backtrace::Backtrace::capture, stub_backtrace_capture)]
    #[kani::stub(<anyhow::Error as core::ops::Drop>::drop, stub_anyhow_drop)]
    #[kani::stub(core::slice::memchr::memchr, stub_memchr)]
    #[kani::unwind(12)]
    c16_code_id_code_golomb12_le (thorough, "Codes::Golomb param 12, LE stream", "to_code_const then from_code_const: same codewords (symbolic value) / rejected when no constant exists") => code_id_code_le::<_, {GOLOMB}, 12>;
    #[kani::stub(alloc::fmt::format, stub_format)]
    #[kani::stub(std::string::ToString::to_string, stub_to_string)]
    #[kani::stub(std::backtrace::Backtrace::capture, stub_backtrace_capture)]
    #[kani::stub(<anyhow::Error as core::ops::Drop>::drop, stub_anyhow_drop)]
    #[kani::stub(core::slice::memchr::memchr, stub_memchr)]
    #[kani::unwind(12)]
    c16_code_id_code_exp_golomb0_be (quick, "Codes::ExpGolomb param 0, BE stream", "to_code_const then from_code_const: same codewords (symbolic value) / rejected when no constant exists") => code_id_code_be::<_, {EXP_GOLOMB}, 0>;
    #[kani::stub(alloc::fmt::format, stub_format)]
    #[kani::stub(std::string::ToString::to_string, stub_to_string)]
    #[kani::stub(std::backtrace::Backtrace::capture, stub_backtrace_capture)]
    #[kani::stub(<anyhow::Error as core::ops::Drop>::drop, stub_anyhow_drop)]
    #[kani::stub(core::slice::memchr::memchr, stub_memchr)]
    #[kani::unwind(12)]
    c16_code_id_code_exp_golomb0_le (thorough, "Codes::ExpGolomb param 0, LE stream", "to_code_const then from_code_const: same codewords (symbolic value) / rejected when no constant exists") => code_id_code_le::<_, {EXP_GOLOMB}, 0>;
    #[kani::stub(alloc::fmt::format, stub_format)]
    #[kani::stub(std::string::ToString::to_string, stub_to_string)]
    #[kani::stub(std::backtrace::Backtrace::capture, stub_backtrace_capture)]
    #[kani::stub(<anyhow::Error as core::ops::Drop>::drop, stub_anyhow_drop)]
    #[kani::stub(core::slice::memchr::memchr, stub_memchr)]
    #[kani::unwind(12)]
    c16_code_id_code_exp_golomb1_be (thorough, "Codes::ExpGolomb param 1, BE stream", "to_code_const then from_code_const: same codewords (symbolic value) / rejected when no constant exists") => code_id_code_be::<_, {EXP_GOLOMB}, 1>;
    #[kani::stub(alloc::fmt::format, stub_format)]
    #[kani::stub(std::string::ToString::to_string, stub_to_string)]
    #[kani::stub(std::backtrace::Backtrace::capture, stub_backtrace_capture)]
    #[kani::stub(<anyhow::Error as core::ops::Drop>::drop, stub_anyhow_drop)]
    #[kani::stub(core::slice::memchr::memchr, stub_memchr)]
    #[kani::unwind(12)]
    c16_code_id_code_exp_golomb1_le (thorough, "Codes::ExpGolomb param 1, LE stream", "to_code_const then from_code_const: same codewords (symbolic value) / rejected when no constant exists") => code_id_code_le::<_, {EXP_GOLOMB}, 1>;
    #[kani::stub(alloc::fmt::format, stub_format)]
    #[kani::stub(std::string::ToString::to_string, stub_to_string)]
    #[kani::stub(std::backtrace::Backtrace::capture, stub_backtrace_capture)]
    #[kani::stub(<anyhow::Error as core::ops::Drop>::drop, stub_anyhow_drop)]
    #[kani::stub(core::slice::memchr::memchr, stub_memchr)]
    #[kani::unwind(12)]
    c16_code_id_code_exp_golomb2_be (thorough, "Codes::ExpGolomb param 2, BE stream", "to_code_const then from_code_const: same codewords (symbolic value) / rejected when no constant exists") => code_id_code_be::<_, {EXP_GOLOMB}, 2>;
    #[kani::stub(alloc::fmt::format, stub_format)]
    #[kani::stub(std::string::ToString::to_string, stub_to_string)]
    #[kani::stub(std::backtrace::Backtrace::capture, stub_backtrace_capture)]
    #[kani::stub(<anyhow::Error as core::ops::Drop>::drop, stub_anyhow_drop)]
    #[kani::stub(core::slice::memchr::memchr, stub_memchr)]
    #[kani::unwind(12)]
    c16_code_id_code_exp_golomb2_le (thorough, "Codes::ExpGolomb param 2, LE stream", "to_code_const then from_code_const: same codewords (symbolic value) / rejected when no constant exists") => code_id_code_le::<_, {EXP_GOLOMB}, 2>;
    #[kani::stub(alloc::fmt::format, stub_format)]
    #[kani::stub(std::string::ToString::to_string, stub_to_string)]
    #[kani::stub(std::backtrace::Backtrace::capture, stub_backtrace_capture)]
    #[kani::stub(<anyhow::Error as core::ops::Drop>::drop, stub_anyhow_drop)]
    #[kani::stub(core::slice::memchr::memchr, stub_memchr)]
    #[kani::unwind(12)]
    c16_code_id_code_exp_golomb3_be (thorough, "Codes::ExpGolomb param 3, BE stream", "to_code_const then from_code_const: same codewords (symbolic value) / rejected when no constant exists") => code_id_code_be::<_, {EXP_GOLOMB}, 3>;
    #[kani::stub(alloc::fmt::format, stub_format)]
    #[kani::stub(std::string::ToString::to_string, stub_to_string)]
    #[kani::stub(std::backtrace::Backtrace::capture, stub_backtrace_capture)]
    #[kani::stub(<anyhow::Error as core::ops::Drop>::drop, stub_anyhow_drop)]
    #[kani::stub(core::slice::memchr::memchr, stub_memchr)]
    #[kani::unwind(12)]
    c16_code_id_code_exp_golomb3_le (thorough, "Codes::ExpGolomb param 3, LE stream", "to_code_const then from_code_const: same codewords (symbolic value) / rejected when no constant exists") => code_id_code_le::<_, {EXP_GOLOMB}, 3>;
    #[kani::stub(alloc::fmt::format, stub_format)]
    #[kani::stub(std::string::ToString::to_string, stub_to_string)]
    #[kani::stub(std::backtrace::Backtrace::capture, stub_backtrace_capture)]
    #[kani::stub(<anyhow::Error as core::ops::Drop>::drop, stub_anyhow_drop)]
    #[kani::stub(core::slice::memchr::memchr, stub_memchr)]
    #[kani::unwind(12)]
    c16_code_id_code_exp_golomb4_be (thorough, "Codes::ExpGolomb param 4, BE stream", "to_code_const then from_code_const: same codewords (symbolic value) / rejected when no constant exists") => code_id_code_be::<_, {EXP_GOLOMB}, 4>;
    #[kani::stub(alloc::fmt::format, stub_format)]
    #[kani::stub(std::string::ToString::to_string, stub_to_string)]
    #[kani::stub(std::backtrace::Backtrace::capture, stub_backtrace_capture)]
    #[kani::stub(<anyhow::Error as core::ops::Drop>::drop, stub_anyhow_drop)]
    #[kani::stub(core::slice::memchr::memchr, stub_memchr)]
    #[kani::unwind(12)]
    c16_code_id_code_exp_golomb4_le (thorough, "Codes::ExpGolomb param 4, LE stream", "to_code_const then from_code_const: same codewords (symbolic value) / rejected when no constant exists") => code_id_code_le::<_, {EXP_GOLOMB}, 4>;
    #[kani::stub(alloc::fmt::format, stub_format)]
    #[kani::stub(std::string::ToString::to_string, stub_to_string)]
    #[kani::stub(std::backtrace::Backtrace::capture, stub_backtrace_capture)]
    #[kani::stub(<anyhow::Error as core::ops::Drop>::drop, stub_anyhow_drop)]
    #[kani::stub(core::slice::memchr::memchr, stub_memchr)]
    #[kani::unwind(12)]
    c16_code_id_code_exp_golomb5_be (thorough, "Codes::ExpGolomb param 5, BE stream", "to_code_const then from_code_const: same codewords (symbolic value) / rejected when no constant exists") => code_id_code_be::<_, {EXP_GOLOMB}, 5>;
    #[kani::stub(alloc::fmt::format, stub_format)]
    #[kani::stub(std::string::ToString::to_string, stub_to_string)]
    #[kani::stub(std::backtrace::Backtrace::capture, stub_backtrace_capture)]
    #[kani::stub(<anyhow::Error as core::ops::Drop>::drop, stub_anyhow_drop)]
    #[kani::stub(core::slice::memchr::memchr, stub_memchr)]
    #[kani::unwind(12)]
    c16_code_id_code_exp_golomb5_le (thorough, "Codes::ExpGolomb param 5, LE stream", "to_code_const then from_code_const: same codewords (symbolic value) / rejected when no constant exists") => code_id_code_le::<_, {EXP_GOLOMB}, 5>;
    #[kani::stub(alloc::fmt::format, stub_format)]
    #[kani::stub(std::string::ToString::to_string, stub_to_string)]
    #[kani::stub(std::backtrace::Backtrace::capture, stub_backtrace_capture)]
    #[kani::stub(<anyhow::Error as core::ops::Drop>::drop, stub_anyhow_drop)]
    #[kani::stub(core::slice::memchr::memchr, stub_memchr)]
    #[kani::unwind(12)]
    c16_code_id_code_exp_golomb6_be (thorough, "Codes::ExpGolomb param 6, BE stream", "to_code_const then from_code_const: same codewords (symbolic value) / rejected when no constant exists") => code_id_code_be::<_, {EXP_GOLOMB}, 6>;
    #[kani::stub(alloc::fmt::format, stub_format)]
    #[kani::stub(std::string::ToString::to_string, stub_to_string)]
    #[kani::stub(std::backtrace::Backtrace::capture, stub_backtrace_capture)]
    #[kani::stub(<anyhow::Error as core::ops::Drop>::drop, stub_anyhow_drop)]
    #[kani::stub(core::slice::memchr::memchr, stub_memchr)]
    #[kani::unwind(12)]
    c16_code_id_code_exp_golomb6_le (thorough, "Codes::ExpGolomb param 6, LE stream", "to_code_const then from_code_const: same codewords (symbolic value) / rejected when no constant exists") => code_id_code_le::<_, {EXP_GOLOMB}, 6>;
    #[kani::stub(alloc::fmt::format, stub_format)]
    #[kani::stub(std::string::ToString::to_string, stub_to_string)]
    #[kani::stub(std::backtrace::Backtrace::capture, stub_backtrace_capture)]
    #[kani::stub(<anyhow::Error as core::ops::Drop>::drop, stub_anyhow_drop)]
    #[kani::stub(core::slice::memchr::memchr, stub_memchr)]
    #[kani::unwind(12)]
    c16_code_id_code_exp_golomb7_be (thorough, "Codes::ExpGolomb param 7, BE stream", "to_code_const then from_code_const: same codewords (symbolic value) / rejected when no constant exists") => code_id_code_be::<_, {EXP_GOLOMB}, 7>;
    #[kani::stub(alloc::fmt::format, stub_format)]
    #[kani::stub(std::string::ToString::to_string, stub_to_string)]
    #[kani::stub(std::backtrace::Backtrace::capture, stub_backtrace_capture)]
    #[kani::stub(<anyhow::Error as core::ops::Drop>::drop, stub_anyhow_drop)]
    #[kani::stub(core::slice::memchr::memchr, stub_memchr)]
    #[kani::unwind(12)]
    c16_code_id_code_exp_golomb7_le (thorough, "Codes::ExpGolomb param 7, LE stream", "to_code_const then from_code_const: same codewords (symbolic value) / rejected when no constant exists") => code_id_code_le::<_, {EXP_GOLOMB}, 7>;
    #[kani::stub(alloc::fmt::format, stub_format)]
    #[kani::stub(std::string::ToString::to_string, stub_to_string)]
    #[kani::stub(std::backtrace::Backtrace::capture, stub_backtrace_capture)]
    #[kani::stub(<anyhow::Error as core::ops::Drop>::drop, stub_anyhow_drop)]
    #[kani::stub(core::slice::memchr::memchr, stub_memchr)]
    #[kani::unwind(12)]
    c16_code_id_code_exp_golomb8_be (thorough, "Codes::ExpGolomb param 8, BE stream", "to_code_const then from_code_const: same codewords (symbolic value) / rejected when no constant exists") => code_id_code_be::<_, {EXP_GOLOMB}, 8>;
    #[kani::stub(alloc::fmt::format, stub_format)]
    #[kani::stub(std::string::ToString::to_string, stub_to_string)]
    #[kani::stub(std::backtrace::Backtrace::capture, stub_backtrace_capture)]
    #[kani::stub(<anyhow::Error as core::ops::Drop>::drop, stub_anyhow_drop)]
    #[kani::stub(core::slice::memchr::memchr, stub_memchr)]
    #[kani::unwind(12)]
    c16_code_id_code_exp_golomb8_le (thorough, "Codes::ExpGolomb param 8, LE stream", "to_code_const then from_code_const: same codewords (symbolic value) / rejected when no constant exists") => code_id_code_le::<_, {EXP_GOLOMB}, 8>;
    #[kani::stub(alloc::fmt::format, stub_format)]
    #[kani::stub(std::string::ToString::to_string, stub_to_string)]
    #[kani::stub(std::backtrace::Backtrace::capture, stub_backtrace_capture)]
    #[kani::stub(<anyhow::Error as core::ops::Drop>::drop, stub_anyhow_drop)]
    #[kani::stub(core::slice::memchr::memchr, stub_memchr)]
    #[kani::unwind(12)]
    c16_code_id_code_exp_golomb9_be (thorough, "Codes::ExpGolomb param 9, BE stream", "to_code_const then from_code_const: same codewords (symbolic value) / rejected when no constant exists") => code_id_code_be::<_, {EXP_GOLOMB}, 9>;
    #[kani::stub(alloc::fmt::format, stub_format)]
    #[kani::stub(std::string::ToString::to_string, stub_to_string)]
    #[kani::stub(std::backtrace::Backtrace::capture, stub_backtrace_capture)]
    #[kani::stub(<anyhow::Error as core::ops::Drop>::drop, stub_anyhow_drop)]
    #[kani::stub(core::slice::memchr::memchr, stub_memchr)]
    #[kani::unwind(12)]
    c16_code_id_code_exp_golomb9_le (thorough, "Codes::ExpGolomb param 9, LE stream", "to_code_const then from_code_const: same codewords (symbolic value) / rejected when no constant exists") => code_id_code_le::<_, {EXP_GOLOMB}, 9>;
    #[kani::stub(alloc::fmt::format, stub_format)]
    #[kani::stub(std::string::ToString::to_string, stub_to_string)]
    #[kani::stub(std::backtrace::Backtrace::capture, stub_backtrace_capture)]
    #[kani::stub(<anyhow::Error as core::ops::Drop>::drop, stub_anyhow_drop)]
    #[kani::stub(core::slice::memchr::memchr, stub_memchr)]
    #[kani::unwind(12)]
    c16_code_id_code_exp_golomb10_be (quick, "Codes::ExpGolomb param 10, BE stream", "to_code_const then from_code_const: same codewords (symbolic value) / rejected when no constant exists") => code_id_code_be::<_, {EXP_GOLOMB}, 10>;
    #[kani::stub(alloc::fmt::format, stub_format)]
    #[kani::stub(std::string::ToString::to_string, stub_to_string)]
    #[kani::stub(std::backtrace::Backtrace::capture, stub_backtrace_capture)]
    #[kani::stub(<anyhow::Error as core::ops::Drop>::drop, stub_anyhow_drop)]
    #[kani::stub(core::slice::memchr::memchr, stub_memchr)]
    #[kani::unwind(12)]
    c16_code_id_code_exp_golomb10_le (thorough, "Codes::ExpGolomb param 10, LE stream", "to_code_const then from_code_const: same codewords (symbolic value) / rejected when no constant exists") => code_id_code_le::<_, {EXP_GOLOMB}, 10>;
    #[kani::stub(alloc::fmt::format, stub_format)]
    #[kani::stub(std::string::ToString::to_string, stub_to_string)]
    #[kani::stub(std::backtrace::Backtrace::capture, stub_backtrace_capture)]
    #[kani::stub(<anyhow::Error as core::ops::Drop>::drop, stub_anyhow_drop)]
    #[kani::stub(core::slice::memchr::memchr, stub_memchr)]
    #[kani::unwind(12)]
    c16_code_id_code_exp_golomb11_be (thorough, "Codes::ExpGolomb param 11, BE stream", "to_code_const then from_code_const: same codewords (symbolic value) / rejected when no constant exists") => code_id_code_be::<_, {EXP_GOLOMB}, 11>;
    #[kani::stub(alloc::fmt::format, stub_format)]
    #[kani::stub(std::string::ToString::to_string, stub_to_string)]
    #[kani::stub(std::backtrace::Backtrace::capture, stub_backtrace_capture)]
    #[kani::stub(<anyhow::Error as core::ops::Drop>::drop, stub_anyhow_drop)]
    #[kani::stub(core::slice::memchr::memchr, stub_memchr)]
    #[kani::unwind(12)]
    c16_code_id_code_exp_golomb11_le (thorough, "Codes::ExpGolomb param 11, LE stream", "to_code_const then from_code_const: same codewords (symbolic value) / rejected when no constant exists") => code_id_code_le::<_, {EXP_GOLOMB}, 11>;
    #[kani::stub(alloc::fmt::format, stub_format)]
    #[kani::stub(std::string::ToString::to_string, stub_to_string)]
    #[kani::stub(std::backtrace::Backtrace::capture, stub_backtrace_capture)]
    #[kani::stub(<anyhow::Error as core::ops::Drop>::drop, stub_anyhow_drop)]
    #[kani::stub(core::slice::memchr::memchr, stub_memchr)]
    #[kani::unwind(12)]
    c16_code_id_code_exp_golomb12_be (quick, "Codes::ExpGolomb param 12, BE stream", "to_code_const then from_code_const: same codewords (symbolic value) / rejected when no constant exists") => code_id_code_be::<_, {EXP_GOLOMB}, 12>;
    #[kani::stub(alloc::fmt::format, stub_format)]
    #[kani::stub(std::string::ToString::to_string, stub_to_string)]
    #[kani::stub(std::backtrace::Backtrace::capture, stub_backtrace_capture)]
    #[kani::stub(<anyhow::Error as core::ops::Drop>::drop, stub_anyhow_drop)]
    #[kani::stub(core::slice::memchr::memchr, stub_memchr)]
    #[kani::unwind(12)]
    c16_code_id_code_exp_golomb12_le (thorough, "Codes::ExpGolomb param 12, LE stream", "to_code_const then from_code_const: same codewords (symbolic value) / rejected when no constant exists") => code_id_code_le::<_, {EXP_GOLOMB}, 12>;
    #[kani::stub(alloc::fmt::format, stub_format)]
    #[kani::stub(std::string::ToString::to_string, stub_to_string)]
    #[kani::stub(std::backtrace::Backtrace::capture, stub_backtrace_capture)]
    #[kani::stub(<anyhow::Error as core::ops::Drop>::drop, stub_anyhow_drop)]
    #[kani::stub(core::slice::memchr::memchr, stub_memchr)]
    #[kani::unwind(12)]
    c16_code_id_code_rice0_be (quick, "Codes::Rice param 0, BE stream", "to_code_const then from_code_const: same codewords (symbolic value) / rejected when no constant exists") => code_id_code_be::<_, {RICE}, 0>;
    #[kani::stub(alloc::fmt::format, stub_format)]
    #[kani::stub(std::string::ToString::to_string, stub_to_string)]
    #[kani::stub(std::backtrace::Backtrace::capture, stub_backtrace_capture)]
    #[kani::stub(<anyhow::Error as core::ops::Drop>::drop, stub_anyhow_drop)]
    #[kani::stub(core::slice::memchr::memchr, stub_memchr)]
    #[kani::unwind(12)]
    c16_code_id_code_rice0_le (thorough, "Codes::Rice param 0, LE stream", "to_code_const then from_code_const: same codewords (symbolic value) / rejected when no constant exists") => code_id_code_le::<_, {RICE}, 0>;
    #[kani::stub(alloc::fmt::format, stub_format)]
    #[kani::stub(std::string::ToString::to_string, stub_to_string)]
    #[kani::stub(std::backtrace::Backtrace::capture, stub_backtrace_capture)]
    #[kani::stub(<anyhow::Error as core::ops::Drop>::drop, stub_anyhow_drop)]
    #[kani::stub(core::slice::memchr::memchr, stub_memchr)]
    #[kani::unwind(12)]
    c16_code_id_code_rice1_be (thorough, "Codes::Rice param 1, BE stream", "to_code_const then from_code_const: same codewords (symbolic value) / rejected when no constant exists") => code_id_code_be::<_, {RICE}, 1>;
    #[kani::stub(alloc::fmt::format, stub_format)]
    #[kani::stub(std::string::ToString::to_string, stub_to_string)]
    #[kani::stub(std::backtrace::Backtrace::capture, stub_backtrace_capture)]
    #[kani::stub(<anyhow::Error as core::ops::Drop>::drop, stub_anyhow_drop)]
    #[kani::stub(core::slice::memchr::memchr, stub_memchr)]
    #[kani::unwind(12)]
    c16_code_id_code_rice1_le (thorough, "Codes::Rice param 1, LE stream", "to_code_const then from_code_const: same codewords (symbolic value) / rejected when no constant exists") => code_id_code_le::<_, {RICE}, 1>;
    #[kani::stub(alloc::fmt::format, stub_format)]
    #[kani::stub(std::string::ToString::to_string, stub_to_string)]
    #[kani::stub(std::backtrace::Backtrace::capture, stub_backtrace_capture)]
    #[kani::stub(<anyhow::Error as core::ops::Drop>::drop, stub_anyhow_drop)]
    #[kani::stub(core::slice::memchr::memchr, stub_memchr)]
    #[kani::unwind(12)]
    c16_code_id_code_rice2_be (thorough, "Codes::Rice param 2, BE stream", "to_code_const then from_code_const: same codewords (symbolic value) / rejected when no constant exists") => code_id_code_be::<_, {RICE}, 2>;
    #[kani::stub(alloc::fmt::format, stub_format)]
    #[kani::stub(std::string::ToString::to_string, stub_to_string)]
    #[kani::stub(std::backtrace::Backtrace::capture, stub_backtrace_capture)]
    #[kani::stub(<anyhow::Error as core::ops::Drop>::drop, stub_anyhow_drop)]
    #[kani::stub(core::slice::memchr::memchr, stub_memchr)]
    #[kani::unwind(12)]
    c16_code_id_code_rice2_le (thorough, "Codes::Rice param 2, LE stream", "to_code_const then from_code_const: same codewords (symbolic value) / rejected when no constant exists") => code_id_code_le::<_, {RICE}, 2>;
    #[kani::stub(alloc::fmt::format, stub_format)]
    #[kani::stub(std::string::ToString::to_string, stub_to_string)]
    #[kani::stub(std::backtrace::Backtrace::capture, stub_backtrace_capture)]
    #[kani::stub(<anyhow::Error as core::ops::Drop>::drop, stub_anyhow_drop)]
    #[kani::stub(core::slice::memchr::memchr, stub_memchr)]
    #[kani::unwind(12)]
    c16_code_id_code_rice3_be (quick, "Codes::Rice param 3, BE stream", "to_code_const then from_code_const: same codewords (symbolic value) / rejected when no constant exists") => code_id_code_be::<_, {RICE}, 3>;
    #[kani::stub(alloc::fmt::format, stub_format)]
    #[kani::stub(std::string::ToString::to_string, stub_to_string)]
    #[kani::stub(std::backtrace::Backtrace::capture, stub_backtrace_capture)]
    #[kani::stub(<anyhow::Error as core::ops::Drop>::drop, stub_anyhow_drop)]
    #[kani::stub(core::slice::memchr::memchr, stub_memchr)]
    #[kani::unwind(12)]
    c16_code_id_code_rice3_le (thorough, "Codes::Rice param 3, LE stream", "to_code_const then from_code_const: same codewords (symbolic value) / rejected when no constant exists") => code_id_code_le::<_, {RICE}, 3>;
    #[kani::stub(alloc::fmt::format, stub_format)]
    #[kani::stub(std::string::ToString::to_string, stub_to_string)]
    #[kani::stub(std::backtrace::Backtrace::capture, stub_backtrace_capture)]
    #[kani::stub(<anyhow::Error as core::ops::Drop>::drop, stub_anyhow_drop)]
    #[kani::stub(core::slice::memchr::memchr, stub_memchr)]
    #[kani::unwind(12)]
    c16_code_id_code_rice4_be (thorough, "Codes::Rice param 4, BE stream", "to_code_const then from_code_const: same codewords (symbolic value) / rejected when no constant exists") => code_id_code_be::<_, {RICE}, 4>;
    #[kani::stub(alloc::fmt::format, stub_format)]
    #[kani::stub(std::string::ToString::to_string, stub_to_string)]
    #[kani::stub(std::backtrace::Backtrace::capture, stub_backtrace_capture)]
    #[kani::stub(<anyhow::Error as core::ops::Drop>::drop, stub_anyhow_drop)]
    #[kani::stub(core::slice::memchr::memchr, stub_memchr)]
    #[kani::unwind(12)]
    c16_code_id_code_rice4_le (thorough, "Codes::Rice param 4, LE stream", "to_code_const then from_code_const: same codewords (symbolic value) / rejected when no constant exists") => code_id_code_le::<_, {RICE}, 4>;
    #[kani::stub(alloc::fmt::format, stub_format)]
    #[kani::stub(std::string::ToString::to_string, stub_to_string)]
    #[kani::stub(std::backtrace::Backtrace::capture, stub_backtrace_capture)]
    #[kani::stub(<anyhow::Error as core::ops::Drop>::drop, stub_anyhow_drop)]
    #[kani::stub(core::slice::memchr::memchr, stub_memchr)]
    #[kani::unwind(12)]
    c16_code_id_code_rice5_be (thorough, "Codes::Rice param 5, BE stream", "to_code_const then from_code_const: same codewords (symbolic value) / rejected when no constant exists") => code_id_code_be::<_, {RICE}, 5>;
    #[kani::stub(alloc::fmt::format, stub_format)]
    #[kani::stub(std::string::ToString::to_string, stub_to_string)]
    #[kani::stub(std::backtrace::Backtrace::capture, stub_backtrace_capture)]
    #[kani::stub(<anyhow::Error as core::ops::Drop>::drop, stub_anyhow_drop)]
    #[kani::stub(core::slice::memchr::memchr, stub_memchr)]
    #[kani::unwind(12)]
    c16_code_id_code_rice5_le (thorough, "Codes::Rice param 5, LE stream", "to_code_const then from_code_const: same codewords (symbolic value) / rejected when no constant exists") => code_id_code_le::<_, {RICE}, 5>;
    #[kani::stub(alloc::fmt::format, stub_format)]
    #[kani::stub(std::string::ToString::to_string, stub_to_string)]
    #[kani::stub(std::backtrace::Backtrace::capture, stub_backtrace_capture)]
    #[kani::stub(<anyhow::Error as core::ops::Drop>::drop, stub_anyhow_drop)]
    #[kani::stub(core::slice::memchr::memchr, stub_memchr)]
    #[kani::unwind(12)]
    c16_code_id_code_rice6_be (thorough, "Codes::Rice param 6, BE stream", "to_code_const then from_code_const: same codewords (symbolic value) / rejected when no constant exists") => code_id_code_be::<_, {RICE}, 6>;
    #[kani::stub(alloc::fmt::format, stub_format)]
    #[kani::stub(std::string::ToString::to_string, stub_to_string)]
    #[kani::stub(std::backtrace::Backtrace::capture, stub_backtrace_capture)]
    #[kani::stub(<anyhow::Error as core::ops::Drop>::drop, stub_anyhow_drop)]
    #[kani::stub(core::slice::memchr::memchr, stub_memchr)]
    #[kani::unwind(12)]
    c16_code_id_code_rice6_le (thorough, "Codes::Rice param 6, LE stream", "to_code_const then from_code_const: same codewords (symbolic value) / rejected when no constant exists") => code_id_code_le::<_, {RICE}, 6>;
    #[kani::stub(alloc::fmt::format, stub_format)]
    #[kani::stub(std::string::ToString::to_string, stub_to_string)]
    #[kani::stub(std::backtrace::Backtrace::capture, stub_backtrace_capture)]
    #[kani::stub(<anyhow::Error as core::ops::Drop>::drop, stub_anyhow_drop)]
    #[kani::stub(core::slice::memchr::memchr, stub_memchr)]
    #[kani::unwind(12)]
    c16_code_id_code_rice7_be (thorough, "Codes::Rice param 7, BE stream", "to_code_const then from_code_const: same codewords (symbolic value) / rejected when no constant exists") => code_id_code_be::<_, {RICE}, 7>;
    #[kani::stub(alloc::fmt::format, stub_format)]
    #[kani::stub(std::string::ToString::to_string, stub_to_string)]
    #[kani::stub(std::backtrace::Backtrace::capture, stub_backtrace_capture)]
    #[kani::stub(<anyhow::Error as core::ops::Drop>::drop, stub_anyhow_drop)]
    #[kani::stub(core::slice::memchr::memchr, stub_memchr)]
    #[kani::unwind(12)]
    c16_code_id_code_rice7_le (thorough, "Codes::Rice param 7, LE stream", "to_code_const then from_code_const: same codewords (symbolic value) / rejected when no constant exists") => code_id_code_le::<_, {RICE}, 7>;
    #[kani::stub(alloc::fmt::format, stub_format)]
    #[kani::stub(std::string::ToString::to_string, stub_to_string)]
    #[kani::stub(std::backtrace::Backtrace::capture, stub_backtrace_capture)]
    #[kani::stub(<anyhow::Error as core::ops::Drop>::drop, stub_anyhow_drop)]
    #[kani::stub(core::slice::memchr::memchr, stub_memchr)]
    #[kani::unwind(12)]
    c16_code_id_code_rice8_be (thorough, "Codes::Rice param 8, BE stream", "to_code_const then from_code_const: same codewords (symbolic value) / rejected when no constant exists") => code_id_code_be::<_, {RICE}, 8>;
    #[kani::stub(alloc::fmt::format, stub_format)]
    #[kani::stub(std::string::ToString::to_string, stub_to_string)]
    #[kani::stub(std::backtrace::Backtrace::capture, stub_backtrace_capture)]
    #[kani::stub(<anyhow::Error as core::ops::Drop>::drop, stub_anyhow_drop)]
    #[kani::stub(core::slice::memchr::memchr, stub_memchr)]
    #[kani::unwind(12)]
    c16_code_id_code_rice8_le (thorough, "Codes::Rice param 8, LE stream", "to_code_const then from_code_const: same codewords (symbolic value) / rejected when no constant exists") => code_id_code_le::<_, {RICE}, 8>;
    #[kani::stub(alloc::fmt::format, stub_format)]
    #[kani::stub(std::string::ToString::to_string, stub_to_string)]
    #[kani::stub(std::backtrace::Backtrace::capture, stub_backtrace_capture)]
    #[kani::stub(<anyhow::Error as core::ops::Drop>::drop, stub_anyhow_drop)]
    #[kani::stub(core::slice::memchr::memchr, stub_memchr)]
    #[kani::unwind(12)]
    c16_code_id_code_rice9_be (thorough, "Codes::Rice param 9, BE stream", "to_code_const then from_code_const: same codewords (symbolic value) / rejected when no constant exists") => code_id_code_be::<_, {RICE}, 9>;
    #[kani::stub(alloc::fmt::format, stub_format)]
    #[kani::stub(std::string::ToString::to_string, stub_to_string)]
    #[kani::stub(std::backtrace::Backtrace::capture, stub_backtrace_capture)]
    #[kani::stub(<anyhow::Error as core::ops::Drop>::drop, stub_anyhow_drop)]
    #[kani::stub(core::slice::memchr::memchr, stub_memchr)]
    #[kani::unwind(12)]
    c16_code_id_code_rice9_le (thorough, "Codes::Rice param 9, LE stream", "to_code_const then from_code_const: same codewords (symbolic value) / rejected when no constant exists") => code_id_code_le::<_, {RICE}, 9>;
    #[kani::stub(alloc::fmt::format, stub_format)]
    #[kani::stub(std::string::ToString::to_string, stub_to_string)]
    #[kani::stub(std::backtrace::Backtrace::capture, stub_backtrace_capture)]
    #[kani::stub(<anyhow::Error as core::ops::Drop>::drop, stub_anyhow_drop)]
    #[kani::stub(core::slice::memchr::memchr, stub_memchr)]
    #[kani::unwind(12)]
    c16_code_id_code_rice10_be (thorough, "Codes::Rice param 10, BE stream", "to_code_const then from_code_const: same codewords (symbolic value) / rejected when no constant exists") => code_id_code_be::<_, {RICE}, 10>;
    #[kani::stub(alloc::fmt::format, stub_format)]
    #[kani::stub(std::string::ToString::to_string, stub_to_string)]
    #[kani::stub(std::backtrace::Backtrace::capture, stub_backtrace_capture)]
    #[kani::stub(<anyhow::Error as core::ops::Drop>::drop, stub_anyhow_drop)]
    #[kani::stub(core::slice::memchr::memchr, stub_memchr)]
    #[kani::unwind(12)]
    c16_code_id_code_rice10_le (thorough, "Codes::Rice param 10, LE stream", "to_code_const then from_code_const: same codewords (symbolic value) / rejected when no constant exists") => code_id_code_le::<_, {RICE}, 10>;
    #[kani::stub(alloc::fmt::format, stub_format)]
    #[kani::stub(std::string::ToString::to_string, stub_to_string)]
    #[kani::stub(std::backtrace::Backtrace::capture, stub_backtrace_capture)]
    #[kani::stub(<anyhow::Error as core::ops::Drop>::drop, stub_anyhow_drop)]
    #[kani::stub(core::slice::memchr::memchr, stub_memchr)]
    #[kani::unwind(12)]
    c16_code_id_code_rice11_be (quick, "Codes::Rice param 11, BE stream", "to_code_const then from_code_const: same codewords (symbolic value) / rejected when no constant exists") => code_id_code_be::<_, {RICE}, 11>;
    #[kani::stub(alloc::fmt::format, stub_format)]
    #[kani::stub(std::string::ToString::to_string, stub_to_string)]
    #[kani::stub(std::backtrace::Backtrace::capture, stub_backtrace_capture)]
    #[kani::stub(<anyhow::Error as core::ops::Drop>::drop, stub_anyhow_drop)]
    #[kani::stub(core::slice::memchr::memchr, stub_memchr)]
    #[kani::unwind(12)]
    c16_code_id_code_rice11_le (thorough, "Codes::Rice param 11, LE stream", "to_code_const then from_code_const: same codewords (symbolic value) / rejected when no constant exists") => code_id_code_le::<_, {RICE}, 11>;
    #[kani::stub(alloc::fmt::format, stub_format)]
    #[kani::stub(std::string::ToString::to_string, stub_to_string)]
    #[kani::stub(std::backtrace::Backtrace::capture, stub_backtrace_capture)]
    #[kani::stub(<anyhow::Error as core::ops::Drop>::drop, stub_anyhow_drop)]
    #[kani::stub(core::slice::memchr::memchr, stub_memchr)]
    #[kani::unwind(12)]
    c16_code_id_code_rice12_be (thorough, "Codes::Rice param 12, BE stream", "to_code_const then from_code_const: same codewords (symbolic value) / rejected when no constant exists") => code_id_code_be::<_, {RICE}, 12>;
    #[kani::stub(alloc::fmt::format, stub_format)]
    #[kani::stub(std::string::ToString::to_string, stub_to_string)]
    #[kani::stub(std::backtrace::Backtrace::capture, stub_backtrace_capture)]
    #[kani::stub(<anyhow::Error as core::ops::Drop>::drop, stub_anyhow_drop)]
    #[kani::stub(core::slice::memchr::memchr, stub_memchr)]
    #[kani::unwind(12)]
    c16_code_id_code_rice12_le (thorough, "Codes::Rice param 12, LE stream", "to_code_const then from_code_const: same codewords (symbolic value) / rejected when no constant exists") => code_id_code_le::<_, {RICE}, 12>;
    #[kani::stub(alloc::fmt::format, stub_format)]
    #[kani::stub(std::string::ToString::to_string, stub_to_string)]
    #[kani::stub(std::backtrace::Backtrace::capture, stub_backtrace_capture)]
    #[kani::stub(<anyhow::Error as core::ops::Drop>::drop, stub_anyhow_drop)]
    #[kani::stub(core::slice::memchr::memchr, stub_memchr)]
    #[kani::unwind(12)]
    c16_code_id_code_zeta0_be (thorough, "Codes::Zeta param 0, BE stream", "to_code_const then from_code_const: same codewords (symbolic value) / rejected when no constant exists") => code_id_code_be::<_, {ZETA}, 0>;
    #[kani::stub(alloc::fmt::format, stub_format)]
    #[kani::stub(std::string::ToString::to_string, stub_to_string)]
    #[kani::stub(std::backtrace::Backtrace::capture, stub_backtrace_capture)]
    #[kani::stub(<anyhow::Error as core::ops::Drop>::drop, stub_anyhow_drop)]
    #[kani::stub(core::slice::memchr::memchr, stub_memchr)]
    #[kani::unwind(12)]
    c16_code_id_code_zeta0_le (thorough, "Codes::Zeta param 0, LE stream", "to_code_const then from_code_const: same codewords (symbolic value) / rejected when no constant exists") => code_id_code_le::<_, {ZETA}, 0>;
    #[kani::stub(alloc::fmt::format, stub_format)]
    #[kani::stub(std::string::ToString::to_string, stub_to_string)]
    #[kani::stub(std::backtrace::Backtrace::capture, stub_backtrace_capture)]
    #[kani::stub(<anyhow::Error as core::ops::Drop>::drop, stub_anyhow_drop)]
    #[kani::stub(core::slice::memchr::memchr, stub_memchr)]
    #[kani::unwind(12)]
    c16_code_id_code_golomb0_be (thorough, "Codes::Golomb param 0, BE stream", "to_code_const then from_code_const: same codewords (symbolic value) / rejected when no constant exists") => code_id_code_be::<_, {GOLOMB}, 0>;
    #[kani::stub(alloc::fmt::format, stub_format)]
    #[kani::stub(std::string::ToString::to_string, stub_to_string)]
    #[kani::stub(std::backtrace::Backtrace::capture, stub_backtrace_capture)]
    #[kani::stub(<anyhow::Error as core::ops::Drop>::drop, stub_anyhow_drop)]
    #[kani::stub(core::slice::memchr::memchr, stub_memchr)]
    #[kani::unwind(12)]
    c16_code_id_code_golomb0_le (thorough, "Codes::Golomb param 0, LE stream", "to_code_const then from_code_const: same codewords (symbolic value) / rejected when no constant exists") => code_id_code_le::<_, {GOLOMB}, 0>;
    #[kani::unwind(12)]
    c16_canon_rice0_unary0_be (quick, "RICE0 == UNARY0, BE stream", "identical codewords and lengths (lemma behind the canonical classes), symbolic value") => eq_pair_be::<_, {RICE}, 0, {UNARY}, 0>;
    #[kani::unwind(12)]
    c16_canon_rice0_unary0_le (quick, "RICE0 == UNARY0, LE stream", "identical codewords and lengths (lemma behind the canonical classes), symbolic value") => eq_pair_le::<_, {RICE}, 0, {UNARY}, 0>;
    #[kani::unwind(12)]
    c16_canon_golomb1_unary0_be (quick, "GOLOMB1 == UNARY0, BE stream", "identical codewords and lengths (lemma behind the canonical classes), symbolic value") => eq_pair_be::<_, {GOLOMB}, 1, {UNARY}, 0>;
    #[kani::unwind(12)]
    c16_canon_golomb1_unary0_le (quick, "GOLOMB1 == UNARY0, LE stream", "identical codewords and lengths (lemma behind the canonical classes), symbolic value") => eq_pair_le::<_, {GOLOMB}, 1, {UNARY}, 0>;
    #[kani::unwind(12)]
    c16_canon_zeta1_gamma0_be (quick, "ZETA1 == GAMMA0, BE stream", "identical codewords and lengths (lemma behind the canonical classes), symbolic value") => eq_pair_be::<_, {ZETA}, 1, {GAMMA}, 0>;
    #[kani::unwind(12)]
    c16_canon_zeta1_gamma0_le (quick, "ZETA1 == GAMMA0, LE stream", "identical codewords and lengths (lemma behind the canonical classes), symbolic value") => eq_pair_le::<_, {ZETA}, 1, {GAMMA}, 0>;
    #[kani::unwind(12)]
    c16_canon_exp_golomb0_gamma0_be (quick, "EXP_GOLOMB0 == GAMMA0, BE stream", "identical codewords and lengths (lemma behind the canonical classes), symbolic value") => eq_pair_be::<_, {EXP_GOLOMB}, 0, {GAMMA}, 0>;
    #[kani::unwind(12)]
    c16_canon_exp_golomb0_gamma0_le (quick, "EXP_GOLOMB0 == GAMMA0, LE stream", "identical codewords and lengths (lemma behind the canonical classes), symbolic value") => eq_pair_le::<_, {EXP_GOLOMB}, 0, {GAMMA}, 0>;
    #[kani::unwind(12)]
    c16_canon_golomb2_rice1_be (quick, "GOLOMB2 == RICE1, BE stream", "identical codewords and lengths (lemma behind the canonical classes), symbolic value") => eq_pair_be::<_, {GOLOMB}, 2, {RICE}, 1>;
    #[kani::unwind(12)]
    c16_canon_golomb2_rice1_le (quick, "GOLOMB2 == RICE1, LE stream", "identical codewords and lengths (lemma behind the canonical classes), symbolic value") => eq_pair_le::<_, {GOLOMB}, 2, {RICE}, 1>;
    #[kani::unwind(12)]
    c16_canon_golomb4_rice2_be (quick, "GOLOMB4 == RICE2, BE stream", "identical codewords and lengths (lemma behind the canonical classes), symbolic value") => eq_pair_be::<_, {GOLOMB}, 4, {RICE}, 2>;
    #[kani::unwind(12)]
    c16_canon_golomb4_rice2_le (quick, "GOLOMB4 == RICE2, LE stream", "identical codewords and lengths (lemma behind the canonical classes), symbolic value") => eq_pair_le::<_, {GOLOMB}, 4, {RICE}, 2>;
    #[kani::unwind(12)]
    c16_canon_golomb8_rice3_be (quick, "GOLOMB8 == RICE3, BE stream", "identical codewords and lengths (lemma behind the canonical classes), symbolic value") => eq_pair_be::<_, {GOLOMB}, 8, {RICE}, 3>;
    #[kani::unwind(12)]
    c16_canon_golomb8_rice3_le (quick, "GOLOMB8 == RICE3, LE stream", "identical codewords and lengths (lemma behind the canonical classes), symbolic value") => eq_pair_le::<_, {GOLOMB}, 8, {RICE}, 3>;
    #[kani::unwind(12)]
    c16_canon_pi0_gamma0_be (quick, "PI0 vs GAMMA0, BE stream", "identical codewords and lengths (lemma behind the canonical classes), symbolic value") => eq_pair_be::<_, {PI}, 0, {GAMMA}, 0>;
    #[kani::unwind(12)]
    c16_canon_pi0_gamma0_le (quick, "PI0 vs GAMMA0, LE stream", "identical codewords and lengths (lemma behind the canonical classes), symbolic value") => eq_pair_le::<_, {PI}, 0, {GAMMA}, 0>;
    #[kani::unwind(12)]
    c16_canon_golomb16_rice4_be (quick, "GOLOMB16 vs RICE4, BE stream", "identical codewords and lengths (lemma behind the canonical classes), symbolic value") => eq_pair_be::<_, {GOLOMB}, 16, {RICE}, 4>;
    #[kani::unwind(12)]
    c16_canon_golomb16_rice4_le (quick, "GOLOMB16 vs RICE4, LE stream", "identical codewords and lengths (lemma behind the canonical classes), symbolic value") => eq_pair_le::<_, {GOLOMB}, 16, {RICE}, 4>;
    c16_canon_golomb_pow2_be (quick, "Golomb(2^k) vs Rice(k), BE stream", "k in 0..=10 symbolic, symbolic value") => canon_golomb_pow2::<BE, _>;
    c16_canon_golomb_pow2_le (quick, "Golomb(2^k) vs Rice(k), LE stream", "k in 0..=10 symbolic, symbolic value") => canon_golomb_pow2::<LE, _>;
    #[kani::stub(alloc::fmt::format, stub_format)]
    #[kani::stub(std::string::ToString::to_string, stub_to_string)]
    #[kani::stub(std::backtrace::Backtrace::capture, stub_backtrace_capture)]
    #[kani::stub(<anyhow::Error as core::ops::Drop>::drop, stub_anyhow_drop)]
    #[kani::stub(core::slice::memchr::memchr, stub_memchr)]
    #[kani::unwind(32)]
    c16_parse3_zeta (thorough, "FromStr for Codes", "Zeta(k) with a symbolic 3-digit k (10^2..10^3-1)") => parse_digits::<_, {ZETA}, 3>;
    #[kani::stub(alloc::fmt::format, stub_format)]
    #[kani::stub(std::string::ToString::to_string, stub_to_string)]
    #[kani::stub(std::backtrace::Backtrace::capture, stub_backtrace_capture)]
    #[kani::stub(<anyhow::Error as core::ops::Drop>::drop, stub_anyhow_drop)]
    #[kani::stub(core::slice::memchr::memchr, stub_memchr)]
    #[kani::unwind(32)]
    c16_parse5_zeta (thorough, "FromStr for Codes", "Zeta(k) with a symbolic 5-digit k (10^4..10^5-1)") => parse_digits::<_, {ZETA}, 5>;
    #[kani::stub(alloc::fmt::format, stub_format)]
    #[kani::stub(std::string::ToString::to_string, stub_to_string)]
    #[kani::stub(std::backtrace::Backtrace::capture, stub_backtrace_capture)]
    #[kani::stub(<anyhow::Error as core::ops::Drop>::drop, stub_anyhow_drop)]
    #[kani::stub(core::slice::memchr::memchr, stub_memchr)]
    #[kani::unwind(32)]
    c16_parse3_pi (thorough, "FromStr for Codes", "Pi(k) with a symbolic 3-digit k (10^2..10^3-1)") => parse_digits::<_, {PI}, 3>;
    #[kani::stub(alloc::fmt::format, stub_format)]
    #[kani::stub(std::string::ToString::to_string, stub_to_string)]
    #[kani::stub(std::backtrace::Backtrace::capture, stub_backtrace_capture)]
    #[kani::stub(<anyhow::Error as core::ops::Drop>::drop, stub_anyhow_drop)]
    #[kani::stub(core::slice::memchr::memchr, stub_memchr)]
    #[kani::unwind(32)]
    c16_parse5_pi (thorough, "FromStr for Codes", "Pi(k) with a symbolic 5-digit k (10^4..10^5-1)") => parse_digits::<_, {PI}, 5>;
    #[kani::stub(alloc::fmt::format, stub_format)]
    #[kani::stub(std::string::ToString::to_string, stub_to_string)]
    #[kani::stub(std::backtrace::Backtrace::capture, stub_backtrace_capture)]
    #[kani::stub(<anyhow::Error as core::ops::Drop>::drop, stub_anyhow_drop)]
    #[kani::stub(core::slice::memchr::memchr, stub_memchr)]
    #[kani::unwind(32)]
    c16_parse3_golomb (thorough, "FromStr for Codes", "Golomb(k) with a symbolic 3-digit k (10^2..10^3-1)") => parse_digits::<_, {GOLOMB}, 3>;
    #[kani::stub(alloc::fmt::format, stub_format)]
    #[kani::stub(std::string::ToString::to_string, stub_to_string)]
    #[kani::stub(std::backtrace::Backtrace::capture, stub_backtrace_capture)]
    #[kani::stub(<anyhow::Error as core::ops::Drop>::drop, stub_anyhow_drop)]
    #[kani::stub(core::slice::memchr::memchr, stub_memchr)]
    #[kani::unwind(32)]
    c16_parse5_golomb (thorough, "FromStr for Codes", "Golomb(k) with a symbolic 5-digit k (10^4..10^5-1)") => parse_digits::<_, {GOLOMB}, 5>;
    #[kani::stub(alloc::fmt::format, stub_format)]
    #[kani::stub(std::string::ToString::to_string, stub_to_string)]
    #[kani::stub(std::backtrace::Backtrace::capture, stub_backtrace_capture)]
    #[kani::stub(<anyhow::Error as core::ops::Drop>::drop, stub_anyhow_drop)]
    #[kani::stub(core::slice::memchr::memchr, stub_memchr)]
    #[kani::unwind(32)]
    c16_parse3_exp_golomb (thorough, "FromStr for Codes", "ExpGolomb(k) with a symbolic 3-digit k (10^2..10^3-1)") => parse_digits::<_, {EXP_GOLOMB}, 3>;
    #[kani::stub(alloc::fmt::format, stub_format)]
    #[kani::stub(std::string::ToString::to_string, stub_to_string)]
    #[kani::stub(std::backtrace::Backtrace::capture, stub_backtrace_capture)]
    #[kani::stub(<anyhow::Error as core::ops::Drop>::drop, stub_anyhow_drop)]
    #[kani::stub(core::slice::memchr::memchr, stub_memchr)]
    #[kani::unwind(32)]
    c16_parse5_exp_golomb (thorough, "FromStr for Codes", "ExpGolomb(k) with a symbolic 5-digit k (10^4..10^5-1)") => parse_digits::<_, {EXP_GOLOMB}, 5>;
    #[kani::stub(alloc::fmt::format, stub_format)]
    #[kani::stub(std::string::ToString::to_string, stub_to_string)]
    #[kani::stub(std::backtrace::Backtrace::capture, stub_backtrace_capture)]
    #[kani::stub(<anyhow::Error as core::ops::Drop>::drop, stub_anyhow_drop)]
    #[kani::stub(core::slice::memchr::memchr, stub_memchr)]
    #[kani::unwind(32)]
    c16_parse3_rice (thorough, "FromStr for Codes", "Rice(k) with a symbolic 3-digit k (10^2..10^3-1)") => parse_digits::<_, {RICE}, 3>;
    #[kani::stub(alloc::fmt::format, stub_format)]
    #[kani::stub(std::string::ToString::to_string, stub_to_string)]
    #[kani::stub(std::backtrace::Backtrace::capture, stub_backtrace_capture)]
    #[kani::stub(<anyhow::Error as core::ops::Drop>::drop, stub_anyhow_drop)]
    #[kani::stub(core::slice::memchr::memchr, stub_memchr)]
    #[kani::unwind(32)]
    c16_parse5_rice (thorough, "FromStr for Codes", "Rice(k) with a symbolic 5-digit k (10^4..10^5-1)") => parse_digits::<_, {RICE}, 5>;
    #[kani::stub(alloc::fmt::format, stub_format)]
    #[kani::stub(std::string::ToString::to_string, stub_to_string)]
    #[kani::stub(std::backtrace::Backtrace::capture, stub_backtrace_capture)]
    #[kani::stub(<anyhow::Error as core::ops::Drop>::drop, stub_anyhow_drop)]
    #[kani::stub(core::slice::memchr::memchr, stub_memchr)]
    #[kani::unwind(32)]
    c16_parse10_zeta (thorough, "FromStr for Codes", "Zeta(k) with a symbolic 10-digit k (10^9..10^10-1)") => parse_digits::<_, {ZETA}, 10>;
    #[kani::stub(alloc::fmt::format, stub_format)]
    #[kani::stub(std::string::ToString::to_string, stub_to_string)]
    #[kani::stub(std::backtrace::Backtrace::capture, stub_backtrace_capture)]
    #[kani::stub(<anyhow::Error as core::ops::Drop>::drop, stub_anyhow_drop)]
    #[kani::stub(core::slice::memchr::memchr, stub_memchr)]
    #[kani::unwind(32)]
    c16_parse19_zeta (thorough, "FromStr for Codes", "Zeta(k) with a symbolic 19-digit k (10^18..10^19-1)") => parse_digits::<_, {ZETA}, 19>;
    c16_eq_classes (quick, "Codes::eq", "symbolic pair of variants with symbolic parameters (full usize range)") => eq_classes;
    #[kani::stub(alloc::fmt::format, stub_format)]
    #[kani::stub(std::string::ToString::to_string, stub_to_string)]
    #[kani::stub(std::backtrace::Backtrace::capture, stub_backtrace_capture)]
    #[kani::stub(<anyhow::Error as core::ops::Drop>::drop, stub_anyhow_drop)]
    #[kani::stub(core::slice::memchr::memchr, stub_memchr)]
    #[kani::unwind(20)]
    c16_parse_zeta (thorough, "FromStr for Codes", "Zeta(k) with a symbolic two-digit k (10..=99)") => parse_digits::<_, {ZETA}, 2>;
    #[kani::stub(alloc::fmt::format, stub_format)]
    #[kani::stub(std::string::ToString::to_string, stub_to_string)]
    #[kani::stub(std::backtrace::Backtrace::capture, stub_backtrace_capture)]
    #[kani::stub(<anyhow::Error as core::ops::Drop>::drop, stub_anyhow_drop)]
    #[kani::stub(core::slice::memchr::memchr, stub_memchr)]
    #[kani::unwind(20)]
    c16_parse1_zeta (thorough, "FromStr for Codes", "Zeta(k) with a symbolic one-digit k") => parse_digits::<_, {ZETA}, 1>;
    #[kani::stub(alloc::fmt::format, stub_format)]
    #[kani::stub(std::string::ToString::to_string, stub_to_string)]
    #[kani::stub(std::backtrace::Backtrace::capture, stub_backtrace_capture)]
    #[kani::stub(<anyhow::Error as core::ops::Drop>::drop, stub_anyhow_drop)]
    #[kani::stub(core::slice::memchr::memchr, stub_memchr)]
    #[kani::unwind(20)]
    c16_parse_pi (thorough, "FromStr for Codes", "Pi(k) with a symbolic two-digit k (10..=99)") => parse_digits::<_, {PI}, 2>;
    #[kani::stub(alloc::fmt::format, stub_format)]
    #[kani::stub(std::string::ToString::to_string, stub_to_string)]
    #[kani::stub(std::backtrace::Backtrace::capture, stub_backtrace_capture)]
    #[kani::stub(<anyhow::Error as core::ops::Drop>::drop, stub_anyhow_drop)]
    #[kani::stub(core::slice::memchr::memchr, stub_memchr)]
    #[kani::unwind(20)]
    c16_parse1_pi (thorough, "FromStr for Codes", "Pi(k) with a symbolic one-digit k") => parse_digits::<_, {PI}, 1>;
    #[kani::stub(alloc::fmt::format, stub_format)]
    #[kani::stub(std::string::ToString::to_string, stub_to_string)]
    #[kani::stub(std::backtrace::Backtrace::capture, stub_backtrace_capture)]
    #[kani::stub(<anyhow::Error as core::ops::Drop>::drop, stub_anyhow_drop)]
    #[kani::stub(core::slice::memchr::memchr, stub_memchr)]
    #[kani::unwind(20)]
    c16_parse_golomb (thorough, "FromStr for Codes", "Golomb(k) with a symbolic two-digit k (10..=99)") => parse_digits::<_, {GOLOMB}, 2>;
    #[kani::stub(alloc::fmt::format, stub_format)]
    #[kani::stub(std::string::ToString::to_string, stub_to_string)]
    #[kani::stub(std::backtrace::Backtrace::capture, stub_backtrace_capture)]
    #[kani::stub(<anyhow::Error as core::ops::Drop>::drop, stub_anyhow_drop)]
    #[kani::stub(core::slice::memchr::memchr, stub_memchr)]
    #[kani::unwind(20)]
    c16_parse1_golomb (thorough, "FromStr for Codes", "Golomb(k) with a symbolic one-digit k") => parse_digits::<_, {GOLOMB}, 1>;
    #[kani::stub(alloc::fmt::format, stub_format)]
    #[kani::stub(std::string::ToString::to_string, stub_to_string)]
    #[kani::stub(std::backtrace::Backtrace::capture, stub_backtrace_capture)]
    #[kani::stub(<anyhow::Error as core::ops::Drop>::drop, stub_anyhow_drop)]
    #[kani::stub(core::slice::memchr::memchr, stub_memchr)]
    #[kani::unwind(20)]
    c16_parse_exp_golomb (thorough, "FromStr for Codes", "ExpGolomb(k) with a symbolic two-digit k (10..=99)") => parse_digits::<_, {EXP_GOLOMB}, 2>;
    #[kani::stub(alloc::fmt::format, stub_format)]
    #[kani::stub(std::string::ToString::to_string, stub_to_string)]
    #[kani::stub(std::backtrace::Backtrace::capture, stub_backtrace_capture)]
    #[kani::stub(<anyhow::Error as core::ops::Drop>::drop, stub_anyhow_drop)]
    #[kani::stub(core::slice::memchr::memchr, stub_memchr)]
    #[kani::unwind(20)]
    c16_parse1_exp_golomb (thorough, "FromStr for Codes", "ExpGolomb(k) with a symbolic one-digit k") => parse_digits::<_, {EXP_GOLOMB}, 1>;
    #[kani::stub(alloc::fmt::format, stub_format)]
    #[kani::stub(std::string::ToString::to_string, stub_to_string)]
    #[kani::stub(std::backtrace::Backtrace::capture, stub_backtrace_capture)]
    #[kani::stub(<anyhow::Error as core::ops::Drop>::drop, stub_anyhow_drop)]
    #[kani::stub(core::slice::memchr::memchr, stub_memchr)]
    #[kani::unwind(20)]
    c16_parse_rice (thorough, "FromStr for Codes", "Rice(k) with a symbolic two-digit k (10..=99)") => parse_digits::<_, {RICE}, 2>;
    #[kani::stub(alloc::fmt::format, stub_format)]
    #[kani::stub(std::string::ToString::to_string, stub_to_string)]
    #[kani::stub(std::backtrace::Backtrace::capture, stub_backtrace_capture)]
    #[kani::stub(<anyhow::Error as core::ops::Drop>::drop, stub_anyhow_drop)]
    #[kani::stub(core::slice::memchr::memchr, stub_memchr)]
    #[kani::unwind(20)]
    c16_parse1_rice (thorough, "FromStr for Codes", "Rice(k) with a symbolic one-digit k") => parse_digits::<_, {RICE}, 1>;
    #[kani::stub(alloc::fmt::format, stub_format)]
    #[kani::stub(std::string::ToString::to_string, stub_to_string)]
    #[kani::stub(std::backtrace::Backtrace::capture, stub_backtrace_capture)]
    #[kani::stub(<anyhow::Error as core::ops::Drop>::drop, stub_anyhow_drop)]
    #[kani::stub(core::slice::memchr::memchr, stub_memchr)]
    #[kani::unwind(20)]
    c16_parse_literal_unary (quick, "FromStr for Codes", "literal name of UNARY") => parse_literal::<_, {UNARY}>;
    #[kani::stub(alloc::fmt::format, stub_format)]
    #[kani::stub(std::string::ToString::to_string, stub_to_string)]
    #[kani::stub(std::backtrace::Backtrace::capture, stub_backtrace_capture)]
    #[kani::stub(<anyhow::Error as core::ops::Drop>::drop, stub_anyhow_drop)]
    #[kani::stub(core::slice::memchr::memchr, stub_memchr)]
    #[kani::unwind(20)]
    c16_parse_literal_gamma (quick, "FromStr for Codes", "literal name of GAMMA") => parse_literal::<_, {GAMMA}>;
    #[kani::stub(alloc::fmt::format, stub_format)]
    #[kani::stub(std::string::ToString::to_string, stub_to_string)]
    #[kani::stub(std::backtrace::Backtrace::capture, stub_backtrace_capture)]
    #[kani::stub(<anyhow::Error as core::ops::Drop>::drop, stub_anyhow_drop)]
    #[kani::stub(core::slice::memchr::memchr, stub_memchr)]
    #[kani::unwind(20)]
    c16_parse_literal_delta (quick, "FromStr for Codes", "literal name of DELTA") => parse_literal::<_, {DELTA}>;
    #[kani::stub(alloc::fmt::format, stub_format)]
    #[kani::stub(std::string::ToString::to_string, stub_to_string)]
    #[kani::stub(std::backtrace::Backtrace::capture, stub_backtrace_capture)]
    #[kani::stub(<anyhow::Error as core::ops::Drop>::drop, stub_anyhow_drop)]
    #[kani::stub(core::slice::memchr::memchr, stub_memchr)]
    #[kani::unwind(20)]
    c16_parse_literal_omega (quick, "FromStr for Codes", "literal name of OMEGA") => parse_literal::<_, {OMEGA}>;
    #[kani::stub(alloc::fmt::format, stub_format)]
    #[kani::stub(std::string::ToString::to_string, stub_to_string)]
    #[kani::stub(std::backtrace::Backtrace::capture, stub_backtrace_capture)]
    #[kani::stub(<anyhow::Error as core::ops::Drop>::drop, stub_anyhow_drop)]
    #[kani::stub(core::slice::memchr::memchr, stub_memchr)]
    #[kani::unwind(20)]
    c16_parse_literal_vbyte_be (quick, "FromStr for Codes", "literal name of VBYTE_BE") => parse_literal::<_, {VBYTE_BE}>;
    #[kani::stub(alloc::fmt::format, stub_format)]
    #[kani::stub(std::string::ToString::to_string, stub_to_string)]
    #[kani::stub(std::backtrace::Backtrace::capture, stub_backtrace_capture)]
    #[kani::stub(<anyhow::Error as core::ops::Drop>::drop, stub_anyhow_drop)]
    #[kani::stub(core::slice::memchr::memchr, stub_memchr)]
    #[kani::unwind(20)]
    c16_parse_literal_vbyte_le (quick, "FromStr for Codes", "literal name of VBYTE_LE") => parse_literal::<_, {VBYTE_LE}>;
    #[kani::stub(alloc::fmt::format, stub_format)]
    #[kani::stub(std::string::ToString::to_string, stub_to_string)]
    #[kani::stub(std::backtrace::Backtrace::capture, stub_backtrace_capture)]
    #[kani::stub(<anyhow::Error as core::ops::Drop>::drop, stub_anyhow_drop)]
    #[kani::stub(core::slice::memchr::memchr, stub_memchr)]
    #[kani::unwind(40)]
    c16_parse_malformed_0 (quick, "FromStr for Codes", "malformed text #0") => parse_malformed::<_, 0>;
    #[kani::stub(alloc::fmt::format, stub_format)]
    #[kani::stub(std::string::ToString::to_string, stub_to_string)]
    #[kani::stub(std::backtrace::Backtrace::capture, stub_backtrace_capture)]
    #[kani::stub(<anyhow::Error as core::ops::Drop>::drop, stub_anyhow_drop)]
    #[kani::stub(core::slice::memchr::memchr, stub_memchr)]
    #[kani::unwind(40)]
    c16_parse_malformed_1 (quick, "FromStr for Codes", "malformed text #1") => parse_malformed::<_, 1>;
    #[kani::stub(alloc::fmt::format, stub_format)]
    #[kani::stub(std::string::ToString::to_string, stub_to_string)]
    #[kani::stub(std::backtrace::Backtrace::capture, stub_backtrace_capture)]
    #[kani::stub(<anyhow::Error as core::ops::Drop>::drop, stub_anyhow_drop)]
    #[kani::stub(core::slice::memchr::memchr, stub_memchr)]
    #[kani::unwind(40)]
    c16_parse_malformed_2 (quick, "FromStr for Codes", "malformed text #2") => parse_malformed::<_, 2>;
    #[kani::stub(alloc::fmt::format, stub_format)]
    #[kani::stub(std::string::ToString::to_string, stub_to_string)]
    #[kani::stub(std::backtrace::Backtrace::capture, stub_backtrace_capture)]
    #[kani::stub(<anyhow::Error as core::ops::Drop>::drop, stub_anyhow_drop)]
    #[kani::stub(core::slice::memchr::memchr, stub_memchr)]
    #[kani::unwind(40)]
    c16_parse_malformed_3 (quick, "FromStr for Codes", "malformed text #3") => parse_malformed::<_, 3>;
    #[kani::stub(alloc::fmt::format, stub_format)]
    #[kani::stub(std::string::ToString::to_string, stub_to_string)]
    #[kani::stub(std::backtrace::Backtrace::capture, stub_backtrace_capture)]
    #[kani::stub(<anyhow::Error as core::ops::Drop>::drop, stub_anyhow_drop)]
    #[kani::stub(core::slice::memchr::memchr, stub_memchr)]
    #[kani::unwind(40)]
    c16_parse_malformed_4 (thorough, "FromStr for Codes", "malformed text #4") => parse_malformed::<_, 4>;
    #[kani::stub(alloc::fmt::format, stub_format)]
    #[kani::stub(std::string::ToString::to_string, stub_to_string)]
    #[kani::stub(std::backtrace::Backtrace::capture, stub_backtrace_capture)]
    #[kani::stub(<anyhow::Error as core::ops::Drop>::drop, stub_anyhow_drop)]
    #[kani::stub(core::slice::memchr::memchr, stub_memchr)]
    #[kani::unwind(40)]
    c16_parse_malformed_5 (thorough, "FromStr for Codes", "malformed text #5") => parse_malformed::<_, 5>;
    #[kani::stub(alloc::fmt::format, stub_format)]
    #[kani::stub(std::string::ToString::to_string, stub_to_string)]
    #[kani::stub(std::backtrace::Backtrace::capture, stub_backtrace_capture)]
    #[kani::stub(<anyhow::Error as core::ops::Drop>::drop, stub_anyhow_drop)]
    #[kani::stub(core::slice::memchr::memchr, stub_memchr)]
    #[kani::unwind(40)]
    c16_parse_malformed_6 (thorough, "FromStr for Codes", "malformed text #6") => parse_malformed::<_, 6>;
    #[kani::stub(alloc::fmt::format, stub_format)]
    #[kani::stub(std::string::ToString::to_string, stub_to_string)]
    #[kani::stub(std::backtrace::Backtrace::capture, stub_backtrace_capture)]
    #[kani::stub(<anyhow::Error as core::ops::Drop>::drop, stub_anyhow_drop)]
    #[kani::stub(core::slice::memchr::memchr, stub_memchr)]
    #[kani::unwind(40)]
    c16_parse_malformed_7 (thorough, "FromStr for Codes", "malformed text #7") => parse_malformed::<_, 7>;
    #[kani::stub(alloc::fmt::format, stub_format)]
    #[kani::stub(std::string::ToString::to_string, stub_to_string)]
    #[kani::stub(std::backtrace::Backtrace::capture, stub_backtrace_capture)]
    #[kani::stub(<anyhow::Error as core::ops::Drop>::drop, stub_anyhow_drop)]
    #[kani::stub(core::slice::memchr::memchr, stub_memchr)]
    #[kani::unwind(40)]
    c16_parse_malformed_8 (quick, "FromStr for Codes", "malformed text #8") => parse_malformed::<_, 8>;
    #[kani::stub(alloc::fmt::format, stub_format)]
    #[kani::stub(std::string::ToString::to_string, stub_to_string)]
    #[kani::stub(std::backtrace::Backtrace::capture, stub_backtrace_capture)]
    #[kani::stub(<anyhow::Error as core::ops::Drop>::drop, stub_anyhow_drop)]
    #[kani::stub(core::slice::memchr::memchr, stub_memchr)]
    #[kani::unwind(40)]
    c16_parse_malformed_9 (quick, "FromStr for Codes", "malformed text #9") => parse_malformed::<_, 9>;
    #[kani::stub(alloc::fmt::format, stub_format)]
    #[kani::stub(std::string::ToString::to_string, stub_to_string)]
    #[kani::stub(std::backtrace::Backtrace::capture, stub_backtrace_capture)]
    #[kani::stub(<anyhow::Error as core::ops::Drop>::drop, stub_anyhow_drop)]
    #[kani::stub(core::slice::memchr::memchr, stub_memchr)]
    #[kani::unwind(40)]
    c16_parse_malformed_10 (quick, "FromStr for Codes", "malformed text #10") => parse_malformed::<_, 10>;
    #[kani::stub(alloc::fmt::format, stub_format)]
    #[kani::stub(std::string::ToString::to_string, stub_to_string)]
    #[kani::stub(std::backtrace::Backtrace::capture, stub_backtrace_capture)]
    #[kani::stub(<anyhow::Error as core::ops::Drop>::drop, stub_anyhow_drop)]
    #[kani::stub(core::slice::memchr::memchr, stub_memchr)]
    #[kani::unwind(40)]
    c16_parse_malformed_11 (thorough, "FromStr for Codes", "malformed text #11") => parse_malformed::<_, 11>;
    #[kani::stub(alloc::fmt::format, stub_format)]
    #[kani::stub(std::string::ToString::to_string, stub_to_string)]
    #[kani::stub(std::backtrace::Backtrace::capture, stub_backtrace_capture)]
    #[kani::stub(<anyhow::Error as core::ops::Drop>::drop, stub_anyhow_drop)]
    #[kani::stub(core::slice::memchr::memchr, stub_memchr)]
    #[kani::unwind(20)]
    c16_parse_unknown_name (thorough, "FromStr for Codes", "symbolic 4-letter alphabetic name other than Zeta/Rice, parameter 7") => parse_unknown_name;
    #[kani::stub(alloc::fmt::format, stub_format)]
    #[kani::stub(std::string::ToString::to_string, stub_to_string)]
    #[kani::stub(std::backtrace::Backtrace::capture, stub_backtrace_capture)]
    #[kani::stub(<anyhow::Error as core::ops::Drop>::drop, stub_anyhow_drop)]
    #[kani::stub(core::slice::memchr::memchr, stub_memchr)]
    #[kani::unwind(50)]
    c16_parsek_zeta_0 (quick, "FromStr for Codes", "Zeta(0): concrete parameter, text built from the Display template") => parse_concrete::<_, {ZETA}, 0>;
    #[kani::stub(alloc::fmt::format, stub_format)]
    #[kani::stub(std::string::ToString::to_string, stub_to_string)]
    #[kani::stub(std::backtrace::Backtrace::capture, stub_backtrace_capture)]
    #[kani::stub(<anyhow::Error as core::ops::Drop>::drop, stub_anyhow_drop)]
    #[kani::stub(core::slice::memchr::memchr, stub_memchr)]
    #[kani::unwind(50)]
    c16_parsek_zeta_7 (quick, "FromStr for Codes", "Zeta(7): concrete parameter, text built from the Display template") => parse_concrete::<_, {ZETA}, 7>;
    #[kani::stub(alloc::fmt::format, stub_format)]
    #[kani::stub(std::string::ToString::to_string, stub_to_string)]
    #[kani::stub(std::backtrace::Backtrace::capture, stub_backtrace_capture)]
    #[kani::stub(<anyhow::Error as core::ops::Drop>::drop, stub_anyhow_drop)]
    #[kani::stub(core::slice::memchr::memchr, stub_memchr)]
    #[kani::unwind(50)]
    c16_parsek_zeta_64 (quick, "FromStr for Codes", "Zeta(64): concrete parameter, text built from the Display template") => parse_concrete::<_, {ZETA}, 64>;
    #[kani::stub(alloc::fmt::format, stub_format)]
    #[kani::stub(std::string::ToString::to_string, stub_to_string)]
    #[kani::stub(std::backtrace::Backtrace::capture, stub_backtrace_capture)]
    #[kani::stub(<anyhow::Error as core::ops::Drop>::drop, stub_anyhow_drop)]
    #[kani::stub(core::slice::memchr::memchr, stub_memchr)]
    #[kani::unwind(50)]
    c16_parsek_zeta_255 (quick, "FromStr for Codes", "Zeta(255): concrete parameter, text built from the Display template") => parse_concrete::<_, {ZETA}, 255>;
    #[kani::stub(alloc::fmt::format, stub_format)]
    #[kani::stub(std::string::ToString::to_string, stub_to_string)]
    #[kani::stub(std::backtrace::Backtrace::capture, stub_backtrace_capture)]
    #[kani::stub(<anyhow::Error as core::ops::Drop>::drop, stub_anyhow_drop)]
    #[kani::stub(core::slice::memchr::memchr, stub_memchr)]
    #[kani::unwind(50)]
    c16_parsek_zeta_256 (quick, "FromStr for Codes", "Zeta(256): concrete parameter, text built from the Display template") => parse_concrete::<_, {ZETA}, 256>;
    #[kani::stub(alloc::fmt::format, stub_format)]
    #[kani::stub(std::string::ToString::to_string, stub_to_string)]
    #[kani::stub(std::backtrace::Backtrace::capture, stub_backtrace_capture)]
    #[kani::stub(<anyhow::Error as core::ops::Drop>::drop, stub_anyhow_drop)]
    #[kani::stub(core::slice::memchr::memchr, stub_memchr)]
    #[kani::unwind(50)]
    c16_parsek_zeta_300 (quick, "FromStr for Codes", "Zeta(300): concrete parameter, text built from the Display template") => parse_concrete::<_, {ZETA}, 300>;
    #[kani::stub(alloc::fmt::format, stub_format)]
    #[kani::stub(std::string::ToString::to_string, stub_to_string)]
    #[kani::stub(std::backtrace::Backtrace::capture, stub_backtrace_capture)]
    #[kani::stub(<anyhow::Error as core::ops::Drop>::drop, stub_anyhow_drop)]
    #[kani::stub(core::slice::memchr::memchr, stub_memchr)]
    #[kani::unwind(50)]
    c16_parsek_zeta_65536 (quick, "FromStr for Codes", "Zeta(65536): concrete parameter, text built from the Display template") => parse_concrete::<_, {ZETA}, 65536>;
    #[kani::stub(alloc::fmt::format, stub_format)]
    #[kani::stub(std::string::ToString::to_string, stub_to_string)]
    #[kani::stub(std::backtrace::Backtrace::capture, stub_backtrace_capture)]
    #[kani::stub(<anyhow::Error as core::ops::Drop>::drop, stub_anyhow_drop)]
    #[kani::stub(core::slice::memchr::memchr, stub_memchr)]
    #[kani::unwind(50)]
    c16_parsek_zeta_4294967296 (quick, "FromStr for Codes", "Zeta(4294967296): concrete parameter, text built from the Display template") => parse_concrete::<_, {ZETA}, 4294967296>;
    #[kani::stub(alloc::fmt::format, stub_format)]
    #[kani::stub(std::string::ToString::to_string, stub_to_string)]
    #[kani::stub(std::backtrace::Backtrace::capture, stub_backtrace_capture)]
    #[kani::stub(<anyhow::Error as core::ops::Drop>::drop, stub_anyhow_drop)]
    #[kani::stub(core::slice::memchr::memchr, stub_memchr)]
    #[kani::unwind(50)]
    c16_parsek_zeta_18446744073709551615 (quick, "FromStr for Codes", "Zeta(18446744073709551615): concrete parameter, text built from the Display template") => parse_concrete::<_, {ZETA}, 18446744073709551615>;
    #[kani::stub(alloc::fmt::format, stub_format)]
    #[kani::stub(std::string::ToString::to_string, stub_to_string)]
    #[kani::stub(std::backtrace::Backtrace::capture, stub_backtrace_capture)]
    #[kani::stub(<anyhow::Error as core::ops::Drop>::drop, stub_anyhow_drop)]
    #[kani::stub(core::slice::memchr::memchr, stub_memchr)]
    #[kani::unwind(50)]
    c16_parsek_pi_0 (quick, "FromStr for Codes", "Pi(0): concrete parameter, text built from the Display template") => parse_concrete::<_, {PI}, 0>;
    #[kani::stub(alloc::fmt::format, stub_format)]
    #[kani::stub(std::string::ToString::to_string, stub_to_string)]
    #[kani::stub(std::backtrace::Backtrace::capture, stub_backtrace_capture)]
    #[kani::stub(<anyhow::Error as core::ops::Drop>::drop, stub_anyhow_drop)]
    #[kani::stub(core::slice::memchr::memchr, stub_memchr)]
    #[kani::unwind(50)]
    c16_parsek_pi_7 (quick, "FromStr for Codes", "Pi(7): concrete parameter, text built from the Display template") => parse_concrete::<_, {PI}, 7>;
    #[kani::stub(alloc::fmt::format, stub_format)]
    #[kani::stub(std::string::ToString::to_string, stub_to_string)]
    #[kani::stub(std::backtrace::Backtrace::capture, stub_backtrace_capture)]
    #[kani::stub(<anyhow::Error as core::ops::Drop>::drop, stub_anyhow_drop)]
    #[kani::stub(core::slice::memchr::memchr, stub_memchr)]
    #[kani::unwind(50)]
    c16_parsek_pi_64 (quick, "FromStr for Codes", "Pi(64): concrete parameter, text built from the Display template") => parse_concrete::<_, {PI}, 64>;
    #[kani::stub(alloc::fmt::format, stub_format)]
    #[kani::stub(std::string::ToString::to_string, stub_to_string)]
    #[kani::stub(std::backtrace::Backtrace::capture, stub_backtrace_capture)]
    #[kani::stub(<anyhow::Error as core::ops::Drop>::drop, stub_anyhow_drop)]
    #[kani::stub(core::slice::memchr::memchr, stub_memchr)]
    #[kani::unwind(50)]
    c16_parsek_pi_255 (quick, "FromStr for Codes", "Pi(255): concrete parameter, text built from the Display template") => parse_concrete::<_, {PI}, 255>;
    #[kani::stub(alloc::fmt::format, stub_format)]
    #[kani::stub(std::string::ToString::to_string, stub_to_string)]
    #[kani::stub(std::backtrace::Backtrace::capture, stub_backtrace_capture)]
    #[kani::stub(<anyhow::Error as core::ops::Drop>::drop, stub_anyhow_drop)]
    #[kani::stub(core::slice::memchr::memchr, stub_memchr)]
    #[kani::unwind(50)]
    c16_parsek_pi_256 (quick, "FromStr for Codes", "Pi(256): concrete parameter, text built from the Display template") => parse_concrete::<_, {PI}, 256>;
    #[kani::stub(alloc::fmt::format, stub_format)]
    #[kani::stub(std::string::ToString::to_string, stub_to_string)]
    #[kani::stub(std::backtrace::Backtrace::capture, stub_backtrace_capture)]
    #[kani::stub(<anyhow::Error as core::ops::Drop>::drop, stub_anyhow_drop)]
    #[kani::stub(core::slice::memchr::memchr, stub_memchr)]
    #[kani::unwind(50)]
    c16_parsek_pi_300 (quick, "FromStr for Codes", "Pi(300): concrete parameter, text built from the Display template") => parse_concrete::<_, {PI}, 300>;
    #[kani::stub(alloc::fmt::format, stub_format)]
    #[kani::stub(std::string::ToString::to_string, stub_to_string)]
    #[kani::stub(std::backtrace::Backtrace::capture, stub_backtrace_capture)]
    #[kani::stub(<anyhow::Error as core::ops::Drop>::drop, stub_anyhow_drop)]
    #[kani::stub(core::slice::memchr::memchr, stub_memchr)]
    #[kani::unwind(50)]
    c16_parsek_pi_65536 (quick, "FromStr for Codes", "Pi(65536): concrete parameter, text built from the Display template") => parse_concrete::<_, {PI}, 65536>;
    #[kani::stub(alloc::fmt::format, stub_format)]
    #[kani::stub(std::string::ToString::to_string, stub_to_string)]
    #[kani::stub(std::backtrace::Backtrace::capture, stub_backtrace_capture)]
    #[kani::stub(<anyhow::Error as core::ops::Drop>::drop, stub_anyhow_drop)]
    #[kani::stub(core::slice::memchr::memchr, stub_memchr)]
    #[kani::unwind(50)]
    c16_parsek_pi_4294967296 (quick, "FromStr for Codes", "Pi(4294967296): concrete parameter, text built from the Display template") => parse_concrete::<_, {PI}, 4294967296>;
    #[kani::stub(alloc::fmt::format, stub_format)]
    #[kani::stub(std::string::ToString::to_string, stub_to_string)]
    #[kani::stub(std::backtrace::Backtrace::capture, stub_backtrace_capture)]
    #[kani::stub(<anyhow::Error as core::ops::Drop>::drop, stub_anyhow_drop)]
    #[kani::stub(core::slice::memchr::memchr, stub_memchr)]
    #[kani::unwind(50)]
    c16_parsek_pi_18446744073709551615 (quick, "FromStr for Codes", "Pi(18446744073709551615): concrete parameter, text built from the Display template") => parse_concrete::<_, {PI}, 18446744073709551615>;
    #[kani::stub(alloc::fmt::format, stub_format)]
    #[kani::stub(std::string::ToString::to_string, stub_to_string)]
    #[kani::stub(std::backtrace::Backtrace::capture, stub_backtrace_capture)]
    #[kani::stub(<anyhow::Error as core::ops::Drop>::drop, stub_anyhow_drop)]
    #[kani::stub(core::slice::memchr::memchr, stub_memchr)]
    #[kani::unwind(50)]
    c16_parsek_golomb_0 (quick, "FromStr for Codes", "Golomb(0): concrete parameter, text built from the Display template") => parse_concrete::<_, {GOLOMB}, 0>;
    #[kani::stub(alloc::fmt::format, stub_format)]
    #[kani::stub(std::string::ToString::to_string, stub_to_string)]
    #[kani::stub(std::backtrace::Backtrace::capture, stub_backtrace_capture)]
    #[kani::stub(<anyhow::Error as core::ops::Drop>::drop, stub_anyhow_drop)]
    #[kani::stub(core::slice::memchr::memchr, stub_memchr)]
    #[kani::unwind(50)]
    c16_parsek_golomb_7 (quick, "FromStr for Codes", "Golomb(7): concrete parameter, text built from the Display template") => parse_concrete::<_, {GOLOMB}, 7>;
    #[kani::stub(alloc::fmt::format, stub_format)]
    #[kani::stub(std::string::ToString::to_string, stub_to_string)]
    #[kani::stub(std::backtrace::Backtrace::capture, stub_backtrace_capture)]
    #[kani::stub(<anyhow::Error as core::ops::Drop>::drop, stub_anyhow_drop)]
    #[kani::stub(core::slice::memchr::memchr, stub_memchr)]
    #[kani::unwind(50)]
    c16_parsek_golomb_64 (quick, "FromStr for Codes", "Golomb(64): concrete parameter, text built from the Display template") => parse_concrete::<_, {GOLOMB}, 64>;
    #[kani::stub(alloc::fmt::format, stub_format)]
    #[kani::stub(std::string::ToString::to_string, stub_to_string)]
    #[kani::stub(std::backtrace::Backtrace::capture, stub_backtrace_capture)]
    #[kani::stub(<anyhow::Error as core::ops::Drop>::drop, stub_anyhow_drop)]
    #[kani::stub(core::slice::memchr::memchr, stub_memchr)]
    #[kani::unwind(50)]
    c16_parsek_golomb_255 (quick, "FromStr for Codes", "Golomb(255): concrete parameter, text built from the Display template") => parse_concrete::<_, {GOLOMB}, 255>;
    #[kani::stub(alloc::fmt::format, stub_format)]
    #[kani::stub(std::string::ToString::to_string, stub_to_string)]
    #[kani::stub(std::backtrace::Backtrace::capture, stub_backtrace_capture)]
    #[kani::stub(<anyhow::Error as core::ops::Drop>::drop, stub_anyhow_drop)]
    #[kani::stub(core::slice::memchr::memchr, stub_memchr)]
    #[kani::unwind(50)]
    c16_parsek_golomb_256 (quick, "FromStr for Codes", "Golomb(256): concrete parameter, text built from the Display template") => parse_concrete::<_, {GOLOMB}, 256>;
    #[kani::stub(alloc::fmt::format, stub_format)]
    #[kani::stub(std::string::ToString::to_string, stub_to_string)]
    #[kani::stub(std::backtrace::Backtrace::capture, stub_backtrace_capture)]
    #[kani::stub(<anyhow::Error as core::ops::Drop>::drop, stub_anyhow_drop)]
    #[kani::stub(core::slice::memchr::memchr, stub_memchr)]
    #[kani::unwind(50)]
    c16_parsek_golomb_300 (quick, "FromStr for Codes", "Golomb(300): concrete parameter, text built from the Display template") => parse_concrete::<_, {GOLOMB}, 300>;
    #[kani::stub(alloc::fmt::format, stub_format)]
    #[kani::stub(std::string::ToString::to_string, stub_to_string)]
    #[kani::stub(std::backtrace::Backtrace::capture, stub_backtrace_capture)]
    #[kani::stub(<anyhow::Error as core::ops::Drop>::drop, stub_anyhow_drop)]
    #[kani::stub(core::slice::memchr::memchr, stub_memchr)]
    #[kani::unwind(50)]
    c16_parsek_golomb_65536 (quick, "FromStr for Codes", "Golomb(65536): concrete parameter, text built from the Display template") => parse_concrete::<_, {GOLOMB}, 65536>;
    #[kani::stub(alloc::fmt::format, stub_format)]
    #[kani::stub(std::string::ToString::to_string, stub_to_string)]
    #[kani::stub(std::backtrace::Backtrace::capture, stub_backtrace_capture)]
    #[kani::stub(<anyhow::Error as core::ops::Drop>::drop, stub_anyhow_drop)]
    #[kani::stub(core::slice::memchr::memchr, stub_memchr)]
    #[kani::unwind(50)]
    c16_parsek_golomb_4294967296 (quick, "FromStr for Codes", "Golomb(4294967296): concrete parameter, text built from the Display template") => parse_concrete::<_, {GOLOMB}, 4294967296>;
    #[kani::stub(alloc::fmt::format, stub_format)]
    #[kani::stub(std::string::ToString::to_string, stub_to_string)]
    #[kani::stub(std::backtrace::Backtrace::capture, stub_backtrace_capture)]
    #[kani::stub(<anyhow::Error as core::ops::Drop>::drop, stub_anyhow_drop)]
    #[kani::stub(core::slice::memchr::memchr, stub_memchr)]
    #[kani::unwind(50)]
    c16_parsek_golomb_18446744073709551615 (quick, "FromStr for Codes", "Golomb(18446744073709551615): concrete parameter, text built from the Display template") => parse_concrete::<_, {GOLOMB}, 18446744073709551615>;
    #[kani::stub(alloc::fmt::format, stub_format)]
    #[kani::stub(std::string::ToString::to_string, stub_to_string)]
    #[kani::stub(std::backtrace::Backtrace::capture, stub_backtrace_capture)]
    #[kani::stub(<anyhow::Error as core::ops::Drop>::drop, stub_anyhow_drop)]
    #[kani::stub(core::slice::memchr::memchr, stub_memchr)]
    #[kani::unwind(50)]
    c16_parsek_exp_golomb_0 (quick, "FromStr for Codes", "ExpGolomb(0): concrete parameter, text built from the Display template") => parse_concrete::<_, {EXP_GOLOMB}, 0>;
    #[kani::stub(alloc::fmt::format, stub_format)]
    #[kani::stub(std::string::ToString::to_string, stub_to_string)]
    #[kani::stub(std::backtrace::Backtrace::capture, stub_backtrace_capture)]
    #[kani::stub(<anyhow::Error as core::ops::Drop>::drop, stub_anyhow_drop)]
    #[kani::stub(core::slice::memchr::memchr, stub_memchr)]
    #[kani::unwind(50)]
    c16_parsek_exp_golomb_7 (quick, "FromStr for Codes", "ExpGolomb(7): concrete parameter, text built from the Display template") => parse_concrete::<_, {EXP_GOLOMB}, 7>;
    #[kani::stub(alloc::fmt::format, stub_format)]
    #[kani::stub(std::string::ToString::to_string, stub_to_string)]
    #[kani::stub(std::backtrace::Backtrace::capture, stub_backtrace_capture)]
    #[kani::stub(<anyhow::Error as core::ops::Drop>::drop, stub_anyhow_drop)]
    #[kani::stub(core::slice::memchr::memchr, stub_memchr)]
    #[kani::unwind(50)]
    c16_parsek_exp_golomb_64 (quick, "FromStr for Codes", "ExpGolomb(64): concrete parameter, text built from the Display template") => parse_concrete::<_, {EXP_GOLOMB}, 64>;
    #[kani::stub(alloc::fmt::format, stub_format)]
    #[kani::stub(std::string::ToString::to_string, stub_to_string)]
    #[kani::stub(std::backtrace::Backtrace::capture, stub_backtrace_capture)]
    #[kani::stub(<anyhow::Error as core::ops::Drop>::drop, stub_anyhow_drop)]
    #[kani::stub(core::slice::memchr::memchr, stub_memchr)]
    #[kani::unwind(50)]
    c16_parsek_exp_golomb_255 (quick, "FromStr for Codes", "ExpGolomb(255): concrete parameter, text built from the Display template") => parse_concrete::<_, {EXP_GOLOMB}, 255>;
    #[kani::stub(alloc::fmt::format, stub_format)]
    #[kani::stub(std::string::ToString::to_string, stub_to_string)]
    #[kani::stub(std::backtrace::Backtrace::capture, stub_backtrace_capture)]
    #[kani::stub(<anyhow::Error as core::ops::Drop>::drop, stub_anyhow_drop)]
    #[kani::stub(core::slice::memchr::memchr, stub_memchr)]
    #[kani::unwind(50)]
    c16_parsek_exp_golomb_256 (quick, "FromStr for Codes", "ExpGolomb(256): concrete parameter, text built from the Display template") => parse_concrete::<_, {EXP_GOLOMB}, 256>;
    #[kani::stub(alloc::fmt::format, stub_format)]
    #[kani::stub(std::string::ToString::to_string, stub_to_string)]
    #[kani::stub(std::backtrace::Backtrace::capture, stub_backtrace_capture)]
    #[kani::stub(<anyhow::Error as core::ops::Drop>::drop, stub_anyhow_drop)]
    #[kani::stub(core::slice::memchr::memchr, stub_memchr)]
    #[kani::unwind(50)]
    c16_parsek_exp_golomb_300 (quick, "FromStr for Codes", "ExpGolomb(300): concrete parameter, text built from the Display template") => parse_concrete::<_, {EXP_GOLOMB}, 300>;
    #[kani::stub(alloc::fmt::format, stub_format)]
    #[kani::stub(std::string::ToString::to_string, stub_to_string)]
    #[kani::stub(std::backtrace::Backtrace::capture, stub_backtrace_capture)]
    #[kani::stub(<anyhow::Error as core::ops::Drop>::drop, stub_anyhow_drop)]
    #[kani::stub(core::slice::memchr::memchr, stub_memchr)]
    #[kani::unwind(50)]
    c16_parsek_exp_golomb_65536 (quick, "FromStr for Codes", "ExpGolomb(65536): concrete parameter, text built from the Display template") => parse_concrete::<_, {EXP_GOLOMB}, 65536>;
    #[kani::stub(alloc::fmt::format, stub_format)]
    #[kani::stub(std::string::ToString::to_string, stub_to_string)]
    #[kani::stub(std::backtrace::Backtrace::capture, stub_backtrace_capture)]
    #[kani::stub(<anyhow::Error as core::ops::Drop>::drop, stub_anyhow_drop)]
    #[kani::stub(core::slice::memchr::memchr, stub_memchr)]
    #[kani::unwind(50)]
    c16_parsek_exp_golomb_4294967296 (quick, "FromStr for Codes", "ExpGolomb(4294967296): concrete parameter, text built from the Display template") => parse_concrete::<_, {EXP_GOLOMB}, 4294967296>;
    #[kani::stub(alloc::fmt::format, stub_format)]
    #[kani::stub(std::string::ToString::to_string, stub_to_string)]
    #[kani::stub(std::backtrace::Backtrace::capture, stub_backtrace_capture)]
    #[kani::stub(<anyhow::Error as core::ops::Drop>::drop, stub_anyhow_drop)]
    #[kani::stub(core::slice::memchr::memchr, stub_memchr)]
    #[kani::unwind(50)]
    c16_parsek_exp_golomb_18446744073709551615 (quick, "FromStr for Codes", "ExpGolomb(18446744073709551615): concrete parameter, text built from the Display template") => parse_concrete::<_, {EXP_GOLOMB}, 18446744073709551615>;
    #[kani::stub(alloc::fmt::format, stub_format)]
    #[kani::stub(std::string::ToString::to_string, stub_to_string)]
    #[kani::stub(std::backtrace::Backtrace::capture, stub_backtrace_capture)]
    #[kani::stub(<anyhow::Error as core::ops::Drop>::drop, stub_anyhow_drop)]
    #[kani::stub(core::slice::memchr::memchr, stub_memchr)]
    #[kani::unwind(50)]
    c16_parsek_rice_0 (quick, "FromStr for Codes", "Rice(0): concrete parameter, text built from the Display template") => parse_concrete::<_, {RICE}, 0>;
    #[kani::stub(alloc::fmt::format, stub_format)]
    #[kani::stub(std::string::ToString::to_string, stub_to_string)]
    #[kani::stub(std::backtrace::Backtrace::capture, stub_backtrace_capture)]
    #[kani::stub(<anyhow::Error as core::ops::Drop>::drop, stub_anyhow_drop)]
    #[kani::stub(core::slice::memchr::memchr, stub_memchr)]
    #[kani::unwind(50)]
    c16_parsek_rice_7 (quick, "FromStr for Codes", "Rice(7): concrete parameter, text built from the Display template") => parse_concrete::<_, {RICE}, 7>;
    #[kani::stub(alloc::fmt::format, stub_format)]
    #[kani::stub(std::string::ToString::to_string, stub_to_string)]
    #[kani::stub(std::backtrace::Backtrace::capture, stub_backtrace_capture)]
    #[kani::stub(<anyhow::Error as core::ops::Drop>::drop, stub_anyhow_drop)]
    #[kani::stub(core::slice::memchr::memchr, stub_memchr)]
    #[kani::unwind(50)]
    c16_parsek_rice_64 (quick, "FromStr for Codes", "Rice(64): concrete parameter, text built from the Display template") => parse_concrete::<_, {RICE}, 64>;
    #[kani::stub(alloc::fmt::format, stub_format)]
    #[kani::stub(std::string::ToString::to_string, stub_to_string)]
    #[kani::stub(std::backtrace::Backtrace::capture, stub_backtrace_capture)]
    #[kani::stub(<anyhow::Error as core::ops::Drop>::drop, stub_anyhow_drop)]
    #[kani::stub(core::slice::memchr::memchr, stub_memchr)]
    #[kani::unwind(50)]
    c16_parsek_rice_255 (quick, "FromStr for Codes", "Rice(255): concrete parameter, text built from the Display template") => parse_concrete::<_, {RICE}, 255>;
    #[kani::stub(alloc::fmt::format, stub_format)]
    #[kani::stub(std::string::ToString::to_string, stub_to_string)]
    #[kani::stub(std::backtrace::Backtrace::capture, stub_backtrace_capture)]
    #[kani::stub(<anyhow::Error as core::ops::Drop>::drop, stub_anyhow_drop)]
    #[kani::stub(core::slice::memchr::memchr, stub_memchr)]
    #[kani::unwind(50)]
    c16_parsek_rice_256 (quick, "FromStr for Codes", "Rice(256): concrete parameter, text built from the Display template") => parse_concrete::<_, {RICE}, 256>;
    #[kani::stub(alloc::fmt::format, stub_format)]
    #[kani::stub(std::string::ToString::to_string, stub_to_string)]
    #[kani::stub(std::backtrace::Backtrace::capture, stub_backtrace_capture)]
    #[kani::stub(<anyhow::Error as core::ops::Drop>::drop, stub_anyhow_drop)]
    #[kani::stub(core::slice::memchr::memchr, stub_memchr)]
    #[kani::unwind(50)]
    c16_parsek_rice_300 (quick, "FromStr for Codes", "Rice(300): concrete parameter, text built from the Display template") => parse_concrete::<_, {RICE}, 300>;
    #[kani::stub(alloc::fmt::format, stub_format)]
    #[kani::stub(std::string::ToString::to_string, stub_to_string)]
    #[kani::stub(std::backtrace::Backtrace::capture, stub_backtrace_capture)]
    #[kani::stub(<anyhow::Error as core::ops::Drop>::drop, stub_anyhow_drop)]
    #[kani::stub(core::slice::memchr::memchr, stub_memchr)]
    #[kani::unwind(50)]
    c16_parsek_rice_65536 (quick, "FromStr for Codes", "Rice(65536): concrete parameter, text built from the Display template") => parse_concrete::<_, {RICE}, 65536>;
    #[kani::stub(alloc::fmt::format, stub_format)]
    #[kani::stub(std::string::ToString::to_string, stub_to_string)]
    #[kani::stub(std::backtrace::Backtrace::capture, stub_backtrace_capture)]
    #[kani::stub(<anyhow::Error as core::ops::Drop>::drop, stub_anyhow_drop)]
    #[kani::stub(core::slice::memchr::memchr, stub_memchr)]
    #[kani::unwind(50)]
    c16_parsek_rice_4294967296 (quick, "FromStr for Codes", "Rice(4294967296): concrete parameter, text built from the Display template") => parse_concrete::<_, {RICE}, 4294967296>;
    #[kani::stub(alloc::fmt::format, stub_format)]
    #[kani::stub(std::string::ToString::to_string, stub_to_string)]
    #[kani::stub(std::backtrace::Backtrace::capture, stub_backtrace_capture)]
    #[kani::stub(<anyhow::Error as core::ops::Drop>::drop, stub_anyhow_drop)]
    #[kani::stub(core::slice::memchr::memchr, stub_memchr)]
    #[kani::unwind(50)]
    c16_parsek_rice_18446744073709551615 (quick, "FromStr for Codes", "Rice(18446744073709551615): concrete parameter, text built from the Display template") => parse_concrete::<_, {RICE}, 18446744073709551615>;
}
