//! C03 layer C (thorough tier): end to end through the REAL writer and the REAL reader with different
//! word sizes: prefix of `off` arbitrary bits, one code with a symbolic value, flush; the same memory
//! re-read as words of another size by a real buffered or unbuffered reader. Redundant with
//! C01 ∧ C02 ∧ codec-on-model-stream; guards against a mismatch of the model itself.

use crate::model::*;
use crate::src::Src;
use core::convert::Infallible;
use dsi_bitstream::prelude::*;

macro_rules! e2e_write {
    ($w:expr, $sel:expr, $v:expr, $k:expr) => {
        match $sel {
            0 => $w.write_gamma($v),
            1 => $w.write_delta($v),
            2 => $w.write_zeta3($v),
            3 => $w.write_omega($v),
            4 => $w.write_pi($v, 2 + $k % 3),
            5 => $w.write_rice($v & 0xfff, 5 + $k % 3),
            6 => $w.write_exp_golomb($v, 1 + $k % 3),
            7 => $w.write_golomb($v & 0xff, 3 + ($k as u64) % 5),
            8 => $w.write_vbyte_be($v),
            9 => $w.write_zeta($v, 2 + $k % 4),
            _ => $w.write_unary($v & 0x7f),
        }
    };
}
macro_rules! e2e_read {
    ($r:expr, $sel:expr, $k:expr) => {
        match $sel {
            0 => $r.read_gamma(),
            1 => $r.read_delta(),
            2 => $r.read_zeta3(),
            3 => $r.read_omega(),
            4 => $r.read_pi(2 + $k % 3),
            5 => $r.read_rice(5 + $k % 3),
            6 => $r.read_exp_golomb(1 + $k % 3),
            7 => $r.read_golomb(3 + ($k as u64) % 5),
            8 => $r.read_vbyte_be(),
            9 => $r.read_zeta(2 + $k % 4),
            _ => $r.read_unary(),
        }
    };
}

/// the value actually written by `e2e_write!` (unary-prefixed codes are masked so that the codeword fits the
/// 32 bytes of memory): the round trip must return THIS value
#[inline(always)]
fn eff(sel: u8, v: u64) -> u64 {
    match sel {
        5 => v & 0xfff,
        7 => v & 0xff,
        0..=4 | 6 | 8 | 9 => v,
        _ => v & 0x7f,
    }
}

fn dom(sel: u8, v: u64, vbits: u32) -> bool {
    let lim = if vbits >= 64 { u64::MAX - 1 } else { (1u64 << vbits) - 1 };
    match sel {
        8 => vbits >= 64 || v <= lim,
        _ => v <= lim,
    }
}

macro_rules! e2e_bodies {
    ($e:ty, $buf:ident, $ub:ident) => {
        /// writer word WW (32 bytes of memory), buffered reader word WR
        pub fn $buf<WW: VW, WR: VW + common_traits::DoubleType, S: Src, const SEL: u8, const VBITS: u32>(s: &mut S)
        where
            crate::c02::Bb<WR>: VW,
            for<'a> BufBitWriter<$e, MemWordWriterSlice<WW, &'a mut [WW]>>: CodesWrite<$e> + BitWrite<$e, Error = std::io::Error>,
            for<'a> BufBitReader<$e, MemWordReader<WR, &'a [WR]>>: CodesRead<$e> + BitRead<$e, Error = Infallible> + BitSeek<Error = Infallible>,
        {
            let v = s.u64();
            let k = s.usize_in(0, 5);
            s.assume(dom(SEL, v, VBITS));
            let off = s.usize_in(0, 17);
            let prefix = s.u64() & ((1u64 << off) - 1);
            let sentinel = s.u64() & 0xffff;
            let mut mem = [WW::ZERO; 32];
            let nw = 256 / WW::NBITS; // 32 bytes
            let wl;
            {
                let mut w = BufBitWriter::<$e, _>::new(MemWordWriterSlice::new(&mut mem[..nw]));
                let a = w.write_bits(prefix, off);
                let b = e2e_write!(w, SEL, v, k);
                let c = w.write_bits(sentinel, 16);
                let d = w.flush();
                let all = a.is_ok() && b.is_ok() && c.is_ok() && d.is_ok();
                wl = match &b {
                    Ok(x) => *x,
                    Err(_) => 0,
                };
                core::mem::forget((a, b, c, d));
                assert!(all, "write inside a large enough buffer fails");
                core::mem::forget(w);
            }
            // reinterpret the memory image as words of the reader's size (native byte order)
            let mut bytes = [0u8; 32];
            let wb = WW::NBITS / 8;
            let mut i = 0;
            while i < 32 {
                bytes[i] = ((mem[i / wb].to_u128() >> (8 * (i % wb))) & 0xff) as u8;
                i += 1;
            }
            let rb = WR::NBITS / 8;
            let mut rw = [WR::ZERO; 32];
            let nr = 256 / WR::NBITS;
            i = 0;
            while i < nr {
                let mut x: u128 = 0;
                let mut j = 0;
                while j < rb {
                    x |= (bytes[i * rb + j] as u128) << (8 * j);
                    j += 1;
                }
                rw[i] = WR::from_u128(x);
                i += 1;
            }
            let mut r = BufBitReader::<$e, _>::new(MemWordReader::new(&rw[..nr]));
            assert_eq!(r.read_bits(off).unwrap(), prefix, "prefix read back");
            let back = e2e_read!(r, SEL, k).unwrap();
            assert_eq!(back, eff(SEL, v), "round trip through the real writer and the real reader");
            assert_eq!(r.bit_pos().unwrap(), (off + wl) as u64, "reader sits at the end of the codeword");
            assert_eq!(r.read_bits(16).unwrap(), sentinel, "following bits intact");
            crate::cover!(s, off % 8 != 0 && wl > 16, "unaligned, longer than two bytes");
        }
        /// writer word WW, unbuffered reader (u64 words)
        pub fn $ub<WW: VW, S: Src, const SEL: u8, const VBITS: u32>(s: &mut S)
        where
            for<'a> BufBitWriter<$e, MemWordWriterSlice<WW, &'a mut [WW]>>: CodesWrite<$e> + BitWrite<$e, Error = std::io::Error>,
            for<'a> BitReader<$e, MemWordReader<u64, &'a [u64]>>: CodesRead<$e> + BitRead<$e, Error = Infallible> + BitSeek<Error = Infallible>,
        {
            let v = s.u64();
            let k = s.usize_in(0, 5);
            s.assume(dom(SEL, v, VBITS));
            let off = s.usize_in(0, 17);
            let prefix = s.u64() & ((1u64 << off) - 1);
            let sentinel = s.u64() & 0xffff;
            let mut mem = [WW::ZERO; 32];
            let nw = 256 / WW::NBITS;
            let wl;
            {
                let mut w = BufBitWriter::<$e, _>::new(MemWordWriterSlice::new(&mut mem[..nw]));
                let a = w.write_bits(prefix, off);
                let b = e2e_write!(w, SEL, v, k);
                let c = w.write_bits(sentinel, 16);
                let d = w.flush();
                let all = a.is_ok() && b.is_ok() && c.is_ok() && d.is_ok();
                wl = match &b {
                    Ok(x) => *x,
                    Err(_) => 0,
                };
                core::mem::forget((a, b, c, d));
                assert!(all);
                core::mem::forget(w);
            }
            let wb = WW::NBITS / 8;
            let mut rw = [0u64; 4];
            let mut i = 0;
            while i < 32 {
                rw[i / 8] |= (((mem[i / wb].to_u128() >> (8 * (i % wb))) & 0xff) as u64) << (8 * (i % 8));
                i += 1;
            }
            let mut r = BitReader::<$e, _>::new(MemWordReader::new(&rw[..]));
            assert_eq!(r.read_bits(off).unwrap(), prefix, "prefix read back");
            let back = e2e_read!(r, SEL, k).unwrap();
            assert_eq!(back, eff(SEL, v), "round trip through the real writer and the real unbuffered reader");
            assert_eq!(r.bit_pos().unwrap(), (off + wl) as u64, "reader sits at the end of the codeword");
            assert_eq!(r.read_bits(16).unwrap(), sentinel, "following bits intact");
            crate::cover!(s, off % 8 != 0 && wl > 16, "unaligned, longer than two bytes");
        }
    };
}
e2e_bodies!(BE, e2e_buf_be, e2e_ub_be);
e2e_bodies!(LE, e2e_buf_le, e2e_ub_le);

crate::harnesses! {
    #[kani::unwind(34)]
    c03_e2e_gamma_u64_u32_be (thorough, "real BufBitWriter<BE,u64> -> memory -> real BufBitReader<BE,u32>", "gamma, symbolic value < 2^64 (masked for unary-prefixed codes), offset<=17, 16-bit sentinel") => e2e_buf_be::<u64, u32, _, 0, 64>;
    #[kani::unwind(34)]
    c03_e2e_gamma_u16_u64_le (thorough, "real BufBitWriter<LE,u16> -> memory -> real BufBitReader<LE,u64>", "gamma, symbolic value < 2^64 (masked for unary-prefixed codes), offset<=17, 16-bit sentinel") => e2e_buf_le::<u16, u64, _, 0, 64>;
    #[kani::unwind(34)]
    c03_e2e_gamma_u32_ub_be (thorough, "real BufBitWriter<BE,u32> -> memory -> real unbuffered BitReader<BE>", "gamma, symbolic value < 2^64 (masked for unary-prefixed codes), offset<=17, 16-bit sentinel") => e2e_ub_be::<u32, _, 0, 64>;
    #[kani::unwind(34)]
    c03_e2e_gamma_u8_ub_le (thorough, "real BufBitWriter<LE,u8> -> memory -> real unbuffered BitReader<LE>", "gamma, symbolic value < 2^64 (masked for unary-prefixed codes), offset<=17, 16-bit sentinel") => e2e_ub_le::<u8, _, 0, 64>;
    #[kani::unwind(34)]
    c03_e2e_delta_u64_u32_be (thorough, "real BufBitWriter<BE,u64> -> memory -> real BufBitReader<BE,u32>", "delta, symbolic value < 2^64 (masked for unary-prefixed codes), offset<=17, 16-bit sentinel") => e2e_buf_be::<u64, u32, _, 1, 64>;
    #[kani::unwind(34)]
    c03_e2e_delta_u16_u64_le (thorough, "real BufBitWriter<LE,u16> -> memory -> real BufBitReader<LE,u64>", "delta, symbolic value < 2^64 (masked for unary-prefixed codes), offset<=17, 16-bit sentinel") => e2e_buf_le::<u16, u64, _, 1, 64>;
    #[kani::unwind(34)]
    c03_e2e_delta_u32_ub_be (thorough, "real BufBitWriter<BE,u32> -> memory -> real unbuffered BitReader<BE>", "delta, symbolic value < 2^64 (masked for unary-prefixed codes), offset<=17, 16-bit sentinel") => e2e_ub_be::<u32, _, 1, 64>;
    #[kani::unwind(34)]
    c03_e2e_delta_u8_ub_le (thorough, "real BufBitWriter<LE,u8> -> memory -> real unbuffered BitReader<LE>", "delta, symbolic value < 2^64 (masked for unary-prefixed codes), offset<=17, 16-bit sentinel") => e2e_ub_le::<u8, _, 1, 64>;
    #[kani::unwind(34)]
    c03_e2e_zeta3_u64_u32_be (thorough, "real BufBitWriter<BE,u64> -> memory -> real BufBitReader<BE,u32>", "zeta3, symbolic value < 2^32 (masked for unary-prefixed codes), offset<=17, 16-bit sentinel") => e2e_buf_be::<u64, u32, _, 2, 32>;
    #[kani::unwind(34)]
    c03_e2e_zeta3_u16_u64_le (thorough, "real BufBitWriter<LE,u16> -> memory -> real BufBitReader<LE,u64>", "zeta3, symbolic value < 2^32 (masked for unary-prefixed codes), offset<=17, 16-bit sentinel") => e2e_buf_le::<u16, u64, _, 2, 32>;
    #[kani::unwind(34)]
    c03_e2e_omega_u64_u32_be (thorough, "real BufBitWriter<BE,u64> -> memory -> real BufBitReader<BE,u32>", "omega, symbolic value < 2^32 (masked for unary-prefixed codes), offset<=17, 16-bit sentinel") => e2e_buf_be::<u64, u32, _, 3, 32>;
    #[kani::unwind(34)]
    c03_e2e_omega_u16_u64_le (thorough, "real BufBitWriter<LE,u16> -> memory -> real BufBitReader<LE,u64>", "omega, symbolic value < 2^32 (masked for unary-prefixed codes), offset<=17, 16-bit sentinel") => e2e_buf_le::<u16, u64, _, 3, 32>;
    #[kani::unwind(34)]
    c03_e2e_omega_u32_ub_be (thorough, "real BufBitWriter<BE,u32> -> memory -> real unbuffered BitReader<BE>", "omega, symbolic value < 2^32 (masked for unary-prefixed codes), offset<=17, 16-bit sentinel") => e2e_ub_be::<u32, _, 3, 32>;
    #[kani::unwind(34)]
    c03_e2e_omega_u8_ub_le (thorough, "real BufBitWriter<LE,u8> -> memory -> real unbuffered BitReader<LE>", "omega, symbolic value < 2^32 (masked for unary-prefixed codes), offset<=17, 16-bit sentinel") => e2e_ub_le::<u8, _, 3, 32>;
    #[kani::unwind(34)]
    c03_e2e_pi_u64_u32_be (thorough, "real BufBitWriter<BE,u64> -> memory -> real BufBitReader<BE,u32>", "pi, symbolic value < 2^32 (masked for unary-prefixed codes), offset<=17, 16-bit sentinel") => e2e_buf_be::<u64, u32, _, 4, 32>;
    #[kani::unwind(34)]
    c03_e2e_pi_u16_u64_le (thorough, "real BufBitWriter<LE,u16> -> memory -> real BufBitReader<LE,u64>", "pi, symbolic value < 2^32 (masked for unary-prefixed codes), offset<=17, 16-bit sentinel") => e2e_buf_le::<u16, u64, _, 4, 32>;
    #[kani::unwind(34)]
    c03_e2e_rice_u64_u32_be (thorough, "real BufBitWriter<BE,u64> -> memory -> real BufBitReader<BE,u32>", "rice, symbolic value < 2^64 (masked for unary-prefixed codes), offset<=17, 16-bit sentinel") => e2e_buf_be::<u64, u32, _, 5, 64>;
    #[kani::unwind(34)]
    c03_e2e_rice_u16_u64_le (thorough, "real BufBitWriter<LE,u16> -> memory -> real BufBitReader<LE,u64>", "rice, symbolic value < 2^64 (masked for unary-prefixed codes), offset<=17, 16-bit sentinel") => e2e_buf_le::<u16, u64, _, 5, 64>;
    #[kani::unwind(34)]
    c03_e2e_rice_u32_ub_be (thorough, "real BufBitWriter<BE,u32> -> memory -> real unbuffered BitReader<BE>", "rice, symbolic value < 2^64 (masked for unary-prefixed codes), offset<=17, 16-bit sentinel") => e2e_ub_be::<u32, _, 5, 64>;
    #[kani::unwind(34)]
    c03_e2e_rice_u8_ub_le (thorough, "real BufBitWriter<LE,u8> -> memory -> real unbuffered BitReader<LE>", "rice, symbolic value < 2^64 (masked for unary-prefixed codes), offset<=17, 16-bit sentinel") => e2e_ub_le::<u8, _, 5, 64>;
    #[kani::unwind(34)]
    c03_e2e_expgolomb_u64_u32_be (thorough, "real BufBitWriter<BE,u64> -> memory -> real BufBitReader<BE,u32>", "expgolomb, symbolic value < 2^32 (masked for unary-prefixed codes), offset<=17, 16-bit sentinel") => e2e_buf_be::<u64, u32, _, 6, 32>;
    #[kani::unwind(34)]
    c03_e2e_expgolomb_u16_u64_le (thorough, "real BufBitWriter<LE,u16> -> memory -> real BufBitReader<LE,u64>", "expgolomb, symbolic value < 2^32 (masked for unary-prefixed codes), offset<=17, 16-bit sentinel") => e2e_buf_le::<u16, u64, _, 6, 32>;
    #[kani::unwind(34)]
    c03_e2e_golomb_u64_u32_be (thorough, "real BufBitWriter<BE,u64> -> memory -> real BufBitReader<BE,u32>", "golomb, symbolic value < 2^64 (masked for unary-prefixed codes), offset<=17, 16-bit sentinel") => e2e_buf_be::<u64, u32, _, 7, 64>;
    #[kani::unwind(34)]
    c03_e2e_golomb_u16_u64_le (thorough, "real BufBitWriter<LE,u16> -> memory -> real BufBitReader<LE,u64>", "golomb, symbolic value < 2^64 (masked for unary-prefixed codes), offset<=17, 16-bit sentinel") => e2e_buf_le::<u16, u64, _, 7, 64>;
    #[kani::unwind(34)]
    c03_e2e_vbytebe_u64_u32_be (thorough, "real BufBitWriter<BE,u64> -> memory -> real BufBitReader<BE,u32>", "vbytebe, symbolic value < 2^64 (masked for unary-prefixed codes), offset<=17, 16-bit sentinel") => e2e_buf_be::<u64, u32, _, 8, 64>;
    #[kani::unwind(34)]
    c03_e2e_vbytebe_u16_u64_le (thorough, "real BufBitWriter<LE,u16> -> memory -> real BufBitReader<LE,u64>", "vbytebe, symbolic value < 2^64 (masked for unary-prefixed codes), offset<=17, 16-bit sentinel") => e2e_buf_le::<u16, u64, _, 8, 64>;
    #[kani::unwind(34)]
    c03_e2e_vbytebe_u32_ub_be (thorough, "real BufBitWriter<BE,u32> -> memory -> real unbuffered BitReader<BE>", "vbytebe, symbolic value < 2^64 (masked for unary-prefixed codes), offset<=17, 16-bit sentinel") => e2e_ub_be::<u32, _, 8, 64>;
    #[kani::unwind(34)]
    c03_e2e_vbytebe_u8_ub_le (thorough, "real BufBitWriter<LE,u8> -> memory -> real unbuffered BitReader<LE>", "vbytebe, symbolic value < 2^64 (masked for unary-prefixed codes), offset<=17, 16-bit sentinel") => e2e_ub_le::<u8, _, 8, 64>;
    #[kani::unwind(34)]
    c03_e2e_zeta_u64_u32_be (thorough, "real BufBitWriter<BE,u64> -> memory -> real BufBitReader<BE,u32>", "zeta, symbolic value < 2^32 (masked for unary-prefixed codes), offset<=17, 16-bit sentinel") => e2e_buf_be::<u64, u32, _, 9, 32>;
    #[kani::unwind(34)]
    c03_e2e_zeta_u16_u64_le (thorough, "real BufBitWriter<LE,u16> -> memory -> real BufBitReader<LE,u64>", "zeta, symbolic value < 2^32 (masked for unary-prefixed codes), offset<=17, 16-bit sentinel") => e2e_buf_le::<u16, u64, _, 9, 32>;
    #[kani::unwind(34)]
    c03_e2e_unary_u64_u32_be (thorough, "real BufBitWriter<BE,u64> -> memory -> real BufBitReader<BE,u32>", "unary, symbolic value < 2^64 (masked for unary-prefixed codes), offset<=17, 16-bit sentinel") => e2e_buf_be::<u64, u32, _, 10, 64>;
    #[kani::unwind(34)]
    c03_e2e_unary_u16_u64_le (thorough, "real BufBitWriter<LE,u16> -> memory -> real BufBitReader<LE,u64>", "unary, symbolic value < 2^64 (masked for unary-prefixed codes), offset<=17, 16-bit sentinel") => e2e_buf_le::<u16, u64, _, 10, 64>;
    #[kani::unwind(34)]
    c03_e2e_unary_u32_ub_be (thorough, "real BufBitWriter<BE,u32> -> memory -> real unbuffered BitReader<BE>", "unary, symbolic value < 2^64 (masked for unary-prefixed codes), offset<=17, 16-bit sentinel") => e2e_ub_be::<u32, _, 10, 64>;
    #[kani::unwind(34)]
    c03_e2e_unary_u8_ub_le (thorough, "real BufBitWriter<LE,u8> -> memory -> real unbuffered BitReader<LE>", "unary, symbolic value < 2^64 (masked for unary-prefixed codes), offset<=17, 16-bit sentinel") => e2e_ub_le::<u8, _, 10, 64>;
}
