//! C01 — bit writers emit one canonical byte image (DESIGN §3 C01).
//!
//! Inductive-step harnesses: arbitrary representation-valid writer state
//! `(buffer, space_left)` (1 <= space_left <= W, all buffer bits arbitrary),
//! arbitrary already-delivered words, ONE operation with symbolic arguments;
//! assertions on return value, number of delivered words, new pending count
//! and — through a nondeterministic bit index — on every stream bit.

use crate::model::*;
use crate::src::Src;
use core::convert::Infallible;
use dsi_bitstream::prelude::*;

pub const RN: usize = 12;
type Wr<E, W> = BufBitWriter<E, Rec<W, RN>>;

pub struct Pre<W: VW> {
    pub rec: Rec<W, RN>,
    pub n0: usize,
    pub buffer: W,
    pub space: usize,
    pub f: usize,
}

/// Arbitrary valid pre-state: n0 in 0..=2 already-delivered symbolic words,
/// symbolic buffer, symbolic fill level.
pub fn any_writer_state<W: VW, S: Src>(s: &mut S) -> Pre<W> {
    let mut rec = Rec::<W, RN>::new();
    rec.words[0] = W::any(s);
    rec.words[1] = W::any(s);
    let n0 = s.usize_in(0, 2);
    rec.n = n0;
    let buffer = W::any(s);
    let space = s.usize_in(1, W::NBITS);
    Pre {
        rec,
        n0,
        buffer,
        space,
        f: W::NBITS - space,
    }
}

/// Stream bit `idx` (counted from the first pending bit of the pre-state) as
/// stored after the operation: in the `k` newly delivered words, then in the
/// new pending buffer.
#[inline(always)]
pub fn post_bit<E: En, W: VW>(be: &Rec<W, RN>, n0: usize, k: usize, nb: W, ns: usize, idx: usize) -> bool {
    if idx < k * W::NBITS {
        img_bit_of_word::<E>(be.words[n0 + idx / W::NBITS].to_u128(), idx % W::NBITS)
    } else {
        pending_bit::<E, W>(nb, ns, idx - k * W::NBITS)
    }
}

#[inline(always)]
fn check_predelivered<W: VW>(be: &Rec<W, RN>, pre0: W, pre1: W, n0: usize) {
    assert!(n0 < 1 || be.words[0] == pre0, "delivered word 0 altered");
    assert!(n0 < 2 || be.words[1] == pre1, "delivered word 1 altered");
}

pub fn write_bits_step<E: En, W: VW, S: Src>(s: &mut S)
where
    Wr<E, W>: BitWrite<E, Error = Infallible>,
{
    let p = any_writer_state::<W, S>(s);
    let (pre0, pre1) = (p.rec.words[0], p.rec.words[1]);
    let v = s.u64();
    let n = s.usize_in(0, 64);
    if cfg!(feature = "checks") {
        // the argument-checking build rejects dirty arguments (that is C19's subject)
        s.assume(n == 64 || v >> n == 0);
    }
    let idx = s.usize();
    s.assume(idx < p.f + n);
    let mut w = Wr::<E, W>::verif_from_parts(p.rec, p.buffer, p.space);
    let r = w.write_bits(v, n).unwrap();
    assert_eq!(r, n, "write_bits must return n");
    let (nb, ns) = w.verif_parts();
    let be = w.verif_backend();
    let k = (p.f + n) / W::NBITS;
    assert_eq!(be.n, p.n0 + k, "number of delivered words");
    assert!(ns >= 1 && ns <= W::NBITS, "representation invariant");
    assert_eq!(W::NBITS - ns, (p.f + n) % W::NBITS, "pending count");
    check_predelivered(be, pre0, pre1, p.n0);
    let expected = if idx < p.f {
        pending_bit::<E, W>(p.buffer, p.space, idx)
    } else {
        field_bit::<E>(v, n, idx - p.f)
    };
    let actual = post_bit::<E, W>(be, p.n0, k, nb, ns, idx);
    assert_eq!(expected, actual, "stream bit differs from canonical layout");
    crate::cover!(s, k >= 2 || (W::NBITS >= 64 && k >= 1), "two or more words delivered");
    crate::cover!(s, k == 0 && n > 0, "fits in buffer");
    core::mem::forget(w);
}

/// write_unary(x), x <= XW * W (the zero-word loop runs <= XW times)
pub fn write_unary_step<E: En, W: VW, S: Src, const XW: usize>(s: &mut S)
where
    Wr<E, W>: BitWrite<E, Error = Infallible>,
{
    let p = any_writer_state::<W, S>(s);
    let (pre0, pre1) = (p.rec.words[0], p.rec.words[1]);
    let x = s.u64_in(0, (XW * W::NBITS) as u64);
    let idx = s.usize();
    let xs = x as usize;
    s.assume(idx < p.f + xs + 1);
    let mut w = Wr::<E, W>::verif_from_parts(p.rec, p.buffer, p.space);
    let r = w.write_unary(x).unwrap();
    assert_eq!(r, xs + 1, "write_unary must return x+1");
    let (nb, ns) = w.verif_parts();
    let be = w.verif_backend();
    let k = (p.f + xs + 1) / W::NBITS;
    assert_eq!(be.n, p.n0 + k, "number of delivered words");
    assert!(ns >= 1 && ns <= W::NBITS, "representation invariant");
    assert_eq!(W::NBITS - ns, (p.f + xs + 1) % W::NBITS, "pending count");
    check_predelivered(be, pre0, pre1, p.n0);
    let expected = if idx < p.f {
        pending_bit::<E, W>(p.buffer, p.space, idx)
    } else {
        idx == p.f + xs
    };
    let actual = post_bit::<E, W>(be, p.n0, k, nb, ns, idx);
    assert_eq!(expected, actual, "stream bit differs from canonical layout");
    crate::cover!(s, k >= 3, "three or more words delivered");
    crate::cover!(s, k == 0, "fits in buffer");
    core::mem::forget(w);
}

/// flush: returns pending count, pads with zeros to the word boundary, calls
/// the backend's flush, is idempotent.
pub fn flush_step<E: En, W: VW, S: Src>(s: &mut S)
where
    Wr<E, W>: BitWrite<E, Error = Infallible>,
{
    let p = any_writer_state::<W, S>(s);
    let (pre0, pre1) = (p.rec.words[0], p.rec.words[1]);
    let idx = s.usize_in(0, W::NBITS - 1);
    let mut w = Wr::<E, W>::verif_from_parts(p.rec, p.buffer, p.space);
    let r = w.flush().unwrap();
    assert_eq!(r, p.f, "flush must report the pending bits");
    {
        let (_nb, ns) = w.verif_parts();
        let be = w.verif_backend();
        let k = if p.f > 0 { 1 } else { 0 };
        assert_eq!(be.n, p.n0 + k, "flush delivers one word iff bits are pending");
        assert_eq!(ns, W::NBITS, "buffer empty after flush");
        check_predelivered(be, pre0, pre1, p.n0);
        if p.f > 0 {
            let expected = if idx < p.f {
                pending_bit::<E, W>(p.buffer, p.space, idx)
            } else {
                false
            };
            let actual = img_bit_of_word::<E>(be.words[p.n0].to_u128(), idx);
            assert_eq!(expected, actual, "flushed word: pending bits then zero padding");
        }
    }
    // idempotence
    let r2 = w.flush().unwrap();
    assert_eq!(r2, 0, "second flush reports 0");
    let be = w.verif_backend();
    assert_eq!(be.n, p.n0 + if p.f > 0 { 1 } else { 0 }, "second flush delivers nothing");
    crate::cover!(s, p.f > 0, "something pending");
    crate::cover!(s, p.f == 0, "nothing pending");
    core::mem::forget(w);
}

/// A backend that forwards to a borrowed `Rec`, so that what `Drop` delivers
/// can be observed after the writer is gone.
pub struct RecRef<'a, W: VW>(pub &'a mut Rec<W, RN>);
impl<'a, W: VW> WordWrite for RecRef<'a, W> {
    type Error = Infallible;
    type Word = W;
    #[inline(always)]
    fn write_word(&mut self, word: W) -> Result<(), Infallible> {
        self.0.write_word(word)
    }
    #[inline(always)]
    fn flush(&mut self) -> Result<(), Infallible> {
        self.0.flush()
    }
}

/// Drop and into_inner deliver exactly what flush delivers.
pub fn drop_into_inner_step<E: En, W: VW, S: Src>(s: &mut S)
where
    Wr<E, W>: BitWrite<E, Error = Infallible>,
    for<'a> BufBitWriter<E, RecRef<'a, W>>: BitWrite<E, Error = Infallible>,
{
    let p = any_writer_state::<W, S>(s);
    // reference: flush
    let mut wf = Wr::<E, W>::verif_from_parts(p.rec.clone(), p.buffer, p.space);
    wf.flush().unwrap();
    let ref_n = wf.verif_backend().n;
    let ref_last = wf.verif_backend().words[p.n0];
    core::mem::forget(wf);
    // drop
    let mut rec_d = p.rec.clone();
    {
        let wd = BufBitWriter::<E, RecRef<'_, W>>::verif_from_parts(RecRef(&mut rec_d), p.buffer, p.space);
        drop(wd);
    }
    assert_eq!(rec_d.n, ref_n, "drop delivers as many words as flush");
    assert!(p.f == 0 || rec_d.words[p.n0] == ref_last, "drop delivers the same word as flush");
    // into_inner
    let wi = Wr::<E, W>::verif_from_parts(p.rec, p.buffer, p.space);
    let back = wi.into_inner().unwrap();
    assert_eq!(back.n, ref_n, "into_inner delivers as many words as flush");
    assert!(p.f == 0 || back.words[p.n0] == ref_last, "into_inner delivers the same word as flush");
    crate::cover!(s, p.f > 0, "something pending");
}

/// backend kinds: the same write_bits step over the library's real word backends delivers exactly
/// the words the recording backend receives (slice, growable vector, byte-stream adapter)
pub fn backend_kinds_step<E: En, W: VW, S: Src>(s: &mut S)
where
    Wr<E, W>: BitWrite<E, Error = Infallible>,
    for<'a> BufBitWriter<E, MemWordWriterSlice<W, &'a mut [W]>>: BitWrite<E, Error = std::io::Error>,
    BufBitWriter<E, MemWordWriterVec<W, Vec<W>>>: BitWrite<E, Error = Infallible>,
    BufBitWriter<E, WordAdapter<W, crate::c18::FixedSink>>: BitWrite<E, Error = std::io::Error>,
{
    let buffer = W::any(s);
    let space = s.usize_in(1, W::NBITS);
    let v = s.u64();
    let n = s.usize_in(0, if W::NBITS >= 16 { 64 } else { 24 });
    if cfg!(feature = "checks") {
        s.assume(n == 64 || v >> n == 0);
    }
    let j = s.usize_in(0, 4);
    // reference: recording backend
    let mut wr = Wr::<E, W>::verif_from_parts(Rec::<W, RN>::new(), buffer, space);
    wr.write_bits(v, n).unwrap();
    let k = wr.verif_backend().n;
    let refw = wr.verif_backend().words;
    core::mem::forget(wr);
    s.assume(j < k);
    // fixed slice
    let mut arr = [W::ZERO; 6];
    {
        let mut ws = BufBitWriter::<E, _>::verif_from_parts(MemWordWriterSlice::new(&mut arr[..]), buffer, space);
        let r = ws.write_bits(v, n);
        let okk = r.is_ok();
        core::mem::forget(r);
        assert!(okk, "write over a large enough slice fails");
        core::mem::forget(ws);
    }
    assert!(arr[j] == refw[j], "fixed-slice backend received a different word");
    // growable vector (empty, capacity reserved)
    let mut wv = BufBitWriter::<E, _>::verif_from_parts(MemWordWriterVec::new(Vec::<W>::with_capacity(8)), buffer, space);
    wv.write_bits(v, n).unwrap();
    {
        let be = wv.verif_backend_mut();
        assert_eq!(be.len(), k, "vector backend received a different number of words");
        let _ = be.set_word_pos(j as u64);
        let got = match be.read_word() {
            Ok(x) => Some(x),
            Err(e) => {
                core::mem::forget(e);
                None
            }
        };
        assert!(got == Some(refw[j]), "vector backend received a different word");
    }
    core::mem::forget(wv);
    // byte-stream adapter over an array sink: native bytes of the same words
    if W::NBITS / 8 * k <= 12 {
        let sink = crate::c18::FixedSink { bytes: [0; 12], n: 0 };
        let mut wa = BufBitWriter::<E, _>::verif_from_parts(WordAdapter::<W, _>::new(sink), buffer, space);
        let r = wa.write_bits(v, n);
        let okk = r.is_ok();
        core::mem::forget(r);
        assert!(okk);
        let nb = W::NBITS / 8;
        let t = s.usize_in(0, nb - 1);
        let sk = wa.verif_backend();
        let _ = sk;
        let (bytes, cnt) = {
            // WordAdapter has into_inner only: take the writer apart without running Drop's flush
            let w2 = unsafe { core::ptr::read(&wa) };
            core::mem::forget(wa);
            let (_b, _s) = w2.verif_parts();
            let ad = unsafe { core::ptr::read(w2.verif_backend()) };
            core::mem::forget(w2);
            let f = ad.into_inner();
            (f.bytes, f.n)
        };
        assert_eq!(cnt, nb * k, "adapter backend received a different number of bytes");
        assert_eq!(bytes[j * nb + t], ((refw[j].to_u128() >> (8 * t)) & 0xff) as u8, "adapter backend received different bytes");
    }
    crate::cover!(s, k >= 2 || (W::NBITS >= 64 && k >= 1), "words delivered");
}

/// hook-free history: a fresh writer (public API only) and the model stream receive the same K symbolic
/// operations; after a final flush the delivered words hold exactly the model stream's bits followed by
/// zero padding. Independent of the state-constructor hooks (and a check of the model stream itself).
pub fn history_step<E: En, W: VW, S: Src, const K: usize>(s: &mut S)
where
    Wr<E, W>: BitWrite<E, Error = Infallible>,
{
    use crate::ms::MS;
    let mut w = Wr::<E, W>::new(Rec::<W, RN>::new());
    let mut m = MS::<E, false>::new();
    let mut i = 0;
    while i < K {
        let op = s.u8();
        let v = s.u64();
        let n = s.usize_in(0, if W::NBITS <= 16 { 20 } else { 64 });
        s.assume(op < 3);
        if cfg!(feature = "checks") {
            s.assume(n == 64 || v >> n == 0);
        }
        if op == 0 {
            let a = w.write_bits(v, n).unwrap();
            let b = m.write_bits(v, n).unwrap();
            assert_eq!(a, b, "write_bits return value");
        } else if op == 1 {
            let x = v % 24;
            let a = w.write_unary(x).unwrap();
            let b = m.write_unary(x).unwrap();
            assert_eq!(a, b, "write_unary return value");
        } else {
            // flush in the middle pads to the word boundary: mirror it in the model
            let pending = m.wlen % W::NBITS;
            let a = w.flush().unwrap();
            assert_eq!(a, pending, "flush reports the pending bits");
            if pending > 0 {
                m.wlen += W::NBITS - pending;
            }
        }
        i += 1;
    }
    let pending = m.wlen % W::NBITS;
    let a = w.flush().unwrap();
    assert_eq!(a, pending, "final flush reports the pending bits");
    let total = m.wlen + if pending > 0 { W::NBITS - pending } else { 0 };
    let be = w.verif_backend();
    assert_eq!(be.n * W::NBITS, total, "delivered words cover exactly the stream plus padding");
    let idx = s.usize();
    s.assume(idx < total);
    let got = img_bit_of_word::<E>(be.words[idx / W::NBITS].to_u128(), idx % W::NBITS);
    assert_eq!(got, m.bit(idx), "byte image differs from the canonical stream (padding must be zero)");
    crate::cover!(s, be.n >= 3 || (W::NBITS >= 64 && be.n >= 1), "several words delivered");
    crate::cover!(s, total > m.wlen, "padding present");
    core::mem::forget(w);
}

crate::harnesses! {
    #[kani::unwind(10)]
    c01_write_bits_be_u8 (quick, "BE,u8", "n<=64, v any u64, any state") => write_bits_step::<BE, u8, _>;
    #[kani::unwind(6)]
    c01_write_bits_be_u16 (quick, "BE,u16", "n<=64, v any u64, any state") => write_bits_step::<BE, u16, _>;
    #[kani::unwind(4)]
    c01_write_bits_be_u32 (quick, "BE,u32", "n<=64, v any u64, any state") => write_bits_step::<BE, u32, _>;
    #[kani::unwind(4)]
    c01_write_bits_be_u64 (quick, "BE,u64", "n<=64, v any u64, any state") => write_bits_step::<BE, u64, _>;
    #[kani::unwind(4)]
    c01_write_bits_be_u128 (quick, "BE,u128", "n<=64, v any u64, any state") => write_bits_step::<BE, u128, _>;
    #[kani::unwind(10)]
    c01_write_bits_le_u8 (quick, "LE,u8", "n<=64, v any u64, any state") => write_bits_step::<LE, u8, _>;
    #[kani::unwind(6)]
    c01_write_bits_le_u16 (quick, "LE,u16", "n<=64, v any u64, any state") => write_bits_step::<LE, u16, _>;
    #[kani::unwind(4)]
    c01_write_bits_le_u32 (quick, "LE,u32", "n<=64, v any u64, any state") => write_bits_step::<LE, u32, _>;
    #[kani::unwind(4)]
    c01_write_bits_le_u64 (quick, "LE,u64", "n<=64, v any u64, any state") => write_bits_step::<LE, u64, _>;
    #[kani::unwind(4)]
    c01_write_bits_le_u128 (quick, "LE,u128", "n<=64, v any u64, any state") => write_bits_step::<LE, u128, _>;

    #[kani::unwind(5)]
    c01_write_unary_be_u8 (quick, "BE,u8", "x<=3W, any state") => write_unary_step::<BE, u8, _, 3>;
    #[kani::unwind(5)]
    c01_write_unary_be_u16 (quick, "BE,u16", "x<=3W, any state") => write_unary_step::<BE, u16, _, 3>;
    #[kani::unwind(5)]
    c01_write_unary_be_u32 (quick, "BE,u32", "x<=3W, any state") => write_unary_step::<BE, u32, _, 3>;
    #[kani::unwind(5)]
    c01_write_unary_be_u64 (quick, "BE,u64", "x<=3W, any state") => write_unary_step::<BE, u64, _, 3>;
    #[kani::unwind(5)]
    c01_write_unary_be_u128 (quick, "BE,u128", "x<=3W, any state") => write_unary_step::<BE, u128, _, 3>;
    #[kani::unwind(5)]
    c01_write_unary_le_u8 (quick, "LE,u8", "x<=3W, any state") => write_unary_step::<LE, u8, _, 3>;
    #[kani::unwind(5)]
    c01_write_unary_le_u16 (quick, "LE,u16", "x<=3W, any state") => write_unary_step::<LE, u16, _, 3>;
    #[kani::unwind(5)]
    c01_write_unary_le_u32 (quick, "LE,u32", "x<=3W, any state") => write_unary_step::<LE, u32, _, 3>;
    #[kani::unwind(5)]
    c01_write_unary_le_u64 (quick, "LE,u64", "x<=3W, any state") => write_unary_step::<LE, u64, _, 3>;
    #[kani::unwind(5)]
    c01_write_unary_le_u128 (quick, "LE,u128", "x<=3W, any state") => write_unary_step::<LE, u128, _, 3>;

    c01_flush_be_u8 (quick, "BE,u8", "any state") => flush_step::<BE, u8, _>;
    c01_flush_be_u16 (quick, "BE,u16", "any state") => flush_step::<BE, u16, _>;
    c01_flush_be_u32 (quick, "BE,u32", "any state") => flush_step::<BE, u32, _>;
    c01_flush_be_u64 (quick, "BE,u64", "any state") => flush_step::<BE, u64, _>;
    c01_flush_be_u128 (quick, "BE,u128", "any state") => flush_step::<BE, u128, _>;
    c01_flush_le_u8 (quick, "LE,u8", "any state") => flush_step::<LE, u8, _>;
    c01_flush_le_u16 (quick, "LE,u16", "any state") => flush_step::<LE, u16, _>;
    c01_flush_le_u32 (quick, "LE,u32", "any state") => flush_step::<LE, u32, _>;
    c01_flush_le_u64 (quick, "LE,u64", "any state") => flush_step::<LE, u64, _>;
    c01_flush_le_u128 (quick, "LE,u128", "any state") => flush_step::<LE, u128, _>;

    c01_drop_be_u8 (quick, "BE,u8", "any state") => drop_into_inner_step::<BE, u8, _>;
    c01_drop_be_u16 (thorough, "BE,u16", "any state") => drop_into_inner_step::<BE, u16, _>;
    c01_drop_be_u32 (thorough, "BE,u32", "any state") => drop_into_inner_step::<BE, u32, _>;
    c01_drop_be_u64 (quick, "BE,u64", "any state") => drop_into_inner_step::<BE, u64, _>;
    c01_drop_be_u128 (thorough, "BE,u128", "any state") => drop_into_inner_step::<BE, u128, _>;
    c01_drop_le_u8 (thorough, "LE,u8", "any state") => drop_into_inner_step::<LE, u8, _>;
    c01_drop_le_u16 (thorough, "LE,u16", "any state") => drop_into_inner_step::<LE, u16, _>;
    c01_drop_le_u32 (quick, "LE,u32", "any state") => drop_into_inner_step::<LE, u32, _>;
    c01_drop_le_u64 (thorough, "LE,u64", "any state") => drop_into_inner_step::<LE, u64, _>;
    c01_drop_le_u128 (quick, "LE,u128", "any state") => drop_into_inner_step::<LE, u128, _>;
    #[kani::stub(alloc::fmt::format, crate::c13::stub_format)]
    #[kani::stub(std::string::ToString::to_string, crate::c13::stub_to_string)]
    #[kani::unwind(14)]
    c01_backends_be_u8 (quick, "BE,u8: MemWordWriterSlice / MemWordWriterVec / WordAdapter<FixedSink> vs recording backend", "write_bits(v, n), any buffer state: same words delivered to every backend kind") => backend_kinds_step::<BE, u8, _>;
    #[kani::stub(alloc::fmt::format, crate::c13::stub_format)]
    #[kani::stub(std::string::ToString::to_string, crate::c13::stub_to_string)]
    #[kani::unwind(14)]
    c01_backends_be_u16 (thorough, "BE,u16: MemWordWriterSlice / MemWordWriterVec / WordAdapter<FixedSink> vs recording backend", "write_bits(v, n), any buffer state: same words delivered to every backend kind") => backend_kinds_step::<BE, u16, _>;
    #[kani::stub(alloc::fmt::format, crate::c13::stub_format)]
    #[kani::stub(std::string::ToString::to_string, crate::c13::stub_to_string)]
    #[kani::unwind(12)]
    c01_backends_be_u32 (thorough, "BE,u32: MemWordWriterSlice / MemWordWriterVec / WordAdapter<FixedSink> vs recording backend", "write_bits(v, n), any buffer state: same words delivered to every backend kind") => backend_kinds_step::<BE, u32, _>;
    #[kani::stub(alloc::fmt::format, crate::c13::stub_format)]
    #[kani::stub(std::string::ToString::to_string, crate::c13::stub_to_string)]
    #[kani::unwind(12)]
    c01_backends_be_u64 (quick, "BE,u64: MemWordWriterSlice / MemWordWriterVec / WordAdapter<FixedSink> vs recording backend", "write_bits(v, n), any buffer state: same words delivered to every backend kind") => backend_kinds_step::<BE, u64, _>;
    #[kani::stub(alloc::fmt::format, crate::c13::stub_format)]
    #[kani::stub(std::string::ToString::to_string, crate::c13::stub_to_string)]
    #[kani::unwind(12)]
    c01_backends_be_u128 (thorough, "BE,u128: MemWordWriterSlice / MemWordWriterVec / WordAdapter<FixedSink> vs recording backend", "write_bits(v, n), any buffer state: same words delivered to every backend kind") => backend_kinds_step::<BE, u128, _>;
    #[kani::stub(alloc::fmt::format, crate::c13::stub_format)]
    #[kani::stub(std::string::ToString::to_string, crate::c13::stub_to_string)]
    #[kani::unwind(14)]
    c01_backends_le_u8 (thorough, "LE,u8: MemWordWriterSlice / MemWordWriterVec / WordAdapter<FixedSink> vs recording backend", "write_bits(v, n), any buffer state: same words delivered to every backend kind") => backend_kinds_step::<LE, u8, _>;
    #[kani::stub(alloc::fmt::format, crate::c13::stub_format)]
    #[kani::stub(std::string::ToString::to_string, crate::c13::stub_to_string)]
    #[kani::unwind(14)]
    c01_backends_le_u16 (thorough, "LE,u16: MemWordWriterSlice / MemWordWriterVec / WordAdapter<FixedSink> vs recording backend", "write_bits(v, n), any buffer state: same words delivered to every backend kind") => backend_kinds_step::<LE, u16, _>;
    #[kani::stub(alloc::fmt::format, crate::c13::stub_format)]
    #[kani::stub(std::string::ToString::to_string, crate::c13::stub_to_string)]
    #[kani::unwind(12)]
    c01_backends_le_u32 (quick, "LE,u32: MemWordWriterSlice / MemWordWriterVec / WordAdapter<FixedSink> vs recording backend", "write_bits(v, n), any buffer state: same words delivered to every backend kind") => backend_kinds_step::<LE, u32, _>;
    #[kani::stub(alloc::fmt::format, crate::c13::stub_format)]
    #[kani::stub(std::string::ToString::to_string, crate::c13::stub_to_string)]
    #[kani::unwind(12)]
    c01_backends_le_u64 (thorough, "LE,u64: MemWordWriterSlice / MemWordWriterVec / WordAdapter<FixedSink> vs recording backend", "write_bits(v, n), any buffer state: same words delivered to every backend kind") => backend_kinds_step::<LE, u64, _>;
    #[kani::stub(alloc::fmt::format, crate::c13::stub_format)]
    #[kani::stub(std::string::ToString::to_string, crate::c13::stub_to_string)]
    #[kani::unwind(12)]
    c01_backends_le_u128 (thorough, "LE,u128: MemWordWriterSlice / MemWordWriterVec / WordAdapter<FixedSink> vs recording backend", "write_bits(v, n), any buffer state: same words delivered to every backend kind") => backend_kinds_step::<LE, u128, _>;
    #[kani::unwind(12)]
    c01_history_be_u8_k3 (quick, "BE,u8: public API only (no hooks), writer vs model stream", "3 symbolic operations (write_bits n<=20, write_unary x<24, flush) from a fresh writer, then flush: whole byte image") => history_step::<BE, u8, _, 3>;
    #[kani::unwind(12)]
    c01_history_le_u8_k3 (thorough, "LE,u8: public API only (no hooks), writer vs model stream", "3 symbolic operations (write_bits n<=20, write_unary x<24, flush) from a fresh writer, then flush: whole byte image") => history_step::<LE, u8, _, 3>;
    #[kani::unwind(6)]
    c01_history_be_u64_k3 (thorough, "BE,u64: public API only (no hooks), writer vs model stream", "3 symbolic operations (write_bits n<=64, write_unary x<24, flush) from a fresh writer, then flush: whole byte image") => history_step::<BE, u64, _, 3>;
    #[kani::unwind(6)]
    c01_history_le_u64_k3 (thorough, "LE,u64: public API only (no hooks), writer vs model stream", "3 symbolic operations (write_bits n<=64, write_unary x<24, flush) from a fresh writer, then flush: whole byte image") => history_step::<LE, u64, _, 3>;
    #[kani::unwind(8)]
    c01_history_le_u16_k3 (thorough, "LE,u16: public API only (no hooks), writer vs model stream", "3 symbolic operations (write_bits n<=20, write_unary x<24, flush) from a fresh writer, then flush: whole byte image") => history_step::<LE, u16, _, 3>;
    #[kani::unwind(6)]
    c01_history_be_u128_k3 (thorough, "BE,u128: public API only (no hooks), writer vs model stream", "3 symbolic operations (write_bits n<=64, write_unary x<24, flush) from a fresh writer, then flush: whole byte image") => history_step::<BE, u128, _, 3>;
    #[kani::unwind(6)]
    c01_history_be_u32_k4 (thorough, "BE,u32: public API only (no hooks), writer vs model stream", "4 symbolic operations (write_bits n<=64, write_unary x<24, flush) from a fresh writer, then flush: whole byte image") => history_step::<BE, u32, _, 4>;
}
