//! C11 — WordAdapter is transparent and loss-free under I/O faults.
//! The wrapped `std::io::Write` / `Read` is a nondeterministic stub: every
//! call may transfer any legal count, return `Interrupted` (bounded budget) or
//! fail hard; the schedule is symbolic.

use crate::c02::any_array;
use crate::c13::*;
use crate::model::*;
use crate::src::Src;
use dsi_bitstream::prelude::*;
use std::io::{Error, ErrorKind};

pub const CALLS: usize = 20;
pub const SINK: usize = 40;

/// One scheduled behaviour per call of the wrapped object.
#[derive(Clone, Copy)]
pub struct Sched {
    pub kind: [u8; CALLS], // 0 transfer, 1 Interrupted, 2 hard error
    pub cnt: [usize; CALLS],
}

pub fn any_sched<S: Src>(s: &mut S) -> Sched {
    let ka = any_array::<u8, S, 12>(s);
    let kb = any_array::<u8, S, 8>(s);
    let mut kind = [0u8; CALLS];
    let mut cnt = [0usize; CALLS];
    macro_rules! f { ($($i:literal)*) => { $( kind[$i] = if $i < 12 { ka[$i] } else { kb[$i - 12] }; cnt[$i] = s.usize(); s.assume(kind[$i] < 3 && cnt[$i] <= 64); )* }; }
    f!(0 1 2 3 4 5 6 7 8 9 10 11 12 13 14 15 16 17 18 19);
    Sched { kind, cnt }
}

pub struct FaultyW {
    pub sink: [u8; SINK],
    pub n: usize,
    pub sched: Sched,
    pub call: usize,
    pub intr_left: usize,
    pub hard_errors: usize,
    pub flushes: usize,
}

impl FaultyW {
    pub fn new(sched: Sched) -> Self {
        Self { sink: [0; SINK], n: 0, sched, call: 0, intr_left: 2, hard_errors: 0, flushes: 0 }
    }
}

impl std::io::Write for FaultyW {
    fn write(&mut self, buf: &[u8]) -> std::io::Result<usize> {
        let i = self.call;
        assert!(i < CALLS, "more calls to the wrapped writer than the harness schedules (bound too small)");
        self.call += 1;
        let kind = self.sched.kind[i];
        if kind == 1 && self.intr_left > 0 {
            self.intr_left -= 1;
            return Err(Error::from(ErrorKind::Interrupted));
        }
        if kind == 2 {
            self.hard_errors += 1;
            return Err(Error::from(ErrorKind::Other));
        }
        // any count allowed by the contract: 0..=buf.len()
        let mut k = self.sched.cnt[i];
        if k > buf.len() {
            k = buf.len();
        }
        assert!(self.n + k <= SINK, "sink capacity");
        let mut j = 0;
        while j < k {
            self.sink[self.n + j] = buf[j];
            j += 1;
        }
        self.n += k;
        Ok(k)
    }
    fn flush(&mut self) -> std::io::Result<()> {
        self.flushes += 1;
        Ok(())
    }
}

/// write_word x NW with symbolic words over a faulty sink: whenever every call returned Ok, the
/// sink holds exactly the words' native bytes, once, in order.
pub fn adapter_write_step<W: VW, S: Src, const NW: usize>(s: &mut S) {
    let sched = any_sched(s);
    let w0 = W::any(s);
    let w1 = W::any(s);
    let j = s.usize();
    let nb = W::NBITS / 8;
    s.assume(j < NW * nb);
    let mut a = WordAdapter::<W, FaultyW>::new(FaultyW::new(sched));
    let mut all_ok = true;
    let r0 = a.write_word(w0);
    all_ok = all_ok && r0.is_ok();
    core::mem::forget(r0);
    if NW > 1 && all_ok {
        let r1 = a.write_word(w1);
        all_ok = all_ok && r1.is_ok();
        core::mem::forget(r1);
    }
    let f = a.into_inner();
    if all_ok {
        assert_eq!(f.n, NW * nb, "Ok from write_word but the sink did not receive every byte exactly once");
        let w = if j < nb { w0 } else { w1 };
        let exp = ((w.to_u128() >> (8 * (j % nb))) & 0xff) as u8; // native (little-endian host) byte order
        assert_eq!(f.sink[j], exp, "byte in the sink differs from the word's native byte");
    }
    crate::cover!(s, all_ok && f.call > NW, "success after short writes / interruptions");
    crate::cover!(s, !all_ok, "an error is reported");
    crate::cover!(s, all_ok && f.call == NW, "success with full writes");
    core::mem::forget(f);
}

pub struct FaultyR {
    pub data: [u8; SINK],
    pub len: usize,
    pub pos: usize,
    pub sched: Sched,
    pub call: usize,
    pub intr_left: usize,
    pub hard_errors: usize,
}

impl std::io::Read for FaultyR {
    fn read(&mut self, buf: &mut [u8]) -> std::io::Result<usize> {
        let i = self.call;
        assert!(i < CALLS, "more calls to the wrapped reader than the harness schedules (bound too small)");
        self.call += 1;
        let kind = self.sched.kind[i];
        if kind == 1 && self.intr_left > 0 {
            self.intr_left -= 1;
            return Err(Error::from(ErrorKind::Interrupted));
        }
        if kind == 2 {
            self.hard_errors += 1;
            return Err(Error::from(ErrorKind::Other));
        }
        let rem = self.len - self.pos;
        let mut k = self.sched.cnt[i];
        if k > buf.len() {
            k = buf.len();
        }
        if k > rem {
            k = rem;
        }
        // Ok(0) on a non-empty buffer means end of data: only then
        if k == 0 && rem > 0 && buf.len() > 0 {
            k = 1;
        }
        let mut j = 0;
        while j < k {
            buf[j] = self.data[self.pos + j];
            j += 1;
        }
        self.pos += k;
        Ok(k)
    }
}

/// read_word over a faulty source with symbolic data, length and cursor
pub fn adapter_read_step<W: VW, S: Src>(s: &mut S) {
    let sched = any_sched(s);
    let nb = W::NBITS / 8;
    let data = {
        let a = any_array::<u8, S, 12>(s);
        let b = any_array::<u8, S, 12>(s);
        let c = any_array::<u8, S, 12>(s);
        let mut d = [0u8; SINK];
        let mut i = 0;
        while i < 12 {
            d[i] = a[i];
            d[12 + i] = b[i];
            d[24 + i] = c[i];
            i += 1;
        }
        d
    };
    let len = s.usize_in(0, 36);
    let pos = s.usize_in(0, len);
    let j = s.usize_in(0, nb - 1);
    let fr = FaultyR { data, len, pos, sched, call: 0, intr_left: 2, hard_errors: 0 };
    let mut a = WordAdapter::<W, FaultyR>::new(fr);
    let r = a.read_word();
    let got = is_ok(r);
    let f = a.into_inner();
    match got {
        Some(w) => {
            assert!(len - pos >= nb, "Ok from read_word although fewer than BYTES bytes remained (data fabricated)");
            assert_eq!(f.pos, pos + nb, "exactly BYTES bytes consumed");
            let exp = data[pos + j];
            assert_eq!(((w.to_u128() >> (8 * j)) & 0xff) as u8, exp, "word differs from the next BYTES bytes (native order)");
        }
        None => {
            assert!(len - pos < nb || f.hard_errors > 0, "read_word failed although the bytes were available and no hard error occurred");
        }
    }
    crate::cover!(s, got.is_some() && f.call > 1, "success after short reads / interruptions");
    crate::cover!(s, got.is_none() && f.hard_errors == 0, "end of data reported");
    core::mem::forget(f);
}

#[inline(always)]
fn is_ok<T, E>(r: Result<T, E>) -> Option<T> {
    match r {
        Ok(v) => Some(v),
        Err(e) => {
            core::mem::forget(e);
            None
        }
    }
}

/// word positions over a seekable byte stream (std::io::Cursor over a byte array)
pub fn adapter_seek_step<W: VW, S: Src, const NWORDS: usize, const NBYTES: usize>(s: &mut S) {
    let bytes = any_array::<u8, S, 12>(s);
    let nb = W::NBITS / 8;
    assert!(NBYTES == NWORDS * nb && NBYTES <= 12);
    let p = s.usize_in(0, NWORDS);
    let j = s.usize_in(0, nb - 1);
    let cur = std::io::Cursor::new(&bytes[..NBYTES]);
    let mut a = WordAdapter::<W, _>::new(cur);
    assert_eq!(is_ok(a.word_pos()), Some(0), "fresh adapter at word 0");
    assert!(is_ok(a.set_word_pos(p as u64)).is_some(), "seek inside accepted");
    assert_eq!(is_ok(a.word_pos()), Some(p as u64), "word position reported exactly");
    let r = is_ok(a.read_word());
    if p < NWORDS {
        match r {
            Some(w) => {
                assert_eq!(((w.to_u128() >> (8 * j)) & 0xff) as u8, bytes[p * nb + j], "seek addresses that word");
            }
            None => assert!(false, "read inside the data failed"),
        }
        assert_eq!(is_ok(a.word_pos()), Some(p as u64 + 1), "position == words transferred");
    } else {
        assert!(r.is_none(), "read at the end is an error");
    }
    crate::cover!(s, p == NWORDS, "at the end");
    crate::cover!(s, (p > 0 && p < NWORDS) || NWORDS == 1, "inside");
}

crate::harnesses! {
    #[kani::unwind(10)]
    c11_write_u8 (quick, "WordAdapter<u8,FaultyW>", "2 words, any fault schedule (short counts 0..=len, <=2 Interrupted, hard error at any call)") => adapter_write_step::<u8, _, 2>;
    #[kani::unwind(10)]
    c11_write_u16 (quick, "WordAdapter<u16,FaultyW>", "2 words, any fault schedule") => adapter_write_step::<u16, _, 2>;
    #[kani::unwind(10)]
    c11_write_u32 (quick, "WordAdapter<u32,FaultyW>", "2 words, any fault schedule") => adapter_write_step::<u32, _, 2>;
    #[kani::unwind(12)]
    c11_write_u64 (quick, "WordAdapter<u64,FaultyW>", "1 word, any fault schedule") => adapter_write_step::<u64, _, 1>;
    #[kani::unwind(22)]
    c11_write_u128 (thorough, "WordAdapter<u128,FaultyW>", "1 word, any fault schedule") => adapter_write_step::<u128, _, 1>;

    #[kani::stub(alloc::fmt::format, stub_format)]
    #[kani::stub(std::string::ToString::to_string, stub_to_string)]
    #[kani::unwind(14)]
    c11_read_u8 (quick, "WordAdapter<u8,FaultyR>", "symbolic data<=36 bytes, any cursor, any fault schedule") => adapter_read_step::<u8, _>;
    #[kani::stub(alloc::fmt::format, stub_format)]
    #[kani::stub(std::string::ToString::to_string, stub_to_string)]
    #[kani::unwind(14)]
    c11_read_u16 (quick, "WordAdapter<u16,FaultyR>", "symbolic data<=36 bytes, any cursor, any fault schedule") => adapter_read_step::<u16, _>;
    #[kani::stub(alloc::fmt::format, stub_format)]
    #[kani::stub(std::string::ToString::to_string, stub_to_string)]
    #[kani::unwind(14)]
    c11_read_u32 (quick, "WordAdapter<u32,FaultyR>", "symbolic data<=36 bytes, any cursor, any fault schedule") => adapter_read_step::<u32, _>;
    #[kani::stub(alloc::fmt::format, stub_format)]
    #[kani::stub(std::string::ToString::to_string, stub_to_string)]
    #[kani::unwind(14)]
    c11_read_u64 (thorough, "WordAdapter<u64,FaultyR>", "symbolic data<=36 bytes, any cursor, any fault schedule") => adapter_read_step::<u64, _>;

    #[kani::stub(alloc::fmt::format, stub_format)]
    #[kani::stub(std::string::ToString::to_string, stub_to_string)]
    #[kani::unwind(14)]
    c11_seek_u16 (quick, "WordAdapter<u16,Cursor<&[u8]>>", "6 words, any seek target 0..=6") => adapter_seek_step::<u16, _, 6, 12>;
    #[kani::stub(alloc::fmt::format, stub_format)]
    #[kani::stub(std::string::ToString::to_string, stub_to_string)]
    #[kani::unwind(14)]
    c11_seek_u32 (quick, "WordAdapter<u32,Cursor<&[u8]>>", "3 words, any seek target 0..=3") => adapter_seek_step::<u32, _, 3, 12>;
    #[kani::stub(alloc::fmt::format, stub_format)]
    #[kani::stub(std::string::ToString::to_string, stub_to_string)]
    #[kani::unwind(14)]
    c11_seek_u64 (thorough, "WordAdapter<u64,Cursor<&[u8]>>", "1 word, any seek target 0..=1") => adapter_seek_step::<u64, _, 1, 8>;
}
