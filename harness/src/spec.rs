//! Specification of every code, written from the module documentation only
//! (src/codes/mod.rs table and BE/LE conventions; per-module definitions):
//! for a value `v` (and parameters) `*_len` is the codeword length and
//! `*_bit::<E>(.., i)` is the i-th bit of the codeword in stream order.
//! Loop-free and independent of the library's writers.
//!
//! LE conventions (codes/mod.rs): binary fields are emitted least-significant
//! bit first, the omega blocks are rotated left by one (top bit first), the
//! minimal-binary extra bit comes last.

use crate::model::{field_bit, En};

#[inline(always)]
pub fn ilog2(x: u64) -> usize {
    // floor(log2 x), x > 0
    63 - x.leading_zeros() as usize
}

#[inline(always)]
fn low(v: u64, n: usize) -> u64 {
    if n >= 64 {
        v
    } else {
        v & ((1u64 << n) - 1)
    }
}

// ---- unary: x zeros followed by a one
#[inline(always)]
pub fn unary_len(x: u64) -> usize {
    x as usize + 1
}
#[inline(always)]
pub fn unary_bit(x: u64, i: usize) -> bool {
    i == x as usize
}

// ---- gamma(v) = unary(lambda) . (v+1 without its top bit), lambda = floor(log2(v+1))
#[inline(always)]
pub fn gamma_len(v: u64) -> usize {
    2 * ilog2(v + 1) + 1
}
#[inline(always)]
pub fn gamma_bit<E: En>(v: u64, i: usize) -> bool {
    let l = ilog2(v + 1);
    if i <= l {
        i == l
    } else {
        field_bit::<E>(low(v + 1, l), l, i - l - 1)
    }
}

// ---- delta(v) = gamma(lambda) . (v+1 without its top bit)
#[inline(always)]
pub fn delta_len(v: u64) -> usize {
    let l = ilog2(v + 1);
    gamma_len(l as u64) + l
}
#[inline(always)]
pub fn delta_bit<E: En>(v: u64, i: usize) -> bool {
    let l = ilog2(v + 1);
    let g = gamma_len(l as u64);
    if i < g {
        gamma_bit::<E>(l as u64, i)
    } else {
        field_bit::<E>(low(v + 1, l), l, i - g)
    }
}

// ---- omega: recursive blocks N3 N2 N1 N0 followed by a zero, N0 = v+1, N_{j+1} = floor(log2 N_j),
// blocks with N_j <= 1 omitted; block N_j is N_j in floor(log2 N_j)+1 bits.
// LE: each block is rotated left by one inside its width (so its top bit, a one, comes first)
// and then emitted least-significant-bit first.
#[inline(always)]
fn omega_blocks(v: u64) -> ([u64; 4], usize) {
    // returns blocks in EMISSION order and their count
    let n0 = v + 1;
    let n1 = if n0 > 1 { ilog2(n0) as u64 } else { 0 };
    let n2 = if n1 > 1 { ilog2(n1) as u64 } else { 0 };
    let n3 = if n2 > 1 { ilog2(n2) as u64 } else { 0 };
    // n3 <= 2, so floor(log2 n3) <= 1: no further block
    let mut out = [0u64; 4];
    let mut c = 0;
    if n3 > 1 {
        out[c] = n3;
        c += 1;
    }
    if n2 > 1 {
        out[c] = n2;
        c += 1;
    }
    if n1 > 1 {
        out[c] = n1;
        c += 1;
    }
    if n0 > 1 {
        out[c] = n0;
        c += 1;
    }
    (out, c)
}
#[inline(always)]
fn block_len(n: u64) -> usize {
    ilog2(n) + 1
}
#[inline(always)]
pub fn omega_len(v: u64) -> usize {
    let (b, c) = omega_blocks(v);
    let mut l = 1;
    if c > 0 {
        l += block_len(b[0]);
    }
    if c > 1 {
        l += block_len(b[1]);
    }
    if c > 2 {
        l += block_len(b[2]);
    }
    if c > 3 {
        l += block_len(b[3]);
    }
    l
}
#[inline(always)]
fn omega_block_bit<E: En>(n: u64, j: usize) -> bool {
    let w = block_len(n);
    if E::BE {
        field_bit::<E>(n, w, j)
    } else {
        // rotate left by one inside w bits: top bit (a one) moves to position 0
        let rot = if w >= 64 { (n << 1) | 1 } else { ((n << 1) | 1) & ((1u64 << w) - 1) };
        field_bit::<E>(rot, w, j)
    }
}
#[inline(always)]
pub fn omega_bit<E: En>(v: u64, i: usize) -> bool {
    let (b, c) = omega_blocks(v);
    let mut start = 0;
    if c > 0 {
        let w = block_len(b[0]);
        if i < start + w {
            return omega_block_bit::<E>(b[0], i - start);
        }
        start += w;
    }
    if c > 1 {
        let w = block_len(b[1]);
        if i < start + w {
            return omega_block_bit::<E>(b[1], i - start);
        }
        start += w;
    }
    if c > 2 {
        let w = block_len(b[2]);
        if i < start + w {
            return omega_block_bit::<E>(b[2], i - start);
        }
        start += w;
    }
    if c > 3 {
        let w = block_len(b[3]);
        if i < start + w {
            return omega_block_bit::<E>(b[3], i - start);
        }
    }
    false // terminating zero
}

// ---- minimal binary with upper bound u (1 <= u <= 2^64, given as u128), x < u:
// s = ceil(log2 u); x < 2^s - u -> x in s-1 bits; else x - u + 2^s in s bits.
// When u = 2^s there is no short codeword and no decision to take: the codeword is the plain
// s-bit field of x (LE: least significant bit first, like every field). Otherwise the s-bit
// codewords are emitted as their first s-1 bits (as a field) followed by the extra bit
// (codes/mod.rs: "read the first two bits to decide whether to read the third one").
#[inline(always)]
pub fn mb_s(u: u128) -> usize {
    if u <= 1 {
        0
    } else {
        128 - (u - 1).leading_zeros() as usize
    }
}
#[inline(always)]
pub fn mb_len(x: u64, u: u128) -> usize {
    let s = mb_s(u);
    if s == 0 {
        return 0;
    }
    let thr = (1u128 << s) - u;
    if (x as u128) < thr {
        s - 1
    } else {
        s
    }
}
#[inline(always)]
pub fn mb_bit<E: En>(x: u64, u: u128, i: usize) -> bool {
    let s = mb_s(u);
    if s == 0 {
        return false;
    }
    let thr = (1u128 << s) - u;
    if thr == 0 {
        field_bit::<E>(x, s, i)
    } else if (x as u128) < thr {
        field_bit::<E>(x, s - 1, i)
    } else {
        let y = (x as u128 + thr) as u64; // < 2^s <= 2^64
        if i < s - 1 {
            field_bit::<E>(y >> 1, s - 1, i)
        } else {
            y & 1 == 1
        }
    }
}

// ---- zeta_k(v): h = floor(floor(log2(v+1)) / k); unary(h) . minimal binary of v+1-2^(hk) with bound 2^((h+1)k) - 2^(hk)
// defined here where (h+1)k <= 64
#[inline(always)]
pub fn zeta_h(v: u64, k: usize) -> usize {
    // floor(floor(log2(v+1)) / k); both operands < 64: an 8-bit division (cheap to bit-blast)
    ((ilog2(v + 1) as u8) / (k as u8)) as usize
}
#[inline(always)]
pub fn zeta_u(v: u64, k: usize) -> u128 {
    let h = zeta_h(v, k);
    (1u128 << ((h + 1) * k)) - (1u128 << (h * k))
}
#[inline(always)]
pub fn zeta_len(v: u64, k: usize) -> usize {
    let h = zeta_h(v, k);
    h + 1 + mb_len(v + 1 - (1u64 << (h * k)), zeta_u(v, k))
}
#[inline(always)]
pub fn zeta_bit<E: En>(v: u64, k: usize, i: usize) -> bool {
    let h = zeta_h(v, k);
    if i <= h {
        i == h
    } else {
        mb_bit::<E>(v + 1 - (1u64 << (h * k)), zeta_u(v, k), i - h - 1)
    }
}

// ---- Rice_k(x) = unary(x >> k) . low k bits of x
#[inline(always)]
pub fn rice_len(x: u64, k: usize) -> usize {
    (x >> k) as usize + 1 + k
}
#[inline(always)]
pub fn rice_bit<E: En>(x: u64, k: usize, i: usize) -> bool {
    let q = (x >> k) as usize;
    if i <= q {
        i == q
    } else {
        field_bit::<E>(low(x, k), k, i - q - 1)
    }
}

// ---- pi_k(v) = Rice_k(lambda) . (v+1 without its top bit)
#[inline(always)]
pub fn pi_len(v: u64, k: usize) -> usize {
    let l = ilog2(v + 1);
    rice_len(l as u64, k) + l
}
#[inline(always)]
pub fn pi_bit<E: En>(v: u64, k: usize, i: usize) -> bool {
    let l = ilog2(v + 1);
    let r = rice_len(l as u64, k);
    if i < r {
        rice_bit::<E>(l as u64, k, i)
    } else {
        field_bit::<E>(low(v + 1, l), l, i - r)
    }
}

// ---- Golomb_b(x) = unary(x / b) . minimal binary of x mod b with bound b
#[inline(always)]
pub fn golomb_len(x: u64, b: u64) -> usize {
    let (q, r) = divmod(x, b);
    q as usize + 1 + mb_len(r, b as u128)
}
/// quotient and remainder; when both operands fit 16 bits the division is done in 16 bits
/// (same result, much cheaper to bit-blast)
#[inline(always)]
pub fn divmod(x: u64, b: u64) -> (u64, u64) {
    if x <= u16::MAX as u64 && b <= u16::MAX as u64 {
        let (x, b) = (x as u16, b as u16);
        ((x / b) as u64, (x % b) as u64)
    } else {
        (x / b, x % b)
    }
}
#[inline(always)]
pub fn golomb_bit<E: En>(x: u64, b: u64, i: usize) -> bool {
    let (q, r) = divmod(x, b);
    let q = q as usize;
    if i <= q {
        i == q
    } else {
        mb_bit::<E>(r, b as u128, i - q - 1)
    }
}

// ---- exp-Golomb_k(x) = gamma(x >> k) . low k bits of x
#[inline(always)]
pub fn exp_golomb_len(x: u64, k: usize) -> usize {
    gamma_len(x >> k) + k
}
#[inline(always)]
pub fn exp_golomb_bit<E: En>(x: u64, k: usize, i: usize) -> bool {
    let g = gamma_len(x >> k);
    if i < g {
        gamma_bit::<E>(x >> k, i)
    } else {
        field_bit::<E>(low(x, k), k, i - g)
    }
}

// ---- VByte (ungrouped, complete): L bytes cover [lower(L), lower(L+1)), lower(L) = 2^7 + 2^14 + ... + 2^(7(L-1));
// the offset value r = v - lower(L) is split in L 7-bit groups, every byte but the last carries a continuation bit (0x80);
// `big` = groups most significant first (VByteBe), else least significant first (VByteLe).
pub const fn vbyte_lower(l: usize) -> u128 {
    // lower(1) = 0, lower(2) = 2^7, ...
    let mut s: u128 = 0;
    let mut j = 1;
    while j < l {
        s += 1u128 << (7 * j);
        j += 1;
    }
    s
}
pub const VB_LOWER: [u128; 12] = [
    0,
    vbyte_lower(1),
    vbyte_lower(2),
    vbyte_lower(3),
    vbyte_lower(4),
    vbyte_lower(5),
    vbyte_lower(6),
    vbyte_lower(7),
    vbyte_lower(8),
    vbyte_lower(9),
    vbyte_lower(10),
    vbyte_lower(11),
];
#[inline(always)]
pub fn vbyte_bytes(v: u64) -> usize {
    let x = v as u128;
    if x < VB_LOWER[2] {
        1
    } else if x < VB_LOWER[3] {
        2
    } else if x < VB_LOWER[4] {
        3
    } else if x < VB_LOWER[5] {
        4
    } else if x < VB_LOWER[6] {
        5
    } else if x < VB_LOWER[7] {
        6
    } else if x < VB_LOWER[8] {
        7
    } else if x < VB_LOWER[9] {
        8
    } else if x < VB_LOWER[10] {
        9
    } else {
        10
    }
}
/// j-th byte (stream order) of the VByte code of v
#[inline(always)]
pub fn vbyte_byte(v: u64, big: bool, j: usize) -> u8 {
    let l = vbyte_bytes(v);
    let r = v as u128 - VB_LOWER[l];
    let g = if big { l - 1 - j } else { j };
    let grp = ((r >> (7 * g)) & 0x7f) as u8;
    if j < l - 1 {
        grp | 0x80
    } else {
        grp
    }
}
#[inline(always)]
pub fn vbyte_len(v: u64) -> usize {
    8 * vbyte_bytes(v)
}
/// i-th bit of the VByte code on a stream of endianness E (each byte is an 8-bit field)
#[inline(always)]
pub fn vbyte_bit<E: En>(v: u64, big: bool, i: usize) -> bool {
    field_bit::<E>(vbyte_byte(v, big, i / 8) as u64, 8, i % 8)
}
