//! C08 — bulk copy moves exactly n bits and leaves both streams intact.
//!
//! Reader side: real `BufBitReader::copy_to` (optimised path, or the trait's
//! generic path when the crate is built with `no_copy_impls`) from an
//! arbitrary `Inv_r` state into the model stream `MS<E>` (which asserts the
//! `write_bits` precondition `n <= 64` at every call).
//! Writer side: real `BufBitWriter::copy_from` from an arbitrary writer state,
//! source = model stream with symbolic content.

use crate::c01::{any_writer_state, post_bit, RN};
use crate::c02::{Bb, RState, Rd, RdOk, UState, Ub, UbOk};
use crate::model::*;
use crate::ms::*;
use crate::src::Src;
use common_traits::DoubleType;
use core::convert::Infallible;
use dsi_bitstream::prelude::*;

pub fn copy_to_step<E: En, W: VW + DoubleType, S: Src, const K: usize, const NMAX: usize>(s: &mut S)
where
    Bb<W>: VW,
    Rd<E, W, K>: RdOk<E, W, K>,
{
    let st = RState::<W, K>::any::<E, S>(s, 2 * W::NBITS - 1);
    let n = s.usize_in(0, NMAX);
    let idx = s.usize();
    let t = s.usize();
    s.assume(n == 0 || idx < n);
    let mut r = st.reader::<E>();
    let mut ms = MS::<E, false>::new();
    ms.require_clean = cfg!(feature = "checks");
    let res = r.copy_to(&mut ms, n as u64);
    assert!(res.is_ok(), "copy_to over infallible streams must succeed");
    assert_eq!(ms.wlen, n, "destination received exactly n bits");
    if n > 0 {
        assert_eq!(ms.bit(idx), st.stream_bit::<E>(idx), "copied bit differs from the source stream");
    }
    // reader advanced by exactly n and is left in a valid state (later operations behave as if
    // the bits had been transferred one at a time: C02 holds from every Inv_r state)
    st.check_post::<E>(&mut r, n, t);
    crate::cover!(s, n > 0 && n <= st.n, "copy served from the buffer only");
    crate::cover!(s, n > st.n + W::NBITS, "copy crosses whole words");
    crate::cover!(s, st.n > 64 || W::NBITS < 64, "more than 64 bits buffered (u64 words) or smaller words");
}

/// continuation: copy, then table-style look-ahead and a read on the source
pub fn copy_to_then_peek_step<E: En, W: VW + DoubleType, S: Src, const K: usize, const NMAX: usize>(s: &mut S)
where
    Bb<W>: VW,
    Rd<E, W, K>: RdOk<E, W, K>,
{
    let st = RState::<W, K>::any::<E, S>(s, 2 * W::NBITS - 1);
    let n = s.usize_in(0, NMAX);
    let m = s.usize_in(1, W::NBITS);
    let q = s.usize_in(0, 64);
    let j = s.usize();
    s.assume(j < m);
    let mut r = st.reader::<E>();
    let mut ms = MS::<E, false>::new();
    let res = r.copy_to(&mut ms, n as u64);
    assert!(res.is_ok());
    let v = r.peek_bits(m).unwrap().to_u128();
    assert!(v >> m == 0, "peek after copy: bits above m must be zero");
    let fb = (v >> (if E::BE { m - 1 - j } else { j })) & 1 == 1;
    assert_eq!(fb, st.stream_bit::<E>(n + j), "peek after copy differs from the stream");
    let x = r.read_bits(q).unwrap();
    let jj = s.usize();
    s.assume(q == 0 || jj < q);
    if q > 0 {
        assert_eq!(field_bit::<E>(x, q, jj), st.stream_bit::<E>(n + jj), "read after copy differs from the stream");
    }
    crate::cover!(s, n > 0 && n < st.n && m > st.n - n, "copy from the buffer, then a peek that refills");
}

pub fn ub_copy_to_step<E: En, S: Src, const K: usize, const NMAX: usize>(s: &mut S)
where
    Ub<E, K>: UbOk<E>,
{
    let st = UState::<K>::any(s);
    let n = s.usize_in(0, NMAX);
    let idx = s.usize();
    s.assume(n == 0 || idx < n);
    let mut r = st.reader::<E>();
    let mut ms = MS::<E, false>::new();
    let res = r.copy_to(&mut ms, n as u64);
    assert!(res.is_ok());
    assert_eq!(ms.wlen, n, "destination received exactly n bits");
    if n > 0 {
        assert_eq!(ms.bit(idx), st.stream_bit::<E>(idx), "copied bit differs from the source stream");
    }
    assert_eq!(r.bit_pos().unwrap(), st.p + n as u64, "reader advanced by exactly n");
    crate::cover!(s, n > 128, "several chunks");
}

type Wr<E, W> = BufBitWriter<E, Rec<W, RN>>;

pub fn copy_from_step<E: En, W: VW, S: Src, const NMAX: usize>(s: &mut S)
where
    Wr<E, W>: BitWrite<E, Error = Infallible>,
{
    let p = any_writer_state::<W, S>(s);
    s.assume(p.n0 <= 1);
    let (pre0, pre1) = (p.rec.words[0], p.rec.words[1]);
    let mut src = MS::<E, false>::new();
    src.bits = U256 { hi: s.u128(), lo: s.u128() };
    src.wlen = CAP;
    src.rpos = s.usize_in(0, 40);
    let r0 = src.rpos;
    let n = s.usize_in(0, NMAX);
    let idx = s.usize();
    s.assume(idx < p.f + n);
    let mut w = Wr::<E, W>::verif_from_parts(p.rec, p.buffer, p.space);
    let res = w.copy_from(&mut src, n as u64);
    assert!(res.is_ok(), "copy_from over infallible streams must succeed");
    assert_eq!(src.rpos, r0 + n, "source advanced by exactly n");
    let (nb, ns) = w.verif_parts();
    let be = w.verif_backend();
    let k = (p.f + n) / W::NBITS;
    assert_eq!(be.n, p.n0 + k, "number of delivered words");
    assert!(ns >= 1 && ns <= W::NBITS, "representation invariant");
    assert_eq!(W::NBITS - ns, (p.f + n) % W::NBITS, "pending count");
    assert!(p.n0 < 1 || be.words[0] == pre0, "delivered word 0 altered");
    let _ = pre1;
    let expected = if idx < p.f { pending_bit::<E, W>(p.buffer, p.space, idx) } else { src.bit(r0 + idx - p.f) };
    assert_eq!(expected, post_bit::<E, W>(be, p.n0, k, nb, ns, idx), "copied bit differs from the source stream");
    crate::cover!(s, k >= 2 || (W::NBITS >= 64 && k >= 1), "two or more words delivered");
    crate::cover!(s, n > 0 && k == 0, "fits in the buffer");
    core::mem::forget(w);
}

crate::harnesses! {
    #[kani::unwind(13)]
    c08_copy_to_be_u8 (quick, "BE,u8,K=12 -> MS", "n<=2W+64, any Inv_r state") => copy_to_step::<BE, u8, _, 12, 80>;
    #[kani::unwind(8)]
    c08_copy_to_be_u16 (quick, "BE,u16,K=8 -> MS", "n<=2W+64, any Inv_r state") => copy_to_step::<BE, u16, _, 8, 96>;
    #[kani::unwind(6)]
    c08_copy_to_be_u32 (quick, "BE,u32,K=6 -> MS", "n<=2W+64, any Inv_r state") => copy_to_step::<BE, u32, _, 6, 128>;
    #[kani::unwind(6)]
    c08_copy_to_be_u64 (quick, "BE,u64,K=4 -> MS", "n<=2W+64, any Inv_r state") => copy_to_step::<BE, u64, _, 4, 192>;
    #[kani::unwind(13)]
    c08_copy_to_le_u8 (quick, "LE,u8,K=12 -> MS", "n<=2W+64, any Inv_r state") => copy_to_step::<LE, u8, _, 12, 80>;
    #[kani::unwind(8)]
    c08_copy_to_le_u16 (quick, "LE,u16,K=8 -> MS", "n<=2W+64, any Inv_r state") => copy_to_step::<LE, u16, _, 8, 96>;
    #[kani::unwind(6)]
    c08_copy_to_le_u32 (quick, "LE,u32,K=6 -> MS", "n<=2W+64, any Inv_r state") => copy_to_step::<LE, u32, _, 6, 128>;
    #[kani::unwind(6)]
    c08_copy_to_le_u64 (quick, "LE,u64,K=4 -> MS", "n<=2W+64, any Inv_r state") => copy_to_step::<LE, u64, _, 4, 192>;

    #[kani::unwind(6)]
    c08_copy_then_peek_be_u32 (quick, "BE,u32,K=6 -> MS", "n<=100, then peek_bits(m<=W) and read_bits(q<=64)") => copy_to_then_peek_step::<BE, u32, _, 6, 100>;
    #[kani::unwind(6)]
    c08_copy_then_peek_le_u32 (thorough, "LE,u32,K=6 -> MS", "n<=100, then peek_bits(m<=W) and read_bits(q<=64)") => copy_to_then_peek_step::<LE, u32, _, 6, 100>;
    #[kani::unwind(8)]
    c08_copy_then_peek_be_u16 (thorough, "BE,u16,K=8 -> MS", "n<=80, then peek_bits(m<=W) and read_bits(q<=64)") => copy_to_then_peek_step::<BE, u16, _, 8, 80>;
    #[kani::unwind(6)]
    c08_copy_then_peek_le_u64 (thorough, "LE,u64,K=4 -> MS", "n<=150, then peek_bits(m<=W) and read_bits(q<=64)") => copy_to_then_peek_step::<LE, u64, _, 4, 150>;

    #[kani::unwind(6)]
    c08_ub_copy_to_be (quick, "BE,unbuffered,K=4 -> MS", "n<=200, any bit position") => ub_copy_to_step::<BE, _, 4, 200>;
    #[kani::unwind(6)]
    c08_ub_copy_to_le (quick, "LE,unbuffered,K=4 -> MS", "n<=200, any bit position") => ub_copy_to_step::<LE, _, 4, 200>;

    #[kani::unwind(13)]
    c08_copy_from_be_u8 (quick, "MS -> BE,u8", "n<=2W+64, any writer state") => copy_from_step::<BE, u8, _, 80>;
    #[kani::unwind(8)]
    c08_copy_from_be_u16 (quick, "MS -> BE,u16", "n<=2W+64, any writer state") => copy_from_step::<BE, u16, _, 96>;
    #[kani::unwind(6)]
    c08_copy_from_be_u32 (quick, "MS -> BE,u32", "n<=2W+64, any writer state") => copy_from_step::<BE, u32, _, 128>;
    #[kani::unwind(6)]
    c08_copy_from_be_u64 (quick, "MS -> BE,u64", "n<=2W+64, any writer state") => copy_from_step::<BE, u64, _, 192>;
    #[kani::unwind(6)]
    c08_copy_from_be_u128 (quick, "MS -> BE,u128", "n<=80, any writer state") => copy_from_step::<BE, u128, _, 80>;
    #[kani::unwind(6)]
    c08_copy_from_be_u128_n130 (thorough, "MS -> BE,u128", "n<=130, any writer state") => copy_from_step::<BE, u128, _, 130>;
    #[kani::unwind(6)]
    c08_copy_from_be_u128_n200 (thorough, "MS -> BE,u128", "n<=200, any writer state") => copy_from_step::<BE, u128, _, 200>;
    #[kani::unwind(13)]
    c08_copy_from_le_u8 (quick, "MS -> LE,u8", "n<=2W+64, any writer state") => copy_from_step::<LE, u8, _, 80>;
    #[kani::unwind(8)]
    c08_copy_from_le_u16 (quick, "MS -> LE,u16", "n<=2W+64, any writer state") => copy_from_step::<LE, u16, _, 96>;
    #[kani::unwind(6)]
    c08_copy_from_le_u32 (quick, "MS -> LE,u32", "n<=2W+64, any writer state") => copy_from_step::<LE, u32, _, 128>;
    #[kani::unwind(6)]
    c08_copy_from_le_u64 (quick, "MS -> LE,u64", "n<=2W+64, any writer state") => copy_from_step::<LE, u64, _, 192>;
    #[kani::unwind(6)]
    c08_copy_from_le_u128 (quick, "MS -> LE,u128", "n<=80, any writer state") => copy_from_step::<LE, u128, _, 80>;
    #[kani::unwind(6)]
    c08_copy_from_le_u128_n130 (thorough, "MS -> LE,u128", "n<=130, any writer state") => copy_from_step::<LE, u128, _, 130>;
    #[kani::unwind(6)]
    c08_copy_from_le_u128_n200 (thorough, "MS -> LE,u128", "n<=200, any writer state") => copy_from_step::<LE, u128, _, 200>;
}
