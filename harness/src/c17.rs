//! C17 — signed/natural mapping is a bijection on every integer width.
//! Loop-free; symbolic over the WHOLE type (no bound besides the width).

use crate::src::Src;
use dsi_bitstream::codes::{ToInt, ToNat};

macro_rules! c17_body {
    ($fname:ident, $u:ty, $i:ty, $um:ident, $im:ident) => {
        pub fn $fname<S: Src>(s: &mut S) {
            let x: $u = s.$um();
            let y: $i = s.$im();
            // mutually inverse
            assert_eq!(x.to_int().to_nat(), x, "to_nat(to_int(x)) == x");
            assert_eq!(y.to_nat().to_int(), y, "to_int(to_nat(y)) == y");
            // the documented formula, stated without overflow:
            // y >= 0 -> 2y ; y < 0 -> -2y-1 = 2*(-(y+1)) + 1
            let n = y.to_nat();
            if y >= 0 {
                assert_eq!(n >> 1, y as $u, "nonnegative y maps to 2y");
                assert_eq!(n & 1, 0, "nonnegative y maps to an even number");
            } else {
                assert_eq!(n >> 1, (-(y + 1)) as $u, "negative y maps to -2y-1");
                assert_eq!(n & 1, 1, "negative y maps to an odd number");
            }
            // and the converse direction of the formula on to_int
            let z = x.to_int();
            if x & 1 == 0 {
                assert!(z >= 0 && z as $u == x >> 1, "even x maps to x/2");
            } else {
                assert!(z < 0 && (-(z + 1)) as $u == x >> 1, "odd x maps to -(x+1)/2");
            }
            crate::cover!(s, y < 0, "negative");
            crate::cover!(s, y == <$i>::MIN, "MIN");
            crate::cover!(s, x == <$u>::MAX, "MAX");
        }
    };
}

c17_body!(bij_8, u8, i8, u8, i8);
c17_body!(bij_16, u16, i16, u16, i16);
c17_body!(bij_32, u32, i32, u32, i32);
c17_body!(bij_64, u64, i64, u64, i64);
c17_body!(bij_128, u128, i128, u128, i128);
c17_body!(bij_size, usize, isize, usize, isize);

crate::harnesses! {
    c17_bij_8 (quick, "u8/i8", "whole type") => bij_8;
    c17_bij_16 (quick, "u16/i16", "whole type") => bij_16;
    c17_bij_32 (quick, "u32/i32", "whole type") => bij_32;
    c17_bij_64 (quick, "u64/i64", "whole type") => bij_64;
    c17_bij_128 (quick, "u128/i128", "whole type") => bij_128;
    c17_bij_size (quick, "usize/isize", "whole type (64-bit target)") => bij_size;
}
