//! Solver-based verification harnesses for dsi-bitstream (see /verif/DESIGN.md).
//!
//! Every harness body is an ordinary generic function over a value source
//! (`src::Src`). `cargo kani` runs it over `kani::any()` values (the solver
//! decides the assertions for all values inside the stated bounds); the
//! `replay` binary runs the same body natively on the bytes of a
//! counterexample.
#![allow(clippy::all)]
#![allow(unused_imports, dead_code)]

pub mod gen_display;
pub mod gen_scope;
pub mod model;
pub mod ms;
pub mod spec;
pub mod src;

pub mod c00;
pub mod c01;
pub mod c02;
pub mod c03;
pub mod c03e;
pub mod c05;
pub mod c06;
pub mod c07;
pub mod c08;
pub mod c09;
pub mod c10;
pub mod c10s;
pub mod c11;
pub mod c12;
pub mod c13;
pub mod c14;
pub mod c15;
pub mod c16;
pub mod c17;
pub mod c18;
pub mod c19;
pub mod c20;

/// Dispatch a native replay by harness name.
pub fn replay(name: &str, s: &mut src::ReplaySrc) -> bool {
    c00::replay(name, s) || c01::replay(name, s) || c02::replay(name, s) || c03::replay(name, s) || c03e::replay(name, s) || c05::replay(name, s) || c06::replay(name, s) || c07::replay(name, s) || c18::replay(name, s) || c19::replay(name, s) || c20::replay(name, s) || c08::replay(name, s) || c09::replay(name, s) || c10::replay(name, s) || c10s::replay(name, s) || c15::replay(name, s) || c16::replay(name, s) || c11::replay(name, s) || c12::replay(name, s) || c13::replay(name, s) || c14::replay(name, s) || c17::replay(name, s)
}

pub fn all_names() -> Vec<&'static str> {
    let mut v = Vec::new();
    v.extend_from_slice(c01::NAMES);
    v.extend_from_slice(c02::NAMES);
    v.extend_from_slice(c03::NAMES);
    v.extend_from_slice(c03e::NAMES);
    v.extend_from_slice(c05::NAMES);
    v.extend_from_slice(c06::NAMES);
    v.extend_from_slice(c07::NAMES);
    v.extend_from_slice(c18::NAMES);
    v.extend_from_slice(c19::NAMES);
    v.extend_from_slice(c20::NAMES);
    v.extend_from_slice(c08::NAMES);
    v.extend_from_slice(c09::NAMES);
    v.extend_from_slice(c10::NAMES);
    v.extend_from_slice(c10s::NAMES);
    v.extend_from_slice(c15::NAMES);
    v.extend_from_slice(c16::NAMES);
    v.extend_from_slice(c11::NAMES);
    v.extend_from_slice(c12::NAMES);
    v.extend_from_slice(c13::NAMES);
    v.extend_from_slice(c14::NAMES);
    v.extend_from_slice(c17::NAMES);
    v
}
