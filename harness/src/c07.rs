//! C07 — reported bit positions and seeks are exact. `bit_pos()` is asserted in
//! every C02/C05/C08/C12 step harness (`check_post`); here: one `set_bit_pos(p)`
//! from an arbitrary reader state lands in the abstract state "fresh reader that
//! consumed p bits": invariant holds, `bit_pos() == p`, and every upcoming bit is
//! the absolute stream bit `p + j`. By C02 every later operation then behaves
//! identically.

use crate::c02::*;
use crate::c13::*;
use crate::model::*;
use crate::src::Src;
use common_traits::DoubleType;
use core::convert::Infallible;
use dsi_bitstream::prelude::*;

pub fn set_bit_pos_step<E: En, W: VW + DoubleType, S: Src, const K: usize>(s: &mut S)
where
    Bb<W>: VW,
    Rd<E, W, K>: RdOk<E, W, K>,
{
    let st = RState::<W, K>::any::<E, S>(s, 2 * W::NBITS - 1);
    let p = s.usize_in(0, K * W::NBITS);
    let j = s.usize_in(0, 2 * W::NBITS + 64);
    let m = s.usize_in(0, 64);
    let mut r = st.reader::<E>();
    r.set_bit_pos(p as u64).unwrap();
    assert_eq!(r.bit_pos().unwrap(), p as u64, "bit_pos() after set_bit_pos(p)");
    // abstract state = (valid buffer bits) ++ backend from the cursor: compare with the absolute stream
    let (nb, nn) = r.verif_parts();
    assert!(nn <= 2 * W::NBITS - 1 && window_clean::<E, W>(nb, nn), "Inv_r after set_bit_pos");
    let npos = r.verif_backend().clone().word_pos().unwrap() as usize;
    assert_eq!(npos * W::NBITS - nn, p, "cursor and buffer fill denote position p");
    let abs = |a: usize| if a / W::NBITS < K { img_bit::<E, W>(&st.data, a) } else { false };
    let got = if j < nn {
        let q = if E::BE { 2 * W::NBITS - 1 - j } else { j };
        (nb.to_u128() >> q) & 1 == 1
    } else {
        abs(npos * W::NBITS + (j - nn))
    };
    assert_eq!(got, abs(p + j), "upcoming bit after the seek differs from the absolute stream bit p+j");
    // and one concrete continuation through the API
    let v = r.read_bits(m).unwrap();
    let jj = s.usize();
    s.assume(m == 0 || jj < m);
    if m > 0 {
        assert_eq!(field_bit::<E>(v, m, jj), abs(p + jj), "read after seek differs from the stream");
    }
    assert_eq!(r.bit_pos().unwrap(), (p + m) as u64, "bit_pos() after seek and read");
    crate::cover!(s, p % W::NBITS != 0, "unaligned target");
    crate::cover!(s, p % W::NBITS == 0 && p > 0, "aligned target");
    crate::cover!(s, p == K * W::NBITS, "seek to the end of the data");
}

/// strict backend: seek inside the data and read up to the end
pub type RdS<'a, E, W> = BufBitReader<E, MemWordReader<W, &'a [W], false>>;

pub fn set_bit_pos_strict_step<E: En, W: VW + DoubleType, S: Src>(s: &mut S)
where
    Bb<W>: VW,
    for<'a> RdS<'a, E, W>: BitRead<E, Error = std::io::Error> + BitSeek<Error = std::io::Error>,
{
    let data = any_array::<W, S, 4>(s);
    let len = s.usize_in(0, 4);
    let p = s.usize_in(0, len * W::NBITS);
    let m = s.usize_in(0, 64);
    let jj = s.usize();
    s.assume(m == 0 || jj < m);
    let mut r: RdS<'_, E, W> = BufBitReader::<E, _>::new(MemWordReader::new_strict(&data[..len]));
    let ok = match r.set_bit_pos(p as u64) {
        Ok(()) => true,
        Err(e) => {
            core::mem::forget(e);
            false
        }
    };
    assert!(ok, "seek to a position inside the data (or its end) must succeed");
    let bp = match r.bit_pos() {
        Ok(x) => x,
        Err(e) => {
            core::mem::forget(e);
            u64::MAX
        }
    };
    assert_eq!(bp, p as u64, "bit_pos() after set_bit_pos(p)");
    let res = r.read_bits(m);
    match res {
        Ok(v) => {
            assert!(p + m <= len * W::NBITS || m == 0, "value fabricated beyond the end of a strict stream");
            if m > 0 {
                assert_eq!(field_bit::<E>(v, m, jj), img_bit::<E, W>(&data, p + jj), "read after seek differs from the stream");
            }
        }
        Err(e) => {
            core::mem::forget(e);
            assert!(p + m > len * W::NBITS, "read inside the data failed after a seek");
        }
    }
    crate::cover!(s, p % W::NBITS != 0 && p + m == len * W::NBITS && m > 0, "read ending exactly at the end of data");
    crate::cover!(s, p + m > len * W::NBITS, "read beyond the end");
    core::mem::forget(r);
}

crate::harnesses! {
    #[kani::unwind(10)]
    c07_seek_be_u8 (quick, "BE,u8,K=10 zero-extended", "any Inv_r state, any target 0..=K*W, then read_bits(<=64)") => set_bit_pos_step::<BE, u8, _, 10>;
    #[kani::unwind(6)]
    c07_seek_be_u16 (quick, "BE,u16,K=6 zero-extended", "any Inv_r state, any target 0..=K*W, then read_bits(<=64)") => set_bit_pos_step::<BE, u16, _, 6>;
    #[kani::unwind(4)]
    c07_seek_be_u32 (quick, "BE,u32,K=4 zero-extended", "any Inv_r state, any target 0..=K*W, then read_bits(<=64)") => set_bit_pos_step::<BE, u32, _, 4>;
    #[kani::unwind(4)]
    c07_seek_be_u64 (quick, "BE,u64,K=3 zero-extended", "any Inv_r state, any target 0..=K*W, then read_bits(<=64)") => set_bit_pos_step::<BE, u64, _, 3>;
    #[kani::unwind(10)]
    c07_seek_le_u8 (quick, "LE,u8,K=10 zero-extended", "any Inv_r state, any target 0..=K*W, then read_bits(<=64)") => set_bit_pos_step::<LE, u8, _, 10>;
    #[kani::unwind(6)]
    c07_seek_le_u16 (quick, "LE,u16,K=6 zero-extended", "any Inv_r state, any target 0..=K*W, then read_bits(<=64)") => set_bit_pos_step::<LE, u16, _, 6>;
    #[kani::unwind(4)]
    c07_seek_le_u32 (quick, "LE,u32,K=4 zero-extended", "any Inv_r state, any target 0..=K*W, then read_bits(<=64)") => set_bit_pos_step::<LE, u32, _, 4>;
    #[kani::unwind(4)]
    c07_seek_le_u64 (quick, "LE,u64,K=3 zero-extended", "any Inv_r state, any target 0..=K*W, then read_bits(<=64)") => set_bit_pos_step::<LE, u64, _, 3>;

    #[kani::stub(alloc::fmt::format, stub_format)]
    #[kani::stub(std::string::ToString::to_string, stub_to_string)]
    #[kani::unwind(10)]
    c07_seek_strict_be_u8 (thorough, "BE,u8 strict MemWordReader", "data<=4 words, any target inside, then read_bits(<=64)") => set_bit_pos_strict_step::<BE, u8, _>;
    #[kani::stub(alloc::fmt::format, stub_format)]
    #[kani::stub(std::string::ToString::to_string, stub_to_string)]
    #[kani::unwind(4)]
    c07_seek_strict_be_u32 (quick, "BE,u32 strict MemWordReader", "data<=4 words, any target inside, then read_bits(<=64)") => set_bit_pos_strict_step::<BE, u32, _>;
    #[kani::stub(alloc::fmt::format, stub_format)]
    #[kani::stub(std::string::ToString::to_string, stub_to_string)]
    #[kani::unwind(4)]
    c07_seek_strict_le_u64 (quick, "LE,u64 strict MemWordReader", "data<=4 words, any target inside, then read_bits(<=64)") => set_bit_pos_strict_step::<LE, u64, _>;
    #[kani::stub(alloc::fmt::format, stub_format)]
    #[kani::stub(std::string::ToString::to_string, stub_to_string)]
    #[kani::unwind(6)]
    c07_seek_strict_le_u16 (thorough, "LE,u16 strict MemWordReader", "data<=4 words, any target inside, then read_bits(<=64)") => set_bit_pos_strict_step::<LE, u16, _>;
}
