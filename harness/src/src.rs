//! Value sources. Every harness body is generic over `S: Src`; under Kani the
//! values are `kani::any()` (symbolic, decided by the solver), in a native
//! replay they are the bytes of a solver counterexample handed out in call
//! order (same mechanism as Kani's own concrete playback, but usable in the
//! release profile too).

pub trait Src {
    fn u8(&mut self) -> u8;
    fn u16(&mut self) -> u16;
    fn u32(&mut self) -> u32;
    fn u64(&mut self) -> u64;
    fn u128(&mut self) -> u128;
    fn usize(&mut self) -> usize;
    fn bool(&mut self) -> bool;
    /// Constrain the values drawn so far. MUST be called before the code it constrains.
    fn assume(&mut self, c: bool);
    /// Reachability witness (vacuity guard): the driver requires every cover to be SATISFIED.
    fn cover(&mut self, c: bool, msg: &'static str);

    fn i8(&mut self) -> i8 {
        self.u8() as i8
    }
    fn i16(&mut self) -> i16 {
        self.u16() as i16
    }
    fn i32(&mut self) -> i32 {
        self.u32() as i32
    }
    fn i64(&mut self) -> i64 {
        self.u64() as i64
    }
    fn i128(&mut self) -> i128 {
        self.u128() as i128
    }
    fn isize(&mut self) -> isize {
        self.usize() as isize
    }
    /// symbolic usize in lo..=hi
    fn usize_in(&mut self, lo: usize, hi: usize) -> usize {
        let v = self.usize();
        self.assume(v >= lo && v <= hi);
        v
    }
    fn u64_in(&mut self, lo: u64, hi: u64) -> u64 {
        let v = self.u64();
        self.assume(v >= lo && v <= hi);
        v
    }
}

#[cfg(kani)]
pub struct KaniSrc;

#[cfg(kani)]
impl Src for KaniSrc {
    #[inline(always)]
    fn u8(&mut self) -> u8 {
        kani::any()
    }
    #[inline(always)]
    fn u16(&mut self) -> u16 {
        kani::any()
    }
    #[inline(always)]
    fn u32(&mut self) -> u32 {
        kani::any()
    }
    #[inline(always)]
    fn u64(&mut self) -> u64 {
        kani::any()
    }
    #[inline(always)]
    fn u128(&mut self) -> u128 {
        kani::any()
    }
    #[inline(always)]
    fn usize(&mut self) -> usize {
        kani::any()
    }
    #[inline(always)]
    fn bool(&mut self) -> bool {
        kani::any()
    }
    #[inline(always)]
    fn assume(&mut self, c: bool) {
        kani::assume(c)
    }
    #[inline(always)]
    fn cover(&mut self, _c: bool, _msg: &'static str) {
        // under Kani the `cover!` macro of this crate expands to kani::cover! directly
    }
}

/// Marker strings the replay binary looks for in panic payloads.
pub const REPLAY_ASSUME: &str = "REPLAY-ASSUME-VIOLATED";
pub const REPLAY_DESYNC: &str = "REPLAY-DESYNC";

pub struct ReplaySrc {
    vals: Vec<Vec<u8>>,
    next: usize,
    pub covers_hit: Vec<&'static str>,
}

impl ReplaySrc {
    pub fn new(vals: Vec<Vec<u8>>) -> Self {
        Self {
            vals,
            next: 0,
            covers_hit: Vec::new(),
        }
    }
    pub fn consumed(&self) -> usize {
        self.next
    }
    pub fn total(&self) -> usize {
        self.vals.len()
    }
    fn take<const N: usize>(&mut self) -> [u8; N] {
        if self.next >= self.vals.len() {
            // Kani omits trailing values that do not matter; use zeros.
            self.next += 1;
            return [0u8; N];
        }
        let v = &self.vals[self.next];
        self.next += 1;
        if v.len() != N {
            panic!("{}: value #{} has {} bytes, harness asked for {}", REPLAY_DESYNC, self.next - 1, v.len(), N);
        }
        let mut a = [0u8; N];
        a.copy_from_slice(v);
        a
    }
}

impl Src for ReplaySrc {
    fn u8(&mut self) -> u8 {
        u8::from_le_bytes(self.take())
    }
    fn u16(&mut self) -> u16 {
        u16::from_le_bytes(self.take())
    }
    fn u32(&mut self) -> u32 {
        u32::from_le_bytes(self.take())
    }
    fn u64(&mut self) -> u64 {
        u64::from_le_bytes(self.take())
    }
    fn u128(&mut self) -> u128 {
        u128::from_le_bytes(self.take())
    }
    fn usize(&mut self) -> usize {
        usize::from_le_bytes(self.take())
    }
    fn bool(&mut self) -> bool {
        self.u8() == 1
    }
    fn assume(&mut self, c: bool) {
        if !c {
            panic!("{}", REPLAY_ASSUME);
        }
    }
    fn cover(&mut self, c: bool, msg: &'static str) {
        if c {
            self.covers_hit.push(msg);
        }
    }
}

/// Reachability witness: `cover!(s, cond, "literal")`.
#[macro_export]
macro_rules! cover {
    ($s:expr, $c:expr, $m:literal) => {{
        #[cfg(kani)]
        {
            let _ = &$s;
            kani::cover!($c, $m);
        }
        #[cfg(not(kani))]
        {
            $crate::src::Src::cover($s, $c, $m);
        }
    }};
}

/// Declares the harnesses of a module: for each `name => body` a
/// `#[kani::proof]` wrapper (symbolic run) and an arm of the module's
/// `replay(name, src)` function (native run on counterexample values).
#[macro_export]
macro_rules! harnesses {
    ($( $(#[$m:meta])* $name:ident ($tier:ident, $inst:literal, $bounds:literal) => $body:expr; )*) => {
        $(
            #[cfg(kani)]
            #[kani::proof]
            $(#[$m])*
            pub fn $name() {
                let mut s = $crate::src::KaniSrc;
                ($body)(&mut s);
            }
        )*
        pub fn replay(name: &str, s: &mut $crate::src::ReplaySrc) -> bool {
            match name {
                $( stringify!($name) => { ($body)(s); true } )*
                _ => false,
            }
        }
        pub const NAMES: &[&str] = &[ $( stringify!($name) ),* ];
    };
}
