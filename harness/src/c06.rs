//! C06 — length-dispatch objects equal the code's own length function (the equality of the length
//! functions with the bits written / consumed is in the c03_w_* / c03_r_* harnesses; ConstCode<ID> lengths
//! are compared in c10_const_*).
use crate::c10::*;
use crate::c13::*;
use crate::src::Src;
use dsi_bitstream::prelude::*;

pub fn len_objects<S: Src, const FAM: u8>(s: &mut S) {
    let k = s.usize_in(if FAM == ZETA || FAM == GOLOMB { 1 } else { 0 }, 10);
    let v = s.u64();
    s.assume(dom(FAM, k, v));
    let code = codes_from(FAM, k);
    assert_eq!(CodeLen::len(&code, v), direct_len(FAM, k, v), "Codes::len differs from the code's own length function");
    let fl = match FuncCodeLen::new(code) {
        Ok(f) => Some(f),
        Err(e) => {
            core::mem::forget(e);
            None
        }
    };
    assert!(fl.is_some(), "supported code rejected by FuncCodeLen");
    assert_eq!(fl.unwrap().len(v), direct_len(FAM, k, v), "FuncCodeLen differs from the code's own length function");
    crate::cover!(s, k == 10 || FAM < ZETA, "largest parameter");
}

crate::harnesses! {
    #[kani::stub(alloc::fmt::format, stub_format)]
    #[kani::stub(std::string::ToString::to_string, stub_to_string)]
    #[kani::stub(std::backtrace::Backtrace::capture, stub_backtrace_capture)]
    #[kani::stub(<anyhow::Error as core::ops::Drop>::drop, stub_anyhow_drop)]
    #[kani::unwind(13)]
    c06_lenobj_simple0 (quick, "Codes::len / FuncCodeLen for Unary", "symbolic value") => len_objects::<_, {UNARY}>;
    #[kani::stub(alloc::fmt::format, stub_format)]
    #[kani::stub(std::string::ToString::to_string, stub_to_string)]
    #[kani::stub(std::backtrace::Backtrace::capture, stub_backtrace_capture)]
    #[kani::stub(<anyhow::Error as core::ops::Drop>::drop, stub_anyhow_drop)]
    #[kani::unwind(13)]
    c06_lenobj_simple1 (quick, "Codes::len / FuncCodeLen for Gamma", "symbolic value") => len_objects::<_, {GAMMA}>;
    #[kani::stub(alloc::fmt::format, stub_format)]
    #[kani::stub(std::string::ToString::to_string, stub_to_string)]
    #[kani::stub(std::backtrace::Backtrace::capture, stub_backtrace_capture)]
    #[kani::stub(<anyhow::Error as core::ops::Drop>::drop, stub_anyhow_drop)]
    #[kani::unwind(13)]
    c06_lenobj_simple2 (quick, "Codes::len / FuncCodeLen for Delta", "symbolic value") => len_objects::<_, {DELTA}>;
    #[kani::stub(alloc::fmt::format, stub_format)]
    #[kani::stub(std::string::ToString::to_string, stub_to_string)]
    #[kani::stub(std::backtrace::Backtrace::capture, stub_backtrace_capture)]
    #[kani::stub(<anyhow::Error as core::ops::Drop>::drop, stub_anyhow_drop)]
    #[kani::unwind(13)]
    c06_lenobj_simple3 (quick, "Codes::len / FuncCodeLen for Omega", "symbolic value") => len_objects::<_, {OMEGA}>;
    #[kani::stub(alloc::fmt::format, stub_format)]
    #[kani::stub(std::string::ToString::to_string, stub_to_string)]
    #[kani::stub(std::backtrace::Backtrace::capture, stub_backtrace_capture)]
    #[kani::stub(<anyhow::Error as core::ops::Drop>::drop, stub_anyhow_drop)]
    #[kani::unwind(13)]
    c06_lenobj_simple4 (quick, "Codes::len / FuncCodeLen for VByteBe", "symbolic value") => len_objects::<_, {VBYTE_BE}>;
    #[kani::stub(alloc::fmt::format, stub_format)]
    #[kani::stub(std::string::ToString::to_string, stub_to_string)]
    #[kani::stub(std::backtrace::Backtrace::capture, stub_backtrace_capture)]
    #[kani::stub(<anyhow::Error as core::ops::Drop>::drop, stub_anyhow_drop)]
    #[kani::unwind(13)]
    c06_lenobj_zeta (quick, "Codes::len / FuncCodeLen for Zeta{k}", "k in 1..=10 symbolic, symbolic value") => len_objects::<_, {ZETA}>;
    #[kani::stub(alloc::fmt::format, stub_format)]
    #[kani::stub(std::string::ToString::to_string, stub_to_string)]
    #[kani::stub(std::backtrace::Backtrace::capture, stub_backtrace_capture)]
    #[kani::stub(<anyhow::Error as core::ops::Drop>::drop, stub_anyhow_drop)]
    #[kani::unwind(13)]
    c06_lenobj_pi (quick, "Codes::len / FuncCodeLen for Pi{k}", "k in 0..=10 symbolic, symbolic value") => len_objects::<_, {PI}>;
    #[kani::stub(alloc::fmt::format, stub_format)]
    #[kani::stub(std::string::ToString::to_string, stub_to_string)]
    #[kani::stub(std::backtrace::Backtrace::capture, stub_backtrace_capture)]
    #[kani::stub(<anyhow::Error as core::ops::Drop>::drop, stub_anyhow_drop)]
    #[kani::unwind(13)]
    c06_lenobj_golomb (quick, "Codes::len / FuncCodeLen for Golomb{b}", "b in 1..=10 symbolic, symbolic value") => len_objects::<_, {GOLOMB}>;
    #[kani::stub(alloc::fmt::format, stub_format)]
    #[kani::stub(std::string::ToString::to_string, stub_to_string)]
    #[kani::stub(std::backtrace::Backtrace::capture, stub_backtrace_capture)]
    #[kani::stub(<anyhow::Error as core::ops::Drop>::drop, stub_anyhow_drop)]
    #[kani::unwind(13)]
    c06_lenobj_expgolomb (quick, "Codes::len / FuncCodeLen for ExpGolomb{k}", "k in 0..=10 symbolic, symbolic value") => len_objects::<_, {EXP_GOLOMB}>;
    #[kani::stub(alloc::fmt::format, stub_format)]
    #[kani::stub(std::string::ToString::to_string, stub_to_string)]
    #[kani::stub(std::backtrace::Backtrace::capture, stub_backtrace_capture)]
    #[kani::stub(<anyhow::Error as core::ops::Drop>::drop, stub_anyhow_drop)]
    #[kani::unwind(13)]
    c06_lenobj_rice (quick, "Codes::len / FuncCodeLen for Rice{log2_b}", "log2_b in 0..=10 symbolic, symbolic value") => len_objects::<_, {RICE}>;
}
