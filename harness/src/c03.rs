//! C03 / C04 / C06 — codec layer on the model stream (DESIGN §3 C03 layer A,
//! C04, C06). The REAL generic code of `src/codes/*.rs` runs on `MS<E,T>`:
//! symbolic prefix of `off <= 64` arbitrary bits, symbolic value and
//! parameters, arbitrary 64-bit sentinel after the codeword.
//!
//!  * C04: the bits appended equal the published definition (`spec.rs`),
//!    checked per bit through a nondeterministic index;
//!  * C06: write's return value == bits appended == bits consumed by the read
//!    == every length function of the library (table and non-table);
//!  * C03: read returns the value, the reader sits exactly at the end of the
//!    codeword, prefix and sentinel read back intact.

use crate::model::*;
use crate::ms::*;
use crate::spec;
use crate::src::Src;
use dsi_bitstream::prelude::*;

pub trait Code<E: En, const T: bool> {
    type P: Copy;
    /// draw value and parameters, assuming exactly the documented domain (and the stated bounds)
    fn params<S: Src>(s: &mut S) -> (u64, Self::P);
    fn write(ms: &mut MS<E, T>, v: u64, p: Self::P) -> usize;
    fn read(ms: &mut MS<E, T>, p: Self::P) -> u64;
    /// every length function the library offers for this code equals `l`
    fn lib_len_ok(v: u64, p: Self::P, l: usize) -> bool;
    fn spec_defined(_v: u64, _p: Self::P) -> bool {
        true
    }
    fn spec_len(v: u64, p: Self::P) -> usize;
    fn spec_bit(v: u64, p: Self::P, i: usize) -> bool;
    /// a case worth witnessing (vacuity guard)
    fn interesting(v: u64, p: Self::P) -> bool;
}

/// Maximum codeword length explored (bits): prefix(64) + 128 + sentinel(64) = capacity of MS.
pub const MAXLEN: usize = 128;

/// MODE 0 (`W`): write at a symbolic offset, check bits against the definition and all lengths.
/// MODE 1 (`R`): write at offset 0 and read back: value, exact consumption, sentinel intact.
/// MODE 2 (thorough): both, in place at the symbolic offset.
/// W + R + position independence of the model stream (c03_ms_rebase_*) give the round trip at
/// any offset: the codec only sees the stream through the trait methods, and those return the
/// same results at (bits, off) and at (bits re-based by off, 0).
pub fn codec_step<E: En, const T: bool, C: Code<E, T>, S: Src, const MODE: u8, const OM: usize>(s: &mut S) {
    let (v, p) = C::params(s);
    let off = if MODE == 1 { 0 } else { s.usize_in(0, OM) };
    let prefix = if MODE == 1 { 0 } else { s.u64() };
    let sentinel = s.u64();
    let i = s.usize();
    let spec_ok = C::spec_defined(v, p);
    let sl = if spec_ok { C::spec_len(v, p) } else { 0 };
    if spec_ok {
        s.assume(sl <= MAXLEN);
        s.assume(i < sl);
    }
    let mut ms = MS::<E, T>::new();
    ms.require_clean = cfg!(feature = "checks");
    ms.write_bits(prefix & mask64(off), off).unwrap();
    let r = C::write(&mut ms, v, p);
    let l = if spec_ok { sl } else { r };
    assert!(l <= MAXLEN, "codeword longer than the explored bound");
    assert_eq!(r, l, "write must return the codeword length of the definition");
    assert_eq!(ms.wlen, off + l, "bits appended must equal the returned length");
    if MODE != 1 {
        if spec_ok {
            assert_eq!(ms.bit(off + i), C::spec_bit(v, p, i), "codeword bit differs from the published definition");
        }
        assert!(C::lib_len_ok(v, p, l), "length function differs from the bits written");
    }
    crate::cover!(s, C::interesting(v, p), "interesting case reachable");
    crate::cover!(s, MODE == 1 || (off > 0 && off % 8 != 0), "unaligned start");
    crate::cover!(s, !spec_ok || i + 1 == sl, "last bit of the codeword checked");
    if MODE == 0 {
        return;
    }
    ms.write_bits(sentinel, 64).unwrap();
    assert_eq!(ms.read_bits(off).unwrap(), prefix & mask64(off), "prefix intact");
    let back = C::read(&mut ms, p);
    assert_eq!(back, v, "round trip: read must return the value written");
    assert_eq!(ms.rpos, off + l, "read must consume exactly the codeword");
    assert_eq!(ms.read_bits(64).unwrap(), sentinel, "bits following the codeword intact");
}

// ------------------------------------------------------------------ code descriptors

pub struct Gamma;
pub struct Delta;
pub struct Omega;
/// zeta with k in KMIN..=KMAX
pub struct Zeta<const KMIN: usize = 1, const KMAX: usize = 63>;
pub struct Zeta3;
pub struct Pi;
pub struct Rice;
pub struct ExpGolomb;
/// Golomb with modulus 1..=BMAX and value < VMAX
pub struct Golomb<const BMAX: u64, const VMAX: u64>;
pub struct MinBin;
/// Golomb with an arbitrary 64-bit modulus and a value below it (quotient 0): the division-free part of
/// the definition, so the full modulus range can be explored
pub struct GolombBig;
pub struct VByteBe;
pub struct VByteLe;

const VMAX: u64 = u64::MAX - 1;

macro_rules! impl_codes {
    ($e:ty) => {
        impl<const T: bool> Code<$e, T> for Gamma {
            type P = ();
            fn params<S: Src>(s: &mut S) -> (u64, ()) {
                (s.u64_in(0, VMAX), ())
            }
            fn write(ms: &mut MS<$e, T>, v: u64, _: ()) -> usize {
                ms.write_gamma_param::<T>(v).unwrap()
            }
            fn read(ms: &mut MS<$e, T>, _: ()) -> u64 {
                ms.read_gamma_param::<T>().unwrap()
            }
            fn lib_len_ok(v: u64, _: (), l: usize) -> bool {
                len_gamma_param::<true>(v) == l && len_gamma_param::<false>(v) == l && len_gamma(v) == l
            }
            fn spec_len(v: u64, _: ()) -> usize {
                spec::gamma_len(v)
            }
            fn spec_bit(v: u64, _: (), i: usize) -> bool {
                spec::gamma_bit::<$e>(v, i)
            }
            fn interesting(v: u64, _: ()) -> bool {
                v == VMAX
            }
        }
        impl<const T: bool> Code<$e, T> for Delta {
            type P = ();
            fn params<S: Src>(s: &mut S) -> (u64, ()) {
                (s.u64_in(0, VMAX), ())
            }
            fn write(ms: &mut MS<$e, T>, v: u64, _: ()) -> usize {
                ms.write_delta_param::<T, T>(v).unwrap()
            }
            fn read(ms: &mut MS<$e, T>, _: ()) -> u64 {
                ms.read_delta_param::<T, T>().unwrap()
            }
            fn lib_len_ok(v: u64, _: (), l: usize) -> bool {
                len_delta_param::<true, true>(v) == l
                    && len_delta_param::<false, false>(v) == l
                    && len_delta_param::<true, false>(v) == l
                    && len_delta_param::<false, true>(v) == l
                    && len_delta(v) == l
            }
            fn spec_len(v: u64, _: ()) -> usize {
                spec::delta_len(v)
            }
            fn spec_bit(v: u64, _: (), i: usize) -> bool {
                spec::delta_bit::<$e>(v, i)
            }
            fn interesting(v: u64, _: ()) -> bool {
                v == VMAX
            }
        }
        impl<const T: bool> Code<$e, T> for Omega {
            type P = ();
            fn params<S: Src>(s: &mut S) -> (u64, ()) {
                (s.u64_in(0, VMAX), ())
            }
            fn write(ms: &mut MS<$e, T>, v: u64, _: ()) -> usize {
                ms.write_omega(v).unwrap()
            }
            fn read(ms: &mut MS<$e, T>, _: ()) -> u64 {
                ms.read_omega().unwrap()
            }
            fn lib_len_ok(v: u64, _: (), l: usize) -> bool {
                len_omega(v) == l
            }
            fn spec_len(v: u64, _: ()) -> usize {
                spec::omega_len(v)
            }
            fn spec_bit(v: u64, _: (), i: usize) -> bool {
                spec::omega_bit::<$e>(v, i)
            }
            fn interesting(v: u64, _: ()) -> bool {
                v == VMAX
            }
        }
        impl<const T: bool, const KMIN: usize, const KMAX: usize> Code<$e, T> for Zeta<KMIN, KMAX> {
            type P = usize;
            fn params<S: Src>(s: &mut S) -> (u64, usize) {
                let k = s.usize_in(KMIN, KMAX);
                (s.u64_in(0, VMAX), k)
            }
            fn write(ms: &mut MS<$e, T>, v: u64, k: usize) -> usize {
                ms.write_zeta_param::<T>(v, k).unwrap()
            }
            fn read(ms: &mut MS<$e, T>, k: usize) -> u64 {
                ms.read_zeta_param(k).unwrap()
            }
            fn lib_len_ok(v: u64, k: usize, l: usize) -> bool {
                len_zeta_param::<true>(v, k) == l && len_zeta_param::<false>(v, k) == l && len_zeta(v, k) == l
            }
            fn spec_defined(v: u64, k: usize) -> bool {
                // published definition claimed where the interval bound 2^((h+1)k) fits in 64 bits;
                // the (h+1)k == 64 wrap case is checked as well
                (spec::zeta_h(v, k) + 1) * k <= 64
            }
            fn spec_len(v: u64, k: usize) -> usize {
                spec::zeta_len(v, k)
            }
            fn spec_bit(v: u64, k: usize, i: usize) -> bool {
                spec::zeta_bit::<$e>(v, k, i)
            }
            fn interesting(v: u64, k: usize) -> bool {
                (spec::zeta_h(v, k) + 1) * k >= 63
            }
        }
        impl<const T: bool> Code<$e, T> for Zeta3 {
            type P = ();
            fn params<S: Src>(s: &mut S) -> (u64, ()) {
                (s.u64_in(0, VMAX), ())
            }
            fn write(ms: &mut MS<$e, T>, v: u64, _: ()) -> usize {
                ms.write_zeta3_param::<T>(v).unwrap()
            }
            fn read(ms: &mut MS<$e, T>, _: ()) -> u64 {
                ms.read_zeta3_param::<T>().unwrap()
            }
            fn lib_len_ok(v: u64, _: (), l: usize) -> bool {
                len_zeta_param::<true>(v, 3) == l && len_zeta_param::<false>(v, 3) == l && len_zeta(v, 3) == l
            }
            fn spec_defined(v: u64, _: ()) -> bool {
                (spec::zeta_h(v, 3) + 1) * 3 <= 64
            }
            fn spec_len(v: u64, _: ()) -> usize {
                spec::zeta_len(v, 3)
            }
            fn spec_bit(v: u64, _: (), i: usize) -> bool {
                spec::zeta_bit::<$e>(v, 3, i)
            }
            fn interesting(v: u64, _: ()) -> bool {
                v == VMAX
            }
        }
        impl<const T: bool> Code<$e, T> for Pi {
            type P = usize;
            fn params<S: Src>(s: &mut S) -> (u64, usize) {
                let k = s.usize_in(0, 63);
                (s.u64_in(0, VMAX), k)
            }
            fn write(ms: &mut MS<$e, T>, v: u64, k: usize) -> usize {
                ms.write_pi(v, k).unwrap()
            }
            fn read(ms: &mut MS<$e, T>, k: usize) -> u64 {
                ms.read_pi(k).unwrap()
            }
            fn lib_len_ok(v: u64, k: usize, l: usize) -> bool {
                len_pi(v, k) == l
            }
            fn spec_len(v: u64, k: usize) -> usize {
                spec::pi_len(v, k)
            }
            fn spec_bit(v: u64, k: usize, i: usize) -> bool {
                spec::pi_bit::<$e>(v, k, i)
            }
            fn interesting(v: u64, k: usize) -> bool {
                v == VMAX && k == 0
            }
        }
        impl<const T: bool> Code<$e, T> for Rice {
            type P = usize;
            fn params<S: Src>(s: &mut S) -> (u64, usize) {
                let k = s.usize_in(0, 63);
                let v = s.u64();
                // unary part bounded (codeword <= 128 bits); astronomically long codewords are outside
                s.assume(v >> k <= 127);
                (v, k)
            }
            fn write(ms: &mut MS<$e, T>, v: u64, k: usize) -> usize {
                ms.write_rice(v, k).unwrap()
            }
            fn read(ms: &mut MS<$e, T>, k: usize) -> u64 {
                ms.read_rice(k).unwrap()
            }
            fn lib_len_ok(v: u64, k: usize, l: usize) -> bool {
                len_rice(v, k) == l
            }
            fn spec_len(v: u64, k: usize) -> usize {
                spec::rice_len(v, k)
            }
            fn spec_bit(v: u64, k: usize, i: usize) -> bool {
                spec::rice_bit::<$e>(v, k, i)
            }
            fn interesting(v: u64, k: usize) -> bool {
                k == 63 && v == u64::MAX
            }
        }
        impl<const T: bool> Code<$e, T> for ExpGolomb {
            type P = usize;
            fn params<S: Src>(s: &mut S) -> (u64, usize) {
                let k = s.usize_in(0, 63);
                (s.u64_in(0, VMAX), k)
            }
            fn write(ms: &mut MS<$e, T>, v: u64, k: usize) -> usize {
                ms.write_exp_golomb(v, k).unwrap()
            }
            fn read(ms: &mut MS<$e, T>, k: usize) -> u64 {
                ms.read_exp_golomb(k).unwrap()
            }
            fn lib_len_ok(v: u64, k: usize, l: usize) -> bool {
                len_exp_golomb(v, k) == l
            }
            fn spec_len(v: u64, k: usize) -> usize {
                spec::exp_golomb_len(v, k)
            }
            fn spec_bit(v: u64, k: usize, i: usize) -> bool {
                spec::exp_golomb_bit::<$e>(v, k, i)
            }
            fn interesting(v: u64, k: usize) -> bool {
                v == VMAX && k == 0
            }
        }
        impl<const T: bool, const BMAX: u64, const VM: u64> Code<$e, T> for Golomb<BMAX, VM> {
            type P = u64;
            fn params<S: Src>(s: &mut S) -> (u64, u64) {
                let b = s.u64_in(1, BMAX);
                let v = s.u64_in(0, VM);
                // quotient bounded (codeword <= 128 bits), stated without a division
                s.assume(v < 120 * b);
                (v, b)
            }
            fn write(ms: &mut MS<$e, T>, v: u64, b: u64) -> usize {
                ms.write_golomb(v, b).unwrap()
            }
            fn read(ms: &mut MS<$e, T>, b: u64) -> u64 {
                ms.read_golomb(b).unwrap()
            }
            fn lib_len_ok(v: u64, b: u64, l: usize) -> bool {
                len_golomb(v, b) == l
            }
            fn spec_len(v: u64, b: u64) -> usize {
                spec::golomb_len(v, b)
            }
            fn spec_bit(v: u64, b: u64, i: usize) -> bool {
                spec::golomb_bit::<$e>(v, b, i)
            }
            fn interesting(v: u64, b: u64) -> bool {
                b == BMAX && v / b > 3
            }
        }
        impl<const T: bool> Code<$e, T> for GolombBig {
            type P = u64;
            fn params<S: Src>(s: &mut S) -> (u64, u64) {
                let b = s.u64_in(1, u64::MAX);
                let v = s.u64();
                s.assume(v < b);
                (v, b)
            }
            fn write(ms: &mut MS<$e, T>, v: u64, b: u64) -> usize {
                ms.write_golomb(v, b).unwrap()
            }
            fn read(ms: &mut MS<$e, T>, b: u64) -> u64 {
                ms.read_golomb(b).unwrap()
            }
            fn lib_len_ok(v: u64, b: u64, l: usize) -> bool {
                len_golomb(v, b) == l
            }
            fn spec_len(v: u64, b: u64) -> usize {
                // quotient 0, remainder v
                1 + spec::mb_len(v, b as u128)
            }
            fn spec_bit(v: u64, b: u64, i: usize) -> bool {
                if i == 0 {
                    true
                } else {
                    spec::mb_bit::<$e>(v, b as u128, i - 1)
                }
            }
            fn interesting(v: u64, b: u64) -> bool {
                b > (1u64 << 40) && v > 3
            }
        }
        impl<const T: bool> Code<$e, T> for MinBin {
            type P = u64;
            fn params<S: Src>(s: &mut S) -> (u64, u64) {
                let u = s.u64_in(1, u64::MAX);
                let v = s.u64();
                s.assume(v < u);
                (v, u)
            }
            fn write(ms: &mut MS<$e, T>, v: u64, u: u64) -> usize {
                ms.write_minimal_binary(v, u).unwrap()
            }
            fn read(ms: &mut MS<$e, T>, u: u64) -> u64 {
                ms.read_minimal_binary(u).unwrap()
            }
            fn lib_len_ok(v: u64, u: u64, l: usize) -> bool {
                len_minimal_binary(v, u) == l
            }
            fn spec_len(v: u64, u: u64) -> usize {
                spec::mb_len(v, u as u128)
            }
            fn spec_bit(v: u64, u: u64, i: usize) -> bool {
                spec::mb_bit::<$e>(v, u as u128, i)
            }
            fn interesting(v: u64, u: u64) -> bool {
                u == u64::MAX && v == u - 1
            }
        }
        impl<const T: bool> Code<$e, T> for VByteBe {
            type P = ();
            fn params<S: Src>(s: &mut S) -> (u64, ()) {
                (s.u64(), ())
            }
            fn write(ms: &mut MS<$e, T>, v: u64, _: ()) -> usize {
                ms.write_vbyte_be(v).unwrap()
            }
            fn read(ms: &mut MS<$e, T>, _: ()) -> u64 {
                ms.read_vbyte_be().unwrap()
            }
            fn lib_len_ok(v: u64, _: (), l: usize) -> bool {
                bit_len_vbyte(v) == l && 8 * byte_len_vbyte(v) == l
            }
            fn spec_len(v: u64, _: ()) -> usize {
                spec::vbyte_len(v)
            }
            fn spec_bit(v: u64, _: (), i: usize) -> bool {
                spec::vbyte_bit::<$e>(v, true, i)
            }
            fn interesting(v: u64, _: ()) -> bool {
                v == u64::MAX
            }
        }
        impl<const T: bool> Code<$e, T> for VByteLe {
            type P = ();
            fn params<S: Src>(s: &mut S) -> (u64, ()) {
                (s.u64(), ())
            }
            fn write(ms: &mut MS<$e, T>, v: u64, _: ()) -> usize {
                ms.write_vbyte_le(v).unwrap()
            }
            fn read(ms: &mut MS<$e, T>, _: ()) -> u64 {
                ms.read_vbyte_le().unwrap()
            }
            fn lib_len_ok(v: u64, _: (), l: usize) -> bool {
                bit_len_vbyte(v) == l && 8 * byte_len_vbyte(v) == l
            }
            fn spec_len(v: u64, _: ()) -> usize {
                spec::vbyte_len(v)
            }
            fn spec_bit(v: u64, _: (), i: usize) -> bool {
                spec::vbyte_bit::<$e>(v, false, i)
            }
            fn interesting(v: u64, _: ()) -> bool {
                v == u64::MAX
            }
        }
    };
}
impl_codes!(BE);
impl_codes!(LE);

/// model self-check: MS stores what write_bits/write_unary are documented to emit and reads it back
pub fn ms_selfcheck<E: En, S: Src>(s: &mut S) {
    let off = s.usize_in(0, 64);
    let prefix = s.u64();
    let v = s.u64();
    let n = s.usize_in(0, 64);
    let x = s.u64_in(0, 60);
    let i = s.usize();
    let mut ms = MS::<E, false>::new();
    ms.write_bits(prefix, off).unwrap();
    ms.write_bits(v, n).unwrap();
    ms.write_unary(x).unwrap();
    let tot = off + n + x as usize + 1;
    assert_eq!(ms.wlen, tot);
    s.assume(i < tot);
    let exp = if i < off {
        field_bit::<E>(prefix, off, i)
    } else if i < off + n {
        field_bit::<E>(v, n, i - off)
    } else {
        i == off + n + x as usize
    };
    assert_eq!(ms.bit(i), exp, "MS stores the canonical bit sequence");
    assert_eq!(ms.peek_bits(if off == 0 { 1 } else { off }).unwrap(), if off == 0 { ms.bit(0) as u64 } else { prefix & mask64(off) });
    assert_eq!(ms.read_bits(off).unwrap(), prefix & mask64(off));
    assert_eq!(ms.read_bits(n).unwrap(), v & mask64(n));
    assert_eq!(ms.read_unary().unwrap(), x);
    assert_eq!(ms.rpos, tot);
    crate::cover!(s, n == 64 && off == 64, "full fields");
}

/// lemma: every BitRead operation of MS at cursor `rpos` equals the same operation on the stream re-based at `rpos`
pub fn ms_rebase_lemma<E: En, S: Src>(s: &mut S) {
    let mut a = MS::<E, false>::new();
    a.bits = U256 { hi: s.u128(), lo: s.u128() };
    a.wlen = s.usize_in(0, CAP);
    a.rpos = s.usize_in(0, a.wlen);
    // bits beyond wlen are zero in every MS built through the API
    let pad = CAP - a.wlen;
    if E::BE {
        s.assume(a.bits.shl(a.wlen) == U256::ZERO);
    } else {
        s.assume(a.bits.shr(a.wlen) == U256::ZERO);
    }
    let _ = pad;
    let mut b = a.rebased(a.rpos);
    let p0 = a.rpos;
    let n = s.usize_in(0, 64);
    let op = s.u8();
    s.assume(op < 4);
    let avail = a.wlen - a.rpos;
    if op == 0 {
        s.assume(n <= avail);
        assert_eq!(a.read_bits(n).unwrap(), b.read_bits(n).unwrap());
    } else if op == 1 {
        s.assume(n >= 1);
        assert_eq!(a.peek_bits(n).unwrap(), b.peek_bits(n).unwrap());
        s.assume(n <= avail);
        a.skip_bits_after_peek(n);
        b.skip_bits_after_peek(n);
    } else if op == 2 {
        s.assume(n <= avail);
        a.skip_bits(n).unwrap();
        b.skip_bits(n).unwrap();
    } else {
        // some one bit inside the remaining stream
        let z = s.usize();
        s.assume(z < avail && a.bit(p0 + z));
        assert_eq!(a.read_unary().unwrap(), b.read_unary().unwrap());
    }
    assert_eq!(a.rpos - p0, b.rpos, "same advance");
    crate::cover!(s, op == 3 && p0 > 100, "unary deep in the stream");
    crate::cover!(s, op == 0 && n == 64 && p0 % 64 == 63, "unaligned 64-bit read");
}

crate::harnesses! {
    c03_ms_selfcheck_be (quick, "BE", "model stream self-check: off<=64, n<=64, unary<=60") => ms_selfcheck::<BE, _>;
    c03_ms_selfcheck_le (quick, "LE", "model stream self-check: off<=64, n<=64, unary<=60") => ms_selfcheck::<LE, _>;
    c03_ms_rebase_be (quick, "BE", "model stream lemma: any content, any cursor, any op") => ms_rebase_lemma::<BE, _>;
    c03_ms_rebase_le (quick, "LE", "model stream lemma: any content, any cursor, any op") => ms_rebase_lemma::<LE, _>;
    c03_w_gamma_be (quick, "BE stream, tables off", "v<=2^64-2; write at symbolic offset 0..=7 (every bit alignment): bits vs definition, lengths") => codec_step::<BE, false, Gamma, _, 0, 7>;
    c03_r_gamma_be (quick, "BE stream, tables off", "v<=2^64-2; write at offset 0 then read: value, consumption, sentinel") => codec_step::<BE, false, Gamma, _, 1, 0>;
    c03_w64_gamma_be (thorough, "BE stream, tables off", "v<=2^64-2; write at symbolic offset 0..=64: bits vs definition, lengths") => codec_step::<BE, false, Gamma, _, 0, 64>;
    c03_rt_gamma_be (thorough, "BE stream, tables off", "v<=2^64-2; full round trip in place at symbolic offset 0..=64") => codec_step::<BE, false, Gamma, _, 2, 64>;
    c03_w_gamma_le (quick, "LE stream, tables off", "v<=2^64-2; write at symbolic offset 0..=7 (every bit alignment): bits vs definition, lengths") => codec_step::<LE, false, Gamma, _, 0, 7>;
    c03_r_gamma_le (quick, "LE stream, tables off", "v<=2^64-2; write at offset 0 then read: value, consumption, sentinel") => codec_step::<LE, false, Gamma, _, 1, 0>;
    c03_w64_gamma_le (thorough, "LE stream, tables off", "v<=2^64-2; write at symbolic offset 0..=64: bits vs definition, lengths") => codec_step::<LE, false, Gamma, _, 0, 64>;
    c03_rt_gamma_le (thorough, "LE stream, tables off", "v<=2^64-2; full round trip in place at symbolic offset 0..=64") => codec_step::<LE, false, Gamma, _, 2, 64>;
    c03_w_gamma_tab_be (quick, "BE stream, tables on", "v<=2^64-2; write at symbolic offset 0..=7 (every bit alignment): bits vs definition, lengths") => codec_step::<BE, true, Gamma, _, 0, 7>;
    c03_r_gamma_tab_be (quick, "BE stream, tables on", "v<=2^64-2; write at offset 0 then read: value, consumption, sentinel") => codec_step::<BE, true, Gamma, _, 1, 0>;
    c03_w64_gamma_tab_be (thorough, "BE stream, tables on", "v<=2^64-2; write at symbolic offset 0..=64: bits vs definition, lengths") => codec_step::<BE, true, Gamma, _, 0, 64>;
    c03_rt_gamma_tab_be (thorough, "BE stream, tables on", "v<=2^64-2; full round trip in place at symbolic offset 0..=64") => codec_step::<BE, true, Gamma, _, 2, 64>;
    c03_w_gamma_tab_le (quick, "LE stream, tables on", "v<=2^64-2; write at symbolic offset 0..=7 (every bit alignment): bits vs definition, lengths") => codec_step::<LE, true, Gamma, _, 0, 7>;
    c03_r_gamma_tab_le (quick, "LE stream, tables on", "v<=2^64-2; write at offset 0 then read: value, consumption, sentinel") => codec_step::<LE, true, Gamma, _, 1, 0>;
    c03_w64_gamma_tab_le (thorough, "LE stream, tables on", "v<=2^64-2; write at symbolic offset 0..=64: bits vs definition, lengths") => codec_step::<LE, true, Gamma, _, 0, 64>;
    c03_rt_gamma_tab_le (thorough, "LE stream, tables on", "v<=2^64-2; full round trip in place at symbolic offset 0..=64") => codec_step::<LE, true, Gamma, _, 2, 64>;
    c03_w_delta_be (quick, "BE stream, tables off", "v<=2^64-2; write at symbolic offset 0..=7 (every bit alignment): bits vs definition, lengths") => codec_step::<BE, false, Delta, _, 0, 7>;
    c03_r_delta_be (quick, "BE stream, tables off", "v<=2^64-2; write at offset 0 then read: value, consumption, sentinel") => codec_step::<BE, false, Delta, _, 1, 0>;
    c03_w64_delta_be (thorough, "BE stream, tables off", "v<=2^64-2; write at symbolic offset 0..=64: bits vs definition, lengths") => codec_step::<BE, false, Delta, _, 0, 64>;
    c03_rt_delta_be (thorough, "BE stream, tables off", "v<=2^64-2; full round trip in place at symbolic offset 0..=64") => codec_step::<BE, false, Delta, _, 2, 64>;
    c03_w_delta_le (quick, "LE stream, tables off", "v<=2^64-2; write at symbolic offset 0..=7 (every bit alignment): bits vs definition, lengths") => codec_step::<LE, false, Delta, _, 0, 7>;
    c03_r_delta_le (quick, "LE stream, tables off", "v<=2^64-2; write at offset 0 then read: value, consumption, sentinel") => codec_step::<LE, false, Delta, _, 1, 0>;
    c03_w64_delta_le (thorough, "LE stream, tables off", "v<=2^64-2; write at symbolic offset 0..=64: bits vs definition, lengths") => codec_step::<LE, false, Delta, _, 0, 64>;
    c03_rt_delta_le (thorough, "LE stream, tables off", "v<=2^64-2; full round trip in place at symbolic offset 0..=64") => codec_step::<LE, false, Delta, _, 2, 64>;
    c03_w_delta_tab_be (quick, "BE stream, tables on", "v<=2^64-2; write at symbolic offset 0..=7 (every bit alignment): bits vs definition, lengths") => codec_step::<BE, true, Delta, _, 0, 7>;
    c03_r_delta_tab_be (quick, "BE stream, tables on", "v<=2^64-2; write at offset 0 then read: value, consumption, sentinel") => codec_step::<BE, true, Delta, _, 1, 0>;
    c03_w64_delta_tab_be (thorough, "BE stream, tables on", "v<=2^64-2; write at symbolic offset 0..=64: bits vs definition, lengths") => codec_step::<BE, true, Delta, _, 0, 64>;
    c03_rt_delta_tab_be (thorough, "BE stream, tables on", "v<=2^64-2; full round trip in place at symbolic offset 0..=64") => codec_step::<BE, true, Delta, _, 2, 64>;
    c03_w_delta_tab_le (quick, "LE stream, tables on", "v<=2^64-2; write at symbolic offset 0..=7 (every bit alignment): bits vs definition, lengths") => codec_step::<LE, true, Delta, _, 0, 7>;
    c03_r_delta_tab_le (quick, "LE stream, tables on", "v<=2^64-2; write at offset 0 then read: value, consumption, sentinel") => codec_step::<LE, true, Delta, _, 1, 0>;
    c03_w64_delta_tab_le (thorough, "LE stream, tables on", "v<=2^64-2; write at symbolic offset 0..=64: bits vs definition, lengths") => codec_step::<LE, true, Delta, _, 0, 64>;
    c03_rt_delta_tab_le (thorough, "LE stream, tables on", "v<=2^64-2; full round trip in place at symbolic offset 0..=64") => codec_step::<LE, true, Delta, _, 2, 64>;
    #[kani::unwind(8)]
    c03_w_omega_be (quick, "BE stream", "v<=2^64-2; write at symbolic offset 0..=7 (every bit alignment): bits vs definition, lengths") => codec_step::<BE, false, Omega, _, 0, 7>;
    #[kani::unwind(8)]
    c03_r_omega_be (quick, "BE stream", "v<=2^64-2; write at offset 0 then read: value, consumption, sentinel") => codec_step::<BE, false, Omega, _, 1, 0>;
    #[kani::unwind(8)]
    c03_w64_omega_be (thorough, "BE stream", "v<=2^64-2; write at symbolic offset 0..=64: bits vs definition, lengths") => codec_step::<BE, false, Omega, _, 0, 64>;
    #[kani::unwind(8)]
    c03_rt_omega_be (thorough, "BE stream", "v<=2^64-2; full round trip in place at symbolic offset 0..=64") => codec_step::<BE, false, Omega, _, 2, 64>;
    #[kani::unwind(8)]
    c03_w_omega_le (quick, "LE stream", "v<=2^64-2; write at symbolic offset 0..=7 (every bit alignment): bits vs definition, lengths") => codec_step::<LE, false, Omega, _, 0, 7>;
    #[kani::unwind(8)]
    c03_r_omega_le (quick, "LE stream", "v<=2^64-2; write at offset 0 then read: value, consumption, sentinel") => codec_step::<LE, false, Omega, _, 1, 0>;
    #[kani::unwind(8)]
    c03_w64_omega_le (thorough, "LE stream", "v<=2^64-2; write at symbolic offset 0..=64: bits vs definition, lengths") => codec_step::<LE, false, Omega, _, 0, 64>;
    #[kani::unwind(8)]
    c03_rt_omega_le (thorough, "LE stream", "v<=2^64-2; full round trip in place at symbolic offset 0..=64") => codec_step::<LE, false, Omega, _, 2, 64>;
    c03_w_zeta_be (quick, "BE stream", "k in 1..=63, v<=2^64-2; definition checked where (h+1)k<=64; write at symbolic offset 0..=7 (every bit alignment): bits vs definition, lengths") => codec_step::<BE, false, Zeta<1, 63>, _, 0, 7>;
    c03_r_zeta_be (quick, "BE stream", "k in 1..=63, v<=2^64-2; definition checked where (h+1)k<=64; write at offset 0 then read: value, consumption, sentinel") => codec_step::<BE, false, Zeta<1, 63>, _, 1, 0>;
    c03_w64_zeta_be (thorough, "BE stream", "k in 1..=63, v<=2^64-2; definition checked where (h+1)k<=64; write at symbolic offset 0..=64: bits vs definition, lengths") => codec_step::<BE, false, Zeta<1, 63>, _, 0, 64>;
    c03_rt_zeta_be (thorough, "BE stream", "k in 1..=63, v<=2^64-2; definition checked where (h+1)k<=64; full round trip in place at symbolic offset 0..=64") => codec_step::<BE, false, Zeta<1, 63>, _, 2, 64>;
    c03_w_zeta_le (quick, "LE stream", "k in 1..=63, v<=2^64-2; definition checked where (h+1)k<=64; write at symbolic offset 0..=7 (every bit alignment): bits vs definition, lengths") => codec_step::<LE, false, Zeta<1, 63>, _, 0, 7>;
    c03_r_zeta_le (quick, "LE stream", "k in 1..=63, v<=2^64-2; definition checked where (h+1)k<=64; write at offset 0 then read: value, consumption, sentinel") => codec_step::<LE, false, Zeta<1, 63>, _, 1, 0>;
    c03_w64_zeta_le (thorough, "LE stream", "k in 1..=63, v<=2^64-2; definition checked where (h+1)k<=64; write at symbolic offset 0..=64: bits vs definition, lengths") => codec_step::<LE, false, Zeta<1, 63>, _, 0, 64>;
    c03_rt_zeta_le (thorough, "LE stream", "k in 1..=63, v<=2^64-2; definition checked where (h+1)k<=64; full round trip in place at symbolic offset 0..=64") => codec_step::<LE, false, Zeta<1, 63>, _, 2, 64>;
    c03_w_zeta3_be (quick, "BE stream, tables off", "v<=2^64-2; write at symbolic offset 0..=7 (every bit alignment): bits vs definition, lengths") => codec_step::<BE, false, Zeta3, _, 0, 7>;
    c03_r_zeta3_be (quick, "BE stream, tables off", "v<=2^64-2; write at offset 0 then read: value, consumption, sentinel") => codec_step::<BE, false, Zeta3, _, 1, 0>;
    c03_w64_zeta3_be (thorough, "BE stream, tables off", "v<=2^64-2; write at symbolic offset 0..=64: bits vs definition, lengths") => codec_step::<BE, false, Zeta3, _, 0, 64>;
    c03_rt_zeta3_be (thorough, "BE stream, tables off", "v<=2^64-2; full round trip in place at symbolic offset 0..=64") => codec_step::<BE, false, Zeta3, _, 2, 64>;
    c03_w_zeta3_le (quick, "LE stream, tables off", "v<=2^64-2; write at symbolic offset 0..=7 (every bit alignment): bits vs definition, lengths") => codec_step::<LE, false, Zeta3, _, 0, 7>;
    c03_r_zeta3_le (quick, "LE stream, tables off", "v<=2^64-2; write at offset 0 then read: value, consumption, sentinel") => codec_step::<LE, false, Zeta3, _, 1, 0>;
    c03_w64_zeta3_le (thorough, "LE stream, tables off", "v<=2^64-2; write at symbolic offset 0..=64: bits vs definition, lengths") => codec_step::<LE, false, Zeta3, _, 0, 64>;
    c03_rt_zeta3_le (thorough, "LE stream, tables off", "v<=2^64-2; full round trip in place at symbolic offset 0..=64") => codec_step::<LE, false, Zeta3, _, 2, 64>;
    c03_w_zeta3_tab_be (quick, "BE stream, tables on", "v<=2^64-2; write at symbolic offset 0..=7 (every bit alignment): bits vs definition, lengths") => codec_step::<BE, true, Zeta3, _, 0, 7>;
    c03_r_zeta3_tab_be (quick, "BE stream, tables on", "v<=2^64-2; write at offset 0 then read: value, consumption, sentinel") => codec_step::<BE, true, Zeta3, _, 1, 0>;
    c03_w64_zeta3_tab_be (thorough, "BE stream, tables on", "v<=2^64-2; write at symbolic offset 0..=64: bits vs definition, lengths") => codec_step::<BE, true, Zeta3, _, 0, 64>;
    c03_rt_zeta3_tab_be (thorough, "BE stream, tables on", "v<=2^64-2; full round trip in place at symbolic offset 0..=64") => codec_step::<BE, true, Zeta3, _, 2, 64>;
    c03_w_zeta3_tab_le (quick, "LE stream, tables on", "v<=2^64-2; write at symbolic offset 0..=7 (every bit alignment): bits vs definition, lengths") => codec_step::<LE, true, Zeta3, _, 0, 7>;
    c03_r_zeta3_tab_le (quick, "LE stream, tables on", "v<=2^64-2; write at offset 0 then read: value, consumption, sentinel") => codec_step::<LE, true, Zeta3, _, 1, 0>;
    c03_w64_zeta3_tab_le (thorough, "LE stream, tables on", "v<=2^64-2; write at symbolic offset 0..=64: bits vs definition, lengths") => codec_step::<LE, true, Zeta3, _, 0, 64>;
    c03_rt_zeta3_tab_le (thorough, "LE stream, tables on", "v<=2^64-2; full round trip in place at symbolic offset 0..=64") => codec_step::<LE, true, Zeta3, _, 2, 64>;
    c03_w_pi_be (quick, "BE stream", "k in 0..=63, v<=2^64-2; write at symbolic offset 0..=7 (every bit alignment): bits vs definition, lengths") => codec_step::<BE, false, Pi, _, 0, 7>;
    c03_r_pi_be (quick, "BE stream", "k in 0..=63, v<=2^64-2; write at offset 0 then read: value, consumption, sentinel") => codec_step::<BE, false, Pi, _, 1, 0>;
    c03_w64_pi_be (thorough, "BE stream", "k in 0..=63, v<=2^64-2; write at symbolic offset 0..=64: bits vs definition, lengths") => codec_step::<BE, false, Pi, _, 0, 64>;
    c03_rt_pi_be (thorough, "BE stream", "k in 0..=63, v<=2^64-2; full round trip in place at symbolic offset 0..=64") => codec_step::<BE, false, Pi, _, 2, 64>;
    c03_w_pi_le (quick, "LE stream", "k in 0..=63, v<=2^64-2; write at symbolic offset 0..=7 (every bit alignment): bits vs definition, lengths") => codec_step::<LE, false, Pi, _, 0, 7>;
    c03_r_pi_le (quick, "LE stream", "k in 0..=63, v<=2^64-2; write at offset 0 then read: value, consumption, sentinel") => codec_step::<LE, false, Pi, _, 1, 0>;
    c03_w64_pi_le (thorough, "LE stream", "k in 0..=63, v<=2^64-2; write at symbolic offset 0..=64: bits vs definition, lengths") => codec_step::<LE, false, Pi, _, 0, 64>;
    c03_rt_pi_le (thorough, "LE stream", "k in 0..=63, v<=2^64-2; full round trip in place at symbolic offset 0..=64") => codec_step::<LE, false, Pi, _, 2, 64>;
    c03_w_rice_be (quick, "BE stream", "k in 0..=63, any v with v>>k<=127; write at symbolic offset 0..=7 (every bit alignment): bits vs definition, lengths") => codec_step::<BE, false, Rice, _, 0, 7>;
    c03_r_rice_be (quick, "BE stream", "k in 0..=63, any v with v>>k<=127; write at offset 0 then read: value, consumption, sentinel") => codec_step::<BE, false, Rice, _, 1, 0>;
    c03_w64_rice_be (thorough, "BE stream", "k in 0..=63, any v with v>>k<=127; write at symbolic offset 0..=64: bits vs definition, lengths") => codec_step::<BE, false, Rice, _, 0, 64>;
    c03_rt_rice_be (thorough, "BE stream", "k in 0..=63, any v with v>>k<=127; full round trip in place at symbolic offset 0..=64") => codec_step::<BE, false, Rice, _, 2, 64>;
    c03_w_rice_le (quick, "LE stream", "k in 0..=63, any v with v>>k<=127; write at symbolic offset 0..=7 (every bit alignment): bits vs definition, lengths") => codec_step::<LE, false, Rice, _, 0, 7>;
    c03_r_rice_le (quick, "LE stream", "k in 0..=63, any v with v>>k<=127; write at offset 0 then read: value, consumption, sentinel") => codec_step::<LE, false, Rice, _, 1, 0>;
    c03_w64_rice_le (thorough, "LE stream", "k in 0..=63, any v with v>>k<=127; write at symbolic offset 0..=64: bits vs definition, lengths") => codec_step::<LE, false, Rice, _, 0, 64>;
    c03_rt_rice_le (thorough, "LE stream", "k in 0..=63, any v with v>>k<=127; full round trip in place at symbolic offset 0..=64") => codec_step::<LE, false, Rice, _, 2, 64>;
    c03_w_expgolomb_be (quick, "BE stream, gamma tables off", "k in 0..=63, v<=2^64-2; write at symbolic offset 0..=7 (every bit alignment): bits vs definition, lengths") => codec_step::<BE, false, ExpGolomb, _, 0, 7>;
    c03_r_expgolomb_be (quick, "BE stream, gamma tables off", "k in 0..=63, v<=2^64-2; write at offset 0 then read: value, consumption, sentinel") => codec_step::<BE, false, ExpGolomb, _, 1, 0>;
    c03_w64_expgolomb_be (thorough, "BE stream, gamma tables off", "k in 0..=63, v<=2^64-2; write at symbolic offset 0..=64: bits vs definition, lengths") => codec_step::<BE, false, ExpGolomb, _, 0, 64>;
    c03_rt_expgolomb_be (thorough, "BE stream, gamma tables off", "k in 0..=63, v<=2^64-2; full round trip in place at symbolic offset 0..=64") => codec_step::<BE, false, ExpGolomb, _, 2, 64>;
    c03_w_expgolomb_le (quick, "LE stream, gamma tables off", "k in 0..=63, v<=2^64-2; write at symbolic offset 0..=7 (every bit alignment): bits vs definition, lengths") => codec_step::<LE, false, ExpGolomb, _, 0, 7>;
    c03_r_expgolomb_le (quick, "LE stream, gamma tables off", "k in 0..=63, v<=2^64-2; write at offset 0 then read: value, consumption, sentinel") => codec_step::<LE, false, ExpGolomb, _, 1, 0>;
    c03_w64_expgolomb_le (thorough, "LE stream, gamma tables off", "k in 0..=63, v<=2^64-2; write at symbolic offset 0..=64: bits vs definition, lengths") => codec_step::<LE, false, ExpGolomb, _, 0, 64>;
    c03_rt_expgolomb_le (thorough, "LE stream, gamma tables off", "k in 0..=63, v<=2^64-2; full round trip in place at symbolic offset 0..=64") => codec_step::<LE, false, ExpGolomb, _, 2, 64>;
    c03_w_expgolomb_tab_be (quick, "BE stream, gamma tables on", "k in 0..=63, v<=2^64-2; write at symbolic offset 0..=7 (every bit alignment): bits vs definition, lengths") => codec_step::<BE, true, ExpGolomb, _, 0, 7>;
    c03_r_expgolomb_tab_be (quick, "BE stream, gamma tables on", "k in 0..=63, v<=2^64-2; write at offset 0 then read: value, consumption, sentinel") => codec_step::<BE, true, ExpGolomb, _, 1, 0>;
    c03_w64_expgolomb_tab_be (thorough, "BE stream, gamma tables on", "k in 0..=63, v<=2^64-2; write at symbolic offset 0..=64: bits vs definition, lengths") => codec_step::<BE, true, ExpGolomb, _, 0, 64>;
    c03_rt_expgolomb_tab_be (thorough, "BE stream, gamma tables on", "k in 0..=63, v<=2^64-2; full round trip in place at symbolic offset 0..=64") => codec_step::<BE, true, ExpGolomb, _, 2, 64>;
    c03_w_expgolomb_tab_le (quick, "LE stream, gamma tables on", "k in 0..=63, v<=2^64-2; write at symbolic offset 0..=7 (every bit alignment): bits vs definition, lengths") => codec_step::<LE, true, ExpGolomb, _, 0, 7>;
    c03_r_expgolomb_tab_le (quick, "LE stream, gamma tables on", "k in 0..=63, v<=2^64-2; write at offset 0 then read: value, consumption, sentinel") => codec_step::<LE, true, ExpGolomb, _, 1, 0>;
    c03_w64_expgolomb_tab_le (thorough, "LE stream, gamma tables on", "k in 0..=63, v<=2^64-2; write at symbolic offset 0..=64: bits vs definition, lengths") => codec_step::<LE, true, ExpGolomb, _, 0, 64>;
    c03_rt_expgolomb_tab_le (thorough, "LE stream, gamma tables on", "k in 0..=63, v<=2^64-2; full round trip in place at symbolic offset 0..=64") => codec_step::<LE, true, ExpGolomb, _, 2, 64>;
    c03_w_golomb_be (quick, "BE stream", "b in 1..=16, any v<120b; write at symbolic offset 0..=7 (every bit alignment): bits vs definition, lengths") => codec_step::<BE, false, Golomb<16, {u64::MAX}>, _, 0, 7>;
    c03_w_golomb_b64_be (thorough, "BE stream", "b in 1..=64, any v<120b; write at symbolic offset 0..=7 (every bit alignment): bits vs definition, lengths") => codec_step::<BE, false, Golomb<64, {u64::MAX}>, _, 0, 7>;
    c03_r_golomb_be (quick, "BE stream", "b in 1..=16, any v<120b; write at offset 0 then read: value, consumption, sentinel") => codec_step::<BE, false, Golomb<16, {u64::MAX}>, _, 1, 0>;
    c03_r_golomb_b64_be (thorough, "BE stream", "b in 1..=64, any v<120b; write at offset 0 then read: value, consumption, sentinel") => codec_step::<BE, false, Golomb<64, {u64::MAX}>, _, 1, 0>;
    c03_w64_golomb_be (thorough, "BE stream", "b in 1..=64, any v<120b; write at symbolic offset 0..=64: bits vs definition, lengths") => codec_step::<BE, false, Golomb<64, {u64::MAX}>, _, 0, 64>;
    c03_rt_golomb_be (thorough, "BE stream", "b in 1..=64, any v<120b; full round trip in place at symbolic offset 0..=64") => codec_step::<BE, false, Golomb<64, {u64::MAX}>, _, 2, 64>;
    c03_w_golomb_le (quick, "LE stream", "b in 1..=16, any v<120b; write at symbolic offset 0..=7 (every bit alignment): bits vs definition, lengths") => codec_step::<LE, false, Golomb<16, {u64::MAX}>, _, 0, 7>;
    c03_w_golomb_b64_le (thorough, "LE stream", "b in 1..=64, any v<120b; write at symbolic offset 0..=7 (every bit alignment): bits vs definition, lengths") => codec_step::<LE, false, Golomb<64, {u64::MAX}>, _, 0, 7>;
    c03_r_golomb_le (quick, "LE stream", "b in 1..=16, any v<120b; write at offset 0 then read: value, consumption, sentinel") => codec_step::<LE, false, Golomb<16, {u64::MAX}>, _, 1, 0>;
    c03_r_golomb_b64_le (thorough, "LE stream", "b in 1..=64, any v<120b; write at offset 0 then read: value, consumption, sentinel") => codec_step::<LE, false, Golomb<64, {u64::MAX}>, _, 1, 0>;
    c03_w64_golomb_le (thorough, "LE stream", "b in 1..=64, any v<120b; write at symbolic offset 0..=64: bits vs definition, lengths") => codec_step::<LE, false, Golomb<64, {u64::MAX}>, _, 0, 64>;
    c03_rt_golomb_le (thorough, "LE stream", "b in 1..=64, any v<120b; full round trip in place at symbolic offset 0..=64") => codec_step::<LE, false, Golomb<64, {u64::MAX}>, _, 2, 64>;
    c03_w_minbin_be (quick, "BE stream", "u in 1..2^64, v<u; write at symbolic offset 0..=7 (every bit alignment): bits vs definition, lengths") => codec_step::<BE, false, MinBin, _, 0, 7>;
    c03_r_minbin_be (quick, "BE stream", "u in 1..2^64, v<u; write at offset 0 then read: value, consumption, sentinel") => codec_step::<BE, false, MinBin, _, 1, 0>;
    c03_w64_minbin_be (thorough, "BE stream", "u in 1..2^64, v<u; write at symbolic offset 0..=64: bits vs definition, lengths") => codec_step::<BE, false, MinBin, _, 0, 64>;
    c03_rt_minbin_be (thorough, "BE stream", "u in 1..2^64, v<u; full round trip in place at symbolic offset 0..=64") => codec_step::<BE, false, MinBin, _, 2, 64>;
    c03_w_minbin_le (quick, "LE stream", "u in 1..2^64, v<u; write at symbolic offset 0..=7 (every bit alignment): bits vs definition, lengths") => codec_step::<LE, false, MinBin, _, 0, 7>;
    c03_r_minbin_le (quick, "LE stream", "u in 1..2^64, v<u; write at offset 0 then read: value, consumption, sentinel") => codec_step::<LE, false, MinBin, _, 1, 0>;
    c03_w64_minbin_le (thorough, "LE stream", "u in 1..2^64, v<u; write at symbolic offset 0..=64: bits vs definition, lengths") => codec_step::<LE, false, MinBin, _, 0, 64>;
    c03_rt_minbin_le (thorough, "LE stream", "u in 1..2^64, v<u; full round trip in place at symbolic offset 0..=64") => codec_step::<LE, false, MinBin, _, 2, 64>;
    #[kani::unwind(12)]
    c03_w_vbytebe_be (quick, "BE stream", "any u64 v; write at symbolic offset 0..=7 (every bit alignment): bits vs definition, lengths") => codec_step::<BE, false, VByteBe, _, 0, 7>;
    #[kani::unwind(12)]
    c03_r_vbytebe_be (quick, "BE stream", "any u64 v; write at offset 0 then read: value, consumption, sentinel") => codec_step::<BE, false, VByteBe, _, 1, 0>;
    #[kani::unwind(12)]
    c03_w64_vbytebe_be (thorough, "BE stream", "any u64 v; write at symbolic offset 0..=64: bits vs definition, lengths") => codec_step::<BE, false, VByteBe, _, 0, 64>;
    #[kani::unwind(12)]
    c03_rt_vbytebe_be (thorough, "BE stream", "any u64 v; full round trip in place at symbolic offset 0..=64") => codec_step::<BE, false, VByteBe, _, 2, 64>;
    #[kani::unwind(12)]
    c03_w_vbytebe_le (quick, "LE stream", "any u64 v; write at symbolic offset 0..=7 (every bit alignment): bits vs definition, lengths") => codec_step::<LE, false, VByteBe, _, 0, 7>;
    #[kani::unwind(12)]
    c03_r_vbytebe_le (quick, "LE stream", "any u64 v; write at offset 0 then read: value, consumption, sentinel") => codec_step::<LE, false, VByteBe, _, 1, 0>;
    #[kani::unwind(12)]
    c03_w64_vbytebe_le (thorough, "LE stream", "any u64 v; write at symbolic offset 0..=64: bits vs definition, lengths") => codec_step::<LE, false, VByteBe, _, 0, 64>;
    #[kani::unwind(12)]
    c03_rt_vbytebe_le (thorough, "LE stream", "any u64 v; full round trip in place at symbolic offset 0..=64") => codec_step::<LE, false, VByteBe, _, 2, 64>;
    #[kani::unwind(12)]
    c03_w_vbytele_be (quick, "BE stream", "any u64 v; write at symbolic offset 0..=7 (every bit alignment): bits vs definition, lengths") => codec_step::<BE, false, VByteLe, _, 0, 7>;
    #[kani::unwind(12)]
    c03_r_vbytele_be (quick, "BE stream", "any u64 v; write at offset 0 then read: value, consumption, sentinel") => codec_step::<BE, false, VByteLe, _, 1, 0>;
    #[kani::unwind(12)]
    c03_w64_vbytele_be (thorough, "BE stream", "any u64 v; write at symbolic offset 0..=64: bits vs definition, lengths") => codec_step::<BE, false, VByteLe, _, 0, 64>;
    #[kani::unwind(12)]
    c03_rt_vbytele_be (thorough, "BE stream", "any u64 v; full round trip in place at symbolic offset 0..=64") => codec_step::<BE, false, VByteLe, _, 2, 64>;
    #[kani::unwind(12)]
    c03_w_vbytele_le (quick, "LE stream", "any u64 v; write at symbolic offset 0..=7 (every bit alignment): bits vs definition, lengths") => codec_step::<LE, false, VByteLe, _, 0, 7>;
    #[kani::unwind(12)]
    c03_r_vbytele_le (quick, "LE stream", "any u64 v; write at offset 0 then read: value, consumption, sentinel") => codec_step::<LE, false, VByteLe, _, 1, 0>;
    #[kani::unwind(12)]
    c03_w64_vbytele_le (thorough, "LE stream", "any u64 v; write at symbolic offset 0..=64: bits vs definition, lengths") => codec_step::<LE, false, VByteLe, _, 0, 64>;
    #[kani::unwind(12)]
    c03_rt_vbytele_le (thorough, "LE stream", "any u64 v; full round trip in place at symbolic offset 0..=64") => codec_step::<LE, false, VByteLe, _, 2, 64>;
    c03_w_golomb_b4096_be (thorough, "BE stream", "b in 1..=4096, v<2^20 and v<120b") => codec_step::<BE, false, Golomb<4096, 1048575>, _, 0, 7>;
    c03_r_golomb_b4096_be (thorough, "BE stream", "b in 1..=4096, v<2^20 and v<120b") => codec_step::<BE, false, Golomb<4096, 1048575>, _, 1, 0>;
    c03_w_golomb_b4096_le (thorough, "LE stream", "b in 1..=4096, v<2^20 and v<120b") => codec_step::<LE, false, Golomb<4096, 1048575>, _, 0, 7>;
    c03_r_golomb_b4096_le (thorough, "LE stream", "b in 1..=4096, v<2^20 and v<120b") => codec_step::<LE, false, Golomb<4096, 1048575>, _, 1, 0>;
    c03_w_golombbig_be (quick, "BE stream", "Golomb with any modulus 1<=b<2^64 and v<b (quotient 0); write at symbolic offset 0..=7: bits vs definition, lengths") => codec_step::<BE, false, GolombBig, _, 0, 7>;
    c03_r_golombbig_be (quick, "BE stream", "Golomb with any modulus 1<=b<2^64 and v<b (quotient 0); write at offset 0 then read: value, consumption, sentinel") => codec_step::<BE, false, GolombBig, _, 1, 0>;
    c03_w_golombbig_le (quick, "LE stream", "Golomb with any modulus 1<=b<2^64 and v<b (quotient 0); write at symbolic offset 0..=7: bits vs definition, lengths") => codec_step::<LE, false, GolombBig, _, 0, 7>;
    c03_r_golombbig_le (quick, "LE stream", "Golomb with any modulus 1<=b<2^64 and v<b (quotient 0); write at offset 0 then read: value, consumption, sentinel") => codec_step::<LE, false, GolombBig, _, 1, 0>;
}
