//! Native replay of a solver counterexample.
//! usage: replay <harness> <file with one line of comma separated byte values per kani::any()>
//!        replay --list
//! stdout: REPLAY: reproduced <msg> | REPLAY: passed | REPLAY: assume-violated | REPLAY: desync | REPLAY: unknown-harness
use dsi_verif_harness::src::{ReplaySrc, REPLAY_ASSUME, REPLAY_DESYNC};

fn main() {
    let args: Vec<String> = std::env::args().collect();
    if args.len() >= 2 && args[1] == "--list" {
        for n in dsi_verif_harness::all_names() {
            println!("{}", n);
        }
        return;
    }
    if args.len() < 3 {
        eprintln!("usage: replay <harness> <values-file>");
        std::process::exit(2);
    }
    let name = args[1].clone();
    let text = std::fs::read_to_string(&args[2]).expect("values file");
    let mut vals = Vec::new();
    for line in text.lines() {
        let line = line.trim();
        if line.is_empty() || line.starts_with('#') {
            continue;
        }
        let bytes: Vec<u8> = line
            .split(',')
            .filter(|t| !t.trim().is_empty())
            .map(|t| t.trim().parse::<u8>().expect("byte"))
            .collect();
        vals.push(bytes);
    }
    let res = std::panic::catch_unwind(move || {
        let mut s = ReplaySrc::new(vals);
        let known = dsi_verif_harness::replay(&name, &mut s);
        (known, s.consumed(), s.total())
    });
    match res {
        Ok((false, _, _)) => println!("REPLAY: unknown-harness"),
        Ok((true, c, t)) => println!("REPLAY: passed (values consumed {}/{})", c, t),
        Err(e) => {
            let msg = if let Some(s) = e.downcast_ref::<String>() {
                s.clone()
            } else if let Some(s) = e.downcast_ref::<&str>() {
                s.to_string()
            } else {
                "<non-string panic>".to_string()
            };
            if msg.contains(REPLAY_ASSUME) {
                println!("REPLAY: assume-violated");
            } else if msg.contains(REPLAY_DESYNC) {
                println!("REPLAY: desync {}", msg);
            } else {
                println!("REPLAY: reproduced {}", msg.replace('\n', " "));
            }
        }
    }
}
