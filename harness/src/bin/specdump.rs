//! Prints codewords of the harness-side specification (spec.rs) for a fixed grid, one per
//! line: `<code> <E> <param> <value> <bits in stream order>`; consumed by oracle/validate.py,
//! which compares them with the repository's Python reference generator and literal vectors.
use dsi_bitstream::prelude::{BE, LE};
use dsi_verif_harness::model::En;
use dsi_verif_harness::spec;

fn bits<F: Fn(usize) -> bool>(len: usize, f: F) -> String {
    (0..len).map(|i| if f(i) { '1' } else { '0' }).collect()
}

fn dump<E: En>(e: &str) {
    let mut vals: Vec<u64> = (0..300).collect();
    for s in [10u32, 16, 20, 31, 32, 33, 47, 62, 63] {
        for d in [-1i64, 0, 1] {
            vals.push(((1u128 << s) as i128 + d as i128) as u64);
        }
    }
    vals.push(u64::MAX - 1);
    for &v in &vals {
        println!("gamma {} 0 {} {}", e, v, bits(spec::gamma_len(v), |i| spec::gamma_bit::<E>(v, i)));
        println!("delta {} 0 {} {}", e, v, bits(spec::delta_len(v), |i| spec::delta_bit::<E>(v, i)));
        println!("omega {} 0 {} {}", e, v, bits(spec::omega_len(v), |i| spec::omega_bit::<E>(v, i)));
        for k in 1..=8usize {
            if (spec::zeta_h(v, k) + 1) * k <= 64 {
                println!("zeta {} {} {} {}", e, k, v, bits(spec::zeta_len(v, k), |i| spec::zeta_bit::<E>(v, k, i)));
            }
        }
        for k in 0..=4usize {
            println!("pi {} {} {} {}", e, k, v, bits(spec::pi_len(v, k), |i| spec::pi_bit::<E>(v, k, i)));
            println!("expgolomb {} {} {} {}", e, k, v, bits(spec::exp_golomb_len(v, k), |i| spec::exp_golomb_bit::<E>(v, k, i)));
        }
        println!("vbytebe {} 0 {} {}", e, v, bits(spec::vbyte_len(v), |i| spec::vbyte_bit::<E>(v, true, i)));
        println!("vbytele {} 0 {} {}", e, v, bits(spec::vbyte_len(v), |i| spec::vbyte_bit::<E>(v, false, i)));
    }
    for u in 1..=40u64 {
        for v in 0..u {
            println!("minbin {} {} {} {}", e, u, v, bits(spec::mb_len(v, u as u128), |i| spec::mb_bit::<E>(v, u as u128, i)));
        }
    }
    for v in 0..200u64 {
        for k in 0..=4usize {
            println!("rice {} {} {} {}", e, k, v, bits(spec::rice_len(v, k), |i| spec::rice_bit::<E>(v, k, i)));
        }
        for b in 1..=12u64 {
            println!("golomb {} {} {} {}", e, b, v, bits(spec::golomb_len(v, b), |i| spec::golomb_bit::<E>(v, b, i)));
        }
    }
}

fn main() {
    dump::<BE>("BE");
    dump::<LE>("LE");
}
