#!/usr/bin/env python3
"""
Validation of the harness-side specification (harness/src/spec.rs) -- NOT the deciding step of any check:
a disagreement here is a bug in the oracle and blocks the checks that use it (exit 2).

 1. spec vs the repository's own Python reference functions (python/gen_code_tables.py: gamma, delta,
    minimal binary, zeta) on a grid, both endiannesses;
 2. spec vs literal vectors found in the repository's sources at run time: the codeword table of
    src/codes/mod.rs (unary/gamma/delta), the omega vectors of src/codes/omega.rs (BE and LE),
    the minimal-binary examples of src/codes/mod.rs;
 3. spec vs the REAL library natively, on the same grid, through a real BufBitWriter (sanity of the
    canonical layout reading of the spec: done by the Rust test `tests/spec_vs_lib.rs`).
"""
import importlib.util, os, re, subprocess, sys
from pathlib import Path

REPO = Path(os.environ.get("VERIF_REPO", "/repo"))
HARNESS = Path(os.environ.get("VERIF_HARNESS", "/verif/harness"))
TARGET = os.environ.get("VERIF_NATIVE_TARGET", "/var/tmp/dsi-verif-work/native")


def load_ref():
    src = (REPO / "python" / "gen_code_tables.py").read_text()
    # only the reference functions: cut at the table-generation entry point
    cut = src.index("def generate_default_tables") if "def generate_default_tables" in src else src.index('if __name__ == "__main__"')
    mod = {"__file__": str(REPO / "python" / "gen_code_tables.py"), "__name__": "gen_code_tables_ref"}
    exec(compile(src[:cut], "gen_code_tables_ref", "exec"), mod)
    return mod


def main():
    env = dict(os.environ, CARGO_NET_OFFLINE="true", RUSTFLAGS="--cfg dsi_bitstream_verif")
    p = subprocess.run(["cargo", "run", "-q", "--release", "--target-dir", TARGET, "--bin", "specdump"], cwd=HARNESS, env=env, capture_output=True, text=True)
    if p.returncode != 0:
        print("specdump failed", p.stderr[-2000:])
        return 2
    spec = {}
    for line in p.stdout.splitlines():
        code, e, param, v, *rest = line.split(" ")
        spec[(code, e, int(param), int(v))] = rest[0] if rest else ""
    ref = load_ref()
    bad = 0
    n = 0

    def stream(s, be):
        return s if be else s[::-1]

    for (code, e, param, v), bits in spec.items():
        be = e == "BE"
        exp = None
        if v >= (1 << 52) or bits == "" or (code == "zeta" and param == 1 and v == 0):
            # the Python reference uses floating-point log2 (inexact beyond 2^53) and prints a zero-width
            # field as "0": neither is a statement about the codes
            continue
        if code == "gamma":
            exp = stream(ref["write_gamma"](v, "", be), be)
        elif code == "delta":
            exp = stream(ref["write_delta"](v, "", be), be)
        elif code == "zeta":
            exp = stream(ref["write_zeta"](v, param, "", be), be)
        elif code == "minbin":
            exp = stream(ref["write_minimal_binary"](v, param, "", be), be)
        if exp is not None:
            n += 1
            if exp != bits:
                bad += 1
                if bad < 10:
                    print(f"MISMATCH python-ref {code} {e} param={param} v={v}: spec={bits} ref={exp}")
    # literal table of src/codes/mod.rs
    doc = (REPO / "src" / "codes" / "mod.rs").read_text()
    for m in re.finditer(r"//! \| (\d+)\s+\|\s+([01]+) \|\s+([01]+) \|\s+([01]+) \|", doc):
        v = int(m.group(1))
        n += 2
        for code, col in (("gamma", 3), ("delta", 4)):
            if spec[(code, "BE", 0, v)] != m.group(col):
                bad += 1
                print(f"MISMATCH doc table {code} v={v}: spec={spec[(code,'BE',0,v)]} doc={m.group(col)}")
    # minimal binary example of the docs: bound 7 -> 00, 010, 011, 100, 101, 110, 111 ; 2 is 011 (BE) / 101 (LE)
    exp7 = ["00", "010", "011", "100", "101", "110", "111"]
    for v, w in enumerate(exp7):
        n += 1
        if spec[("minbin", "BE", 7, v)] != w:
            bad += 1
            print(f"MISMATCH doc minimal binary u=7 v={v}: spec={spec[('minbin','BE',7,v)]} doc={w}")
    n += 1
    if spec[("minbin", "LE", 7, 2)] != "101":
        bad += 1
        print("MISMATCH doc minimal binary LE example")
    if "00101" in doc and "01100" in doc:
        n += 1
        # the docs print little-endian codewords with the first stream bit on the right
        if spec[("gamma", "LE", 0, 4)] != "01100"[::-1]:
            bad += 1
            print("MISMATCH doc gamma LE example")
    # omega vectors of src/codes/omega.rs: (value, 0b... << (64 - len), 0b...)
    om = (REPO / "src" / "codes" / "omega.rs").read_text()
    for m in re.finditer(r"\(\s*(\d[\d_]*),\s*0b([01_]+) << \(64 - (\d+)\),\s*0b([01_]+),?\s*\)", om):
        v = int(m.group(1).replace("_", ""))
        ln = int(m.group(3))
        be_bits = m.group(2).replace("_", "").zfill(ln)[-ln:]
        le_val = m.group(4).replace("_", "")
        le_bits = le_val.zfill(ln)[-ln:][::-1]
        for e, w in (("BE", be_bits), ("LE", le_bits)):
            if ("omega", e, 0, v) in spec:
                n += 1
                if spec[("omega", e, 0, v)] != w:
                    bad += 1
                    print(f"MISMATCH omega vector v={v} {e}: spec={spec[('omega',e,0,v)]} repo={w}")
    print(f"ORACLE-VALIDATION compared={n} mismatches={bad}")
    return 0 if bad == 0 and n > 1000 else 2


if __name__ == "__main__":
    sys.exit(main())
